"""Independent Lorenz-Mie series (Bohren & Huffman, Appendix A / BHMIE), written from the
textbook and sharing no code with holopy.  Time convention exp(-i w t); m = n_p / n_medium with
Im(m) >= 0 for absorption.

  coefficients(m, x)      -> a_n, b_n  (n = 1..nstop)
  amplitudes(m, x, theta) -> S1, S2
  efficiencies(m, x)      -> Qext, Qsca, Qabs, g
"""
import math

import numpy as np


def nstop(x):
    return int(x + 4.0 * x ** (1.0 / 3.0) + 2.0)


def coefficients(m, x):
    m = complex(m)
    ns = nstop(x)
    mx = m * x
    nmx = int(max(ns, abs(mx)) + 16 + 12 * abs(mx) ** (1.0 / 3.0))
    # logarithmic derivative D_n(mx) by downward recurrence
    D = np.zeros(nmx + 1, dtype=complex)
    for n in range(nmx, 0, -1):
        D[n - 1] = n / mx - 1.0 / (D[n] + n / mx)
    # Riccati-Bessel functions of the real argument x: psi_n = x j_n(x), chi_n = -x y_n(x)
    # (scipy's spherical Bessel functions; upward recurrence of psi_n loses digits for n > x)
    from scipy.special import spherical_jn, spherical_yn
    nn = np.arange(0, ns + 1)
    psi_all = x * spherical_jn(nn, x)
    chi_all = -x * spherical_yn(nn, x)
    xi_all = psi_all - 1j * chi_all
    an = np.zeros(ns, dtype=complex)
    bn = np.zeros(ns, dtype=complex)
    for n in range(1, ns + 1):
        psi, psi1 = psi_all[n], psi_all[n - 1]
        xi, xi1 = xi_all[n], xi_all[n - 1]
        da = D[n] / m + n / x
        db = D[n] * m + n / x
        an[n - 1] = (da * psi - psi1) / (da * xi - xi1)
        bn[n - 1] = (db * psi - psi1) / (db * xi - xi1)
    return an, bn


def amplitudes(m, x, theta):
    an, bn = coefficients(m, x)
    theta = np.atleast_1d(np.asarray(theta, dtype=float))
    mu = np.cos(theta)
    S1 = np.zeros(theta.shape, dtype=complex)
    S2 = np.zeros(theta.shape, dtype=complex)
    pi0 = np.zeros_like(mu)
    pi1 = np.ones_like(mu)
    for n in range(1, len(an) + 1):
        tau = n * mu * pi1 - (n + 1) * pi0
        fn = (2.0 * n + 1.0) / (n * (n + 1.0))
        S1 += fn * (an[n - 1] * pi1 + bn[n - 1] * tau)
        S2 += fn * (an[n - 1] * tau + bn[n - 1] * pi1)
        pi0, pi1 = pi1, ((2 * n + 1.0) * mu * pi1 - (n + 1.0) * pi0) / n
    return S1, S2


def efficiencies(m, x):
    an, bn = coefficients(m, x)
    n = np.arange(1, len(an) + 1)
    qext = 2.0 / x ** 2 * np.sum((2 * n + 1) * (an + bn).real)
    qsca = 2.0 / x ** 2 * np.sum((2 * n + 1) * (abs(an) ** 2 + abs(bn) ** 2))
    g = 0.0
    for k in range(len(an)):
        nn = k + 1
        if k + 1 < len(an):
            g += nn * (nn + 2.0) / (nn + 1.0) * (an[k] * np.conj(an[k + 1]) + bn[k] * np.conj(bn[k + 1])).real
        g += (2.0 * nn + 1.0) / (nn * (nn + 1.0)) * (an[k] * np.conj(bn[k])).real
    g *= 4.0 / (x ** 2 * qsca)
    return float(qext), float(qsca), float(qext - qsca), float(g)
