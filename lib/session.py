"""Run the repository's own test-suite under the recorder and validate every recorded public
call against spec/Session.tla (Frame, Deterministic).  Used by the thorough tiers."""
import json
import os
import subprocess
import tempfile

import trace as tracemod

HERE = os.path.dirname(os.path.abspath(__file__))


def record(paths=None, timeout=3000):
    fd, out = tempfile.mkstemp(prefix="sess_", suffix=".json")
    os.close(fd)
    env = dict(os.environ)
    env["HOLOPY_VERIF_TRACE"] = out
    env["PYTHONPATH"] = HERE + os.pathsep + env.get("PYTHONPATH", "")
    cmd = ["/venv/bin/python", "-m", "pytest", "-q", "-p", "no:cacheprovider", "-p", "recorder_plugin",
           "--timeout=900", "--continue-on-collection-errors"] + list(paths or [])
    p = subprocess.run(cmd, cwd=os.environ.get("HOLOPY_REPO", "/repo"), env=env, stdout=subprocess.PIPE,
                       stderr=subprocess.STDOUT, text=True, timeout=timeout)
    try:
        traces = json.load(open(out))
    except Exception:
        traces = None
    finally:
        try:
            os.remove(out)
        except OSError:
            pass
    return traces, p.stdout[-2000:]


def validate(ctx, paths=None, label="pinned-suite"):
    """returns number of traces validated; reports violations through ctx"""
    traces, tail = record(paths)
    if traces is None:
        import harness
        raise harness.MachineryError("recorder produced no trace file:\n" + tail)
    evs = [t["events"] for t in traces if t["events"]]
    names = [t["test"] for t in traces if t["events"]]
    # binding self-test: a corrupted copy (argument changed by the call; a repeated call with a
    # different result) must be rejected by the specification
    import copy
    import harness
    bad1 = copy.deepcopy(next(t for t in evs if any(e["api"] not in ("Scatterers.add",) for e in t)))
    bad1[0]["after"] = ["corrupted"] + list(bad1[0]["after"][1:])
    det = next((t for t in evs if any(e["result"] != "exception" and not e["uses_rng"] for e in t)), None)
    bad2 = copy.deepcopy(det)
    e0 = next(e for e in bad2 if e["result"] != "exception" and not e["uses_rng"])
    e1 = copy.deepcopy(e0)
    e1["result"] = "different"
    bad2.append(e1)
    verdicts = tracemod.validate(ctx, "Session", evs + [bad1, bad2], cfg="Session.cfg")
    if verdicts[-2][0] or verdicts[-1][0]:
        raise harness.MachineryError("Session.tla accepted a corrupted trace (frame/deterministic not binding)")
    verdicts = verdicts[:-2]
    ncalls = 0
    for name, tr, (acc, line, clauses) in zip(names, evs, verdicts):
        ncalls += len(tr)
        ctx.case(("session", name), nontrivial=len(tr) > 1)
        if acc:
            ctx.trace_ok()
        else:
            ev = tr[line - 1]
            why = "frame" if ev.get("after") != ev.get("before") else "deterministic"
            ctx.violation("session/%s/%s" % (why, ev["api"]), {"test": name, "line": line, "event": ev})
    ctx.notes["session_%s" % label] = {"tests_with_public_calls": len(evs), "public_calls": ncalls}
    return len(evs)
