"""Quantisation of relation defects to the integer millibel scale shared with
spec/Tolerances.tla:  mb = floor(1000*log10(defect)), clipped to [-20000, 20000]."""
import math
import os
import re

import numpy as np

_TOL = None


def mb(defect):
    try:
        d = float(defect)
    except Exception:
        return 20000
    if not math.isfinite(d):
        return 20000
    if d <= 0:
        return -20000
    return int(max(-20000, min(20000, math.floor(1000 * math.log10(d)))))


def from_mb(m):
    return 10.0 ** (m / 1000.0)


def tolerances():
    global _TOL
    if _TOL is None:
        p = os.path.join(os.path.dirname(os.path.dirname(os.path.abspath(__file__))),
                         "spec", "Tolerances.tla")
        _TOL = {}
        for m in re.finditer(r"^(Tol_\w+)\s*==\s*(-?\d+)", open(p).read(), re.M):
            _TOL[m.group(1)] = int(m.group(2))
    return _TOL


def tol(name):
    return tolerances()[name]


def reldiff(a, b):
    """max|a-b| / max(|b|) over arrays (0/0 -> 0); non-finite -> inf."""
    a = np.asarray(a)
    b = np.asarray(b)
    if a.shape != b.shape:
        return float("inf")
    if a.size == 0:
        return 0.0
    if not (np.all(np.isfinite(a)) and np.all(np.isfinite(b))):
        return float("inf")
    num = float(np.max(np.abs(a - b)))
    den = float(max(np.max(np.abs(b)), np.max(np.abs(a))))
    if num == 0:
        return 0.0
    if den == 0:
        return float("inf")
    return num / den
