#!/bin/sh
# usage: lib/try_mutant_wt.sh <ID> <patch.diff> <worktree> [--tier T]
# like try_mutant.sh but applies the change in a scratch worktree and points the check at it
# (HOLOPY_REPO); evidence and replays of the trial go to /tmp/mut_out (VERIF_OUT), so neither
# /repo nor the evidence about /repo is touched.
id="$1"; patch="$2"; wt="$3"; shift 3
cd /verif || exit 2
git -C "$wt" checkout -q -- . ; git -C "$wt" checkout -q --detach main 2>/dev/null
git -C "$wt" apply "$patch" || { echo "patch does not apply"; exit 2; }
tag=$(basename $(dirname "$patch"))
VERIF_OUT=/tmp/mut_out/$tag HOLOPY_REPO="$wt" ./check "$id" "$@" > /tmp/try_$tag.log 2>&1; rc=$?
git -C "$wt" checkout -q -- .
echo "mutant $patch -> check $id rc=$rc"
grep "violations:" /tmp/try_$tag.log | head -5
tail -1 /tmp/try_$tag.log
