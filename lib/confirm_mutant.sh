#!/bin/sh
# usage: lib/confirm_mutant.sh <ID> <letter> <worktree> [<source dir> [<stored letter>]]
# confirms a sub-agent's seeded change myself: demo passes clean, fails patched, pinned suite
# still 400/400 with the patch; then stores it under /verif/seeded/<ID>_<letter>/
id="$1"; L="$2"; wt="$3"; src=${4:-/tmp/mut_$id}/$L
dst=/verif/seeded/${id}_${5:-$L}
git -C "$wt" checkout -q -- . ; git -C "$wt" checkout -q --detach main 2>/dev/null
HOLOPY_REPO=$wt /venv/bin/python $src/demo.py >/dev/null 2>&1; clean=$?
git -C "$wt" apply $src/patch.diff || { echo "$id $L: patch does not apply"; exit 1; }
HOLOPY_REPO=$wt /venv/bin/python $src/demo.py >/dev/null 2>&1; patched=$?
xml=/tmp/junit_confirm_${id}_$L.xml
(cd $wt && /venv/bin/python -m pytest -q -p no:cacheprovider --timeout=900 --continue-on-collection-errors --junitxml=$xml >/dev/null 2>&1)
npass=$(/venv/bin/python - "$xml" <<'PY'
import json,sys,xml.etree.ElementTree as ET
base=json.load(open('/root/.vp/BASELINE.json'))
ok=set()
for tc in ET.parse(sys.argv[1]).getroot().iter('testcase'):
    if not any(c.tag in('failure','error','skipped') for c in tc): ok.add('%s::%s'%(tc.get('classname'),tc.get('name')))
print(sum(1 for t in base['stable_pass'] if t in ok))
PY
)
git -C "$wt" checkout -q -- .
rm -f $xml
echo "$id $L: demo clean rc=$clean patched rc=$patched pinned=$npass/400"
if [ "$clean" = 0 ] && [ "$patched" != 0 ] && [ "$npass" = 400 ]; then
  mkdir -p $dst && cp $src/patch.diff $src/demo.py $dst/
  /venv/bin/python - "$src/meta.json" "$dst/meta.json" "$clean" "$patched" "$npass" <<'PY'
import json,sys
m=json.load(open(sys.argv[1]))
m['confirmed']={'demo_rc_clean':int(sys.argv[3]),'demo_rc_patched':int(sys.argv[4]),'pinned_stable_pass':'%s/400'%sys.argv[5],
 'how':'lib/confirm_mutant.sh: demo on clean scratch worktree, git apply, demo, pinned suite, git checkout'}
json.dump(m,open(sys.argv[2],'w'),indent=1)
PY
  echo "  stored $dst"
else
  echo "  NOT KEPT"
fi
