#!/bin/sh
# usage: lib/try_mutant.sh <ID> <patch.diff> [--tier T]   -- apply to /repo, run check, revert
id="$1"; patch="$2"; shift 2
cd /verif || exit 2
git -C /repo diff --quiet || { echo "repo dirty"; exit 2; }
git -C /repo apply "$patch" || { echo "patch does not apply"; exit 2; }
./check "$id" "$@" > /tmp/try_$id.log 2>&1; rc=$?
git -C /repo checkout -- .
echo "mutant $patch -> check $id rc=$rc"
grep -c "^VIOLATION" /tmp/try_$id.log | sed 's/^/  violations printed: /'
grep "^VIOLATION" -A1 /tmp/try_$id.log | head -6
tail -1 /tmp/try_$id.log
