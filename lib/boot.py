"""Harness bootstrap: import the working tree of /repo with the out-of-tree Fortran
extensions.  `import boot` must come before `import holopy`."""
import importlib.abc
import importlib.machinery
import importlib.util
import os
import sys
import warnings

os.environ.setdefault("OMP_NUM_THREADS", "1")
os.environ.setdefault("OPENBLAS_NUM_THREADS", "1")
os.environ.setdefault("MKL_NUM_THREADS", "1")
os.environ.setdefault("MPLBACKEND", "Agg")

HERE = os.path.dirname(os.path.abspath(__file__))
if HERE not in sys.path:
    sys.path.insert(0, HERE)
VERIF = os.path.dirname(HERE)
if VERIF not in sys.path:
    sys.path.insert(1, VERIF)
import extbuild  # noqa: E402

REPO = extbuild.REPO
# /venv/site-packages holds an unrelated package called `holopy`: /repo must come first
sys.path[:] = [p for p in sys.path if os.path.abspath(p or ".") != REPO]
sys.path.insert(0, REPO)

EXT_ERROR = None
try:
    _paths = extbuild.ensure_built(REPO)
except Exception as e:  # machinery failure, not a violation
    _paths = {}
    EXT_ERROR = e


class _Finder(importlib.abc.MetaPathFinder):
    def find_spec(self, fullname, path, target=None):
        for short, dotted in extbuild.DOTTED.items():
            if fullname == dotted and short in _paths:
                loader = importlib.machinery.ExtensionFileLoader(fullname, _paths[short])
                return importlib.util.spec_from_file_location(
                    fullname, _paths[short], loader=loader)
        return None


sys.meta_path.insert(0, _Finder())
warnings.filterwarnings("ignore")


def have_ext():
    return EXT_ERROR is None and len(_paths) == 4
