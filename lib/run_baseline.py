"""Run the repository's pinned test suite (guard off) and compare with BASELINE.json.
exit 0 iff every test in stable_pass passes."""
import json
import os
import subprocess
import sys
import tempfile
import xml.etree.ElementTree as ET

base = json.load(open("/root/.vp/BASELINE.json"))
out = tempfile.mkdtemp(prefix="baseline_")
xml = os.path.join(out, "junit.xml")
env = {k: v for k, v in os.environ.items() if k != "HOLOPY_VERIF"}
cmd = base["cmd"].replace("<file>", xml)
subprocess.run(cmd, shell=True, env=env, stdout=subprocess.DEVNULL, stderr=subprocess.DEVNULL)
passed = set()
for tc in ET.parse(xml).getroot().iter("testcase"):
    bad = any(c.tag in ("failure", "error", "skipped") for c in tc)
    if not bad:
        passed.add("%s::%s" % (tc.get("classname"), tc.get("name")))
missing = [t for t in base["stable_pass"] if t not in passed]
print("baseline: %d/%d stable tests pass" % (len(base["stable_pass"]) - len(missing),
                                             len(base["stable_pass"])))
for t in missing[:20]:
    print("  NOT PASSING:", t)
import shutil
shutil.rmtree(out, ignore_errors=True)
sys.exit(1 if missing else 0)
