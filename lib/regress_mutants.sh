#!/bin/sh
# usage: lib/regress_mutants.sh [ids...]  — every stored seeded change against its property's quick check,
# each in a scratch worktree (never /repo); prints one line per mutant; worktrees are removed afterwards.
ids="$*"; [ -z "$ids" ] && ids="C01 C02 C03 C04 C05 C06 C07 C08 C09 C10 C11 C12 C13 C14 C15 C16 C17 C18 C19 C20"
cd /verif || exit 2
one() {
  id=$1; wt=/tmp/wt_reg_$id
  git -C /repo worktree add --detach $wt HEAD -q 2>/dev/null
  for d in seeded/${id}_*; do
    grep -q "\"retired\"" $d/meta.json && continue
    lib/try_mutant_wt.sh $id /verif/$d/patch.diff $wt | head -1
  done
  git -C /repo worktree remove --force $wt
}
n=0
for id in $ids; do
  one $id > /tmp/regress_$id.out 2>&1 &
  n=$((n+1)); [ $((n % 5)) -eq 0 ] && wait
done
wait
cat /tmp/regress_C*.out | grep "^mutant" | sort
