"""Regenerate MANIFEST.json from the table below (keeps it schema-valid)."""
import json
import os

VERIF = os.path.dirname(os.path.dirname(os.path.abspath(__file__)))

CHECKS = {
 "C11": dict(
    technique="TLA+ specs ParamMap.tla + EditIndices.tla + ModelSession.tla model-checked by TLC; dumped state graphs replayed into real Model objects (spec->code conformance); construction sequences compared with fresh-interpreter descriptions",
    text="Exhaustive TLC model of the parameter map (every assignment of priors to sites, every add_tie subset, accepted and rejected) with 12 invariants/action properties; every behaviour of the state graph is replayed on real AlphaModel/ExactModel objects for 9-12 structural templates and the real model's projection (parameter count, unique names, value-to-site map read back through sentinel values by dict and by list, guesses, rebuild without shared state) must equal the specification state after every action. ModelSession.tla: every sequence of <= 2 (3) model constructions over a 6-entry catalogue (AlphaModel with a prior scaling, ExactModel, 11-parameter two-sphere model, RigidCluster model, per-channel scaling) runs in one interpreter and every model built must have the names, text form and value placement of the same entry built in a fresh interpreter; the 11-parameter model's value-to-place map is checked name by name.",
    note="Bounded: <=6 leaf sites, 3 prior objects in 2 equality classes, <=2 successive ties, 4 naming patterns. Trusts TLC, the dot-dump parser and the templates' observe() functions (public API plus Model._find_optics/_maps for optics and scaling).",
    ref="5 C11"),
}

CHECKS["C18"] = dict(
    technique="TLA+ spec ImgProc.tla (exact rational semantics) model-checked by TLC; every enumerated state/edge replayed into the real functions; ImgProcTrace.tla validates recorded observations (centre finder, large seeded images)",
    text="TLC enumerates every small integer image (normalize, zero_filter incl. every dead-pixel pattern on 3x3/3x4, bg_correct), every Accumulator push order up to 4-6 pushes, every plane/base pair for detrend and every even crop window; the model proves the stated identities in exact rationals on every image and the dumped states are replayed on the real tools, comparing values (1e-12), refusal of dead corners, metadata and input immutability. Larger seeded images and the centre finder on computed single-sphere holograms (square and non-square detectors) are recorded as traces and validated by a TLC trace specification.",
    note="Bounded: images <= 3x4 over <= 4 values exhaustively; continuous domain of the centre finder sampled (seeded). Trusts TLC, the dump parser, and float-vs-rational comparison at 1e-12.",
    ref="5 C18")

CHECKS["C20"] = dict(
    technique="TLA+ spec Geometry.tla (exact integer lattice geometry) model-checked by TLC; every dumped state and Translate edge replayed into real scatterer objects; GeometryTrace.tla validates recorded numeric observations",
    text="TLC enumerates layered spheres (all increasing radius sequences up to 4 layers), ellipsoids (all semi-axis triples from powers of two), CSG pairs under the three set operations, constructor argument classes, sphere collections (every second sphere on a 7^3 lattice x radii x optional layered third member x warn flag) and all translation paths; containment, layer, index, CSG membership, overlap pairs, warning flag and rejections are decided exactly in integers by the spec and compared with the real objects on all 729 lattice points per state. Voxel volumes, points 1e-9 off the surface and largest_overlap are recorded as traces and validated by TLC.",
    note="Bounded lattice (-4..4)^3, radii <= 4; off-lattice behaviour sampled (surface normals, seeded clouds, voxel grids). Trusts exact float arithmetic on small integers and powers of two.",
    ref="5 C20")

CHECKS["C19"] = dict(
    technique="TLA+ state-merging spec Coords.tla model-checked by TLC; every edge of the dumped graph (conversion paths, Euler representatives, composite translations) executed on the real functions and compared with the abstract state's canonical value and an independent oracle",
    text="TLC enumerates 162 point classes (sign pattern incl. axes/planes/origin x tiny/unit/huge magnitude x scalar/array z) and all conversion paths of length <= 3-4 through the three coordinate systems, Euler-angle representatives in -24..47 units of 15 degrees under +-full turns and the beta=0 slide, and composites of 1-6 members under lattice translations; the model's laws (point never changes, rotation never changes, translations compose) are checked by TLC and each edge is replayed: path value == canonical value of the merged state, ranges, radius, rotation_matrix == Rz Ry Rz (radians and degrees), orthogonality, determinant, rigid motion of composites and RigidCluster.",
    note="Continuous coordinates are concretised per class with VERIF_SEED; angles compared modulo 2 pi at 1e-12. Oracle leaves: math.atan2/hypot and elementary rotation matrices written independently.",
    ref="5 C19")

CHECKS["C17"] = dict(
    technique="TLA+ state-merging spec Propagate.tla (abstract state = net distance + evanescent-mask flag, VIEW) model-checked by TLC; edge cover of the dumped graph executed with the real propagate/fft/ifft on every small shape and compared with the canonical image of the target state",
    text="TLC enumerates all propagate() call paths of length <= 3 (four step sizes of both signs x plain/cascaded options, zero distance, five distance lists with zeros and negatives) in the band-limited and evanescent sampling regimes, and all fft/ifft alternations; the group/semigroup laws are checked on the model and each edge is executed on real and complex images of every shape 2x2..7x7 (thorough; 8 shapes quick) plus seeded shapes up to 64x64: composition d1;d2 = d1+d2, inverse in the band-limited regime, zero returns the input object, list = stack of single results, linearity, energy non-increase, gradient filter, coordinates and metadata kept, ifft(fft(x)) = x with coordinates.",
    note="Images compared at 1e-10 relative; distances concretised with VERIF_SEED. Stack planes are matched by content, not by z label.",
    ref="5 C17")

CHECKS["C14"] = dict(
    technique="TLA+ spec PriorAlgebra.tla (constructor table over order types + operator algebra with exact rational guesses) model-checked by TLC; every state/path of the dumped graph replayed on real priors; PriorTrace.tla validates recorded statistical observations",
    text="TLC enumerates every order type of bounds/guess/mean/width over {-inf,-1,0,1,2,+inf} for Uniform, Gaussian, BoundedGaussian (plus ComplexPrior with fixed/free parts) with exact rational guesses, supports and densities, and every operator expression path of depth <= 2 (quick) / 3 (thorough) over two base priors, six numbers incl. 0, 1 and a tiny non-zero, unsupported operands, negation and numpy ufuncs; the model fixes for each step whether the result must be the same object, an exception or a derived prior with an exactly computed guess. All are replayed on real objects, including sampling of every derived prior under a fixed seed for size None/1/n against the same operation applied to base samples. 20k-sample KS tests, support, integrals and lnprob=log prob are recorded as traces and validated by TLC.",
    note="Half-infinite Uniform is improper by construction (only support/finite constant asserted). Statistical clauses at p=1e-9 thresholds; continuous parameter space sampled with VERIF_SEED.",
    ref="5 C14")

CHECKS["C12"] = dict(
    technique="TLA+ spec Posterior.tla (staged control flow of lnposterior over abstract input classes incl. layered spheres; second evaluation with a fresh or an in-place re-used value container) model-checked by TLC; every behaviour replayed on real models with an independent Gaussian log-density oracle on the public calc_holo",
    text="TLC enumerates all 3456 combinations of input classes (values inside/outside support, valid/invalid scatterer, constraint none/ok/violated, model noise none/scalar/prior, data noise absent/None/scalar, all-uniform priors, medium_index on model/data/both/neither, pixel subset, AlphaModel fixed/prior scaling or ExactModel with a custom calc function) and checks: no forward calculation and -inf whenever the prior is -inf, noise and optics precedence model-then-data, unit noise only for all-uniform priors, the missing parameter is named. Each behaviour (900 sampled in quick, all in thorough) is replayed: outcome class, exact number of forward calculations, input data untouched, lnposterior = sum of lnprob + Gaussian log-density of the residuals to the public calc_holo at the applicable noise (1e-10), forward = calc_holo incl. scaling and random subsets (same RNG state), per-channel noise.",
    note="Forward calls are counted by wrapping holopy.inference.model.calc_holo in the harness process. One medium_index key stands for the optics keys (wavelength/polarization follow it).",
    ref="5 C12")

CHECKS["C07"] = dict(
    technique="TLA+ spec DetectorViews.tla (exact lattice positions of every view of every small detector) model-checked by TLC and replayed with real theories; DetectorViewsTrace.tla validates recorded make_subset_data calls",
    text="TLC enumerates every grid up to 3x3 (quick) / 4x4 (thorough) incl. 1xN, two spacings per axis, shifted origins, every crop window, three point-list orders and three point lists mixing two detector heights with the exact position of every element of the view; each state is replayed with a real theory (Mie, layered Mie, Multisphere, T-matrix, MieLens in rotation): the hologram at a position must equal the full-grid value whatever the view (1e-12), positions and point order must match the spec, inputs untouched. Calls of make_subset_data (sizes 1..all, seeds incl. 0, shapes incl. 1x3) are recorded and validated by a TLC trace spec: distinct in-range indices, position = index rule, values/metadata/original axes kept, reproducible for a seed, commutes with calc_holo. A random sequence of calc_holo/calc_field/calc_intensity calls sharing one detector must leave it unmodified and repeat exactly.",
    note="Point-detector results carry no x/y coordinates in HoloPy; they are matched to the input points by order. Continuous geometry concretised on a 0.1 lattice.",
    ref="5 C07")

CHECKS["C10"] = dict(
    technique="TLA+ spec TmatrixProc.tla (process-level liveness model + state-merging orientation model) model-checked by TLC; call classes executed in child interpreters and their recorded outcomes validated by TmatrixProcTrace.tla; orientation edges and sphere-limit/mirror relations replayed",
    text="TLC enumerates shape (oblate/prolate/equal spheroid, flat/long cylinder, sphere) x five size classes up to beyond the solver's limit x absorbing x 3x9x9 Euler-angle classes incl. negative angles, exact multiples of pi/2 and angles beyond 2 pi; the only forbidden outcome is that the process dies. A covering sample (160 classes quick, ~1900 thorough) is executed in child interpreters with sentinels and the recorded outcomes are validated by a TLC trace spec (never died; finite where the spec requires). Orientation identities (spin about own axis, axis reversal, negated beta, full turns) are replayed along every edge of the state-merging model (holograms and scattering matrices equal to 1e-10). Sphere limit (fields and S vs far-field Mie at random azimuths, equal-axes spheroid, inside the lens wrapper) and mirror symmetry are recorded relations validated by TLC.",
    note="Liveness is decided per executed call class, not for all reals; sizes concretised per class. The check wrapper treats a harness process that ends without evidence as a machinery failure, never as a pass.",
    ref="5 C10")

CHECKS["C02"] = dict(
    technique="TLA+ spec SphereRoutes.tla (rewriting system on layered-sphere descriptions with normal form; catalogue of solver classes and applicable relations) model-checked by TLC; every description/edge replayed on real objects (state merging); measured relation defects validated by SphereRoutesTrace.tla",
    text="TLC enumerates every layered-sphere description with <= 3-4 layers over three index classes (incl. the medium's) and radii 1..4-5 and every rewriting step (split a layer, merge equal neighbours, add/drop an outer medium layer), proving on the model that each step preserves the normal form and that thickness/radius descriptions are inverse (TLC found and I fixed a normal-form bug for all-medium spheres). Every description is computed with the real Lorenz-Mie code (fields near/far, scattering matrix, cross sections) and compared with its normal form and with the LayeredSphere description. The solver catalogue (5 index x 7 size x 3 position x 4 polarisation x 4 option classes) is compared between Mie, one-sphere Multisphere (default and tightened tolerances), the pure-Python series used by the lens theories and an independent textbook series, through HoloPy's generic amplitude-to-field pipeline; all defects go through a TLC trace spec with per-relation tolerances.",
    note="Continuous parameters sampled per class (VERIF_SEED). Tolerances in spec/Tolerances.tla with measured calibration; detector distances kept below kr ~ 2.5e4 (documented limit of the full radial dependence).",
    ref="5 C02")

CHECKS["C03"] = dict(
    technique="TLA+ spec CrossSections.tla (catalogue of configuration classes and the relations applicable to each) model-checked by TLC; public calc_cross_sections / calc_scat_matrix measured on every class and the recorded relation defects validated by CrossSectionsTrace.tla",
    text="TLC enumerates 5 relative-index x 7 size (1e-3..400) x 3 medium x 3 layering x 4 polarisation classes with the applicable relations; for each class the harness measures ext = sca + abs, abs >= 0, abs = 0 for real index, sca > 0, |g| <= 1, the optical theorem against the forward amplitude from calc_scat_matrix, the solid-angle integrals of |S|^2 for sca and g (Gauss-Legendre, 4 x nstop nodes), the Rayleigh formula, the four numbers against an independent textbook series, one-sphere Multisphere clusters (x- and y-polarised), and true clusters (pair, mixed trimer, absorbing pair) under polarisations along and oblique to the axes (ext = sca + abs, abs >= 0 and = 0 for real indices, optical theorem with the forward amplitude of calc_scat_matrix); a TLC trace spec asserts every relation with tolerances from spec/Tolerances.tla.",
    note="Quick tier: one class per (index, size, layering) = 105 classes + 8 clusters; thorough: all 1260 classes. Open finding: layered spheres with real indices at x ~ 1e-3 (precision loss).",
    ref="5 C03")

CHECKS["C04"] = dict(
    technique="TLA+ state-merging spec Units.tla (group generated by Scale(k) and NormIndex, VIEW = group element) model-checked by TLC; edge cover of the dumped graph applied to concrete requests for every theory and compared with the untransformed request",
    text="TLC enumerates every path of length <= 2-3 over Scale(k), k in -4..4 for bases 10 and 2 (8 decades) and the index normalisation; the edge cover is applied to 13 concrete requests (Mie, absorbing and layered Mie, Multisphere, T-matrix spheroid/cylinder with absorption, MieLens, AberratedMieLens, Lens(Mie), Lens(Tmatrix); grid and point detectors; hologram, field, intensity, scattering matrix, cross sections) by transforming every length / index of the request step by step along the path; results must equal the identity element's (1e-9; 1e-12 for powers of two), cross sections scale with base^(2k); Multisphere cluster cross sections incl. the asymmetry parameter at 1e-4 and under index normalisation.",
    note="Quick tier samples 30 edges per request (14 for lens wrappers) plus the extremes; thorough runs the complete edge cover.",
    ref="5 C04")

CHECKS["C05"] = dict(
    technique="TLA+ state-merging spec Symmetry.tla (in-plane symmetry group: lattice shifts, Z_24 rotations, mirror; VIEW = group element in normal form) model-checked by TLC; edge cover applied step by step to concrete generic configurations for every theory",
    text="TLC enumerates all paths of length <= 2-3 over three lattice shifts, five rotations of Z_24 (15..255 degrees) and the mirror, checking the composition laws of the normal form; the edge cover is applied to eleven generic configurations (Mie sphere, Mie superposition incl. a layered sphere, Multisphere trimer, T-matrix spheroid and cylinder [shifts and mirror only: x polarisation], MieLens above and below focus, AberratedMieLens, Lens(Mie) above and below focus, Lens(Multisphere) dimer) by transforming scatterer positions/axes, polarisation angle and detector points step by step; hologram values at corresponding points must be equal and field vectors must transform with the element; theory objects are reused across the calls of a configuration (call history). Whole-pixel shifts on grid detectors and the two-axis symmetry of a sphere's hologram under x/y polarisation are checked for Mie, MieLens and Lens(Mie).",
    note="Rotations are exact multiples of 15 degrees applied to a configuration with seeded generic angles; quick tier samples 24 edges per configuration (6 for lens wrappers).",
    ref="5 C05")

CHECKS["C06"] = dict(
    technique="TLA+ spec Superpose.tla (member sequences, polarisation classes, multi-channel request layouts with label-wise normal form) model-checked by TLC; every state replayed on the real pipeline; solver-call multiset observed through a logging Mie subclass",
    text="TLC enumerates all 126 uniform/layered member sequences of 1-6 spheres, 7 polarisation classes (unit, non-unit, two almost-unit, tiny, huge, negative) and all 16906 layouts of 2-3 labelled channels in which wavelength, polarisation, scaling, particle index and radius are each a scalar, a dictionary or a labelled array in every key order, and checks that the normal form (value per channel label) is independent of key order. Replay: collection field = sum of separately computed member fields (Mie on grids and points, MieLens) to 1e-12; field for polarisation (a,b) = (a Ex + b Ey)/|(a,b)| for sphere, layered sphere, two spheres and MieLens, and the stored polarisation is unit; every label slice of the multi-channel hologram equals the single-channel calculation (1e-13) and the multiset of (wavelength, polarisation, index, radius) solver calls equals the specification's.",
    note="Quick tier samples 250 of the channel layouts (thorough: all). MieLens handles homogeneous spheres only, so layered members are replayed with Mie.",
    ref="5 C06")

CHECKS["C08"] = dict(
    technique="TLA+ spec LensRoutes.tla (physical classes x routes that must agree; scan mode: request sequences on one sphere) model-checked by TLC; all routes executed on sampled classes and the recorded defects validated by LensRoutesTrace.tla; scan sequences executed in one interpreter against fresh-interpreter answers",
    text="TLC enumerates 6000 physical classes (4 relative indices 1.05-2.5, 5 size parameters 0.1-50, k z in {-150,-20,5,60,300}, 4 lens angles 0.1-1.4, 5 polarisation indices of Z_24, radial range inside / up to / beyond the large-rho cutoff) x 14 routes. For each sampled class the harness computes: MieLens with interpolation check/on/off, other window size and degree, AberratedMieLens with scalar 0 and zero lists of length 1-4, the default against a refined radial quadrature, and Lens(Mie) on a three-rung quadrature ladder with unequal theta/phi orders sized from the pupil phase variation; a TLC trace spec asserts agreement of all analytic routes, that the ladder is Cauchy and that its last rung equals the refined analytic theory (measured <= 2e-7 everywhere).",
    note="numexpr is absent: the acceleration clause is not exercised (listed in evidence.not_covered). Quick tier: 20 classes covering every factor value; thorough: 400. Open finding: default MieLens quadrature unconverged at large k*rho*sin(angle).",
    ref="5 C08")

CHECKS["C09"] = dict(
    technique="TLA+ spec TheoryChoice.tla (default-theory rule as a total decision function with the 30-radius boundary decided in exact integer geometry) model-checked by TLC; every enumerated scatterer replayed against determine_default_theory_for and calc_holo(theory='auto'); permutation / rotation / one-sphere relations of the multi-sphere solver replayed",
    text="TLC enumerates 147 abstract scatterers: single and layered sphere, clusters of 1-3 spheres with layered or unplaced members and separations exactly at 30 largest radii ((30,0,0), (18,24,0), (0,18,24)), just inside (29) and just beyond (31, (18,25,0)), far (60), spheroid, cylinder, ellipsoid, capsule, CSG, and non-scatterers; the specified outcome (Mie / Multisphere / Tmatrix / DDA->DependencyMissing / AutoTheoryFailed / InvalidScatterer) must be what determine_default_theory_for gives, and calc_holo(theory='auto') must be byte-identical to naming that theory (and distinguishable from the other candidate). All orders of clusters of 2-4(5) spheres (equal sizes, unequal pairs, unequal >= 3) for both interaction solvers, rotation covariance about the optical axis of fields and of the four cross-section numbers (polarisations along and oblique to the axes), and the one-sphere cluster vs Mie with and without the radial field component are replayed.",
    note="Open finding: Multisphere is order dependent for >= 3 spheres of unequal size. adda absent: the DDA outcome is DependencyMissing as documented.",
    ref="5 C09")

CHECKS["C01"] = dict(
    technique="TLA+ spec Holo.tla (staged hologram pipeline over the request catalogue; history model with a hidden solver-state register that must never be read) model-checked by TLC; sampled behaviours replayed on the real pipeline; all call sequences executed in one interpreter and compared byte-for-byte with fresh-process baselines",
    text="TLC enumerates ~27k compatible requests (sphere, layered sphere, Mie superposition, Multisphere cluster, T-matrix spheroid and cylinder, MieLens x square / anisotropic rectangular / shifted-origin / 1xN grids, point lists, two-colour detectors x four polarisations incl. an unnormalised one x four scalings incl. 0 and negative x where each optics value comes from: keyword, detector, both, missing) with the staged outcome; a factor-covering seeded sample is replayed: hologram = |alpha E + p|^2 summed over x,y with E from the real calc_field (1e-12), intensity = |E|^2, scaling 0 gives 1 (4 ulp), finiteness, detector coordinates/dims/name, keyword-over-detector metadata with the polarisation normalised, the missing parameter named in the code's order, detector untouched. History: every call sequence of length <= 3 over 11 stale-state configurations (large/small Mie, 3- then 2-sphere clusters, large/small T-matrix, MieLens, theory='auto' on close and distant pairs, T-matrix particles differing in absorption only) runs in one interpreter and every result must be byte-identical to the same call in its own fresh interpreter.",
    note="DDA (adda) absent. Quick: 260 requests, all sequences of length <= 2 and 90 of length 3; thorough: 4000 requests, all 1463 sequences.",
    ref="5 C01")

CHECKS["C16"] = dict(
    technique="TLA+ spec ImageIO.tla (abstract images incl. zero-valued metadata and colour channel layouts; HDF5 cycles, TIFF and colour TIFF export, metadata updates, averaging, raster loading; state merging on cycles and on file multisets) model-checked by TLC; sampled behaviours replayed on real files",
    text="TLC enumerates 8320 abstract images (5 shapes incl. 1x1 and 1x6, 4 dtypes, 1-3 channels, named or not, each of the four metadata keys None / scalar / per-channel dictionary / per-channel labelled array) with up to three HDF5 save-load cycles (identity), single-channel images through TIFF at the documented depths (values within half a quantisation step computed from the usable bits; metadata, spacing, name kept), metadata updates over all 15 key subsets (only named keys change, polarisation normalised, original untouched, new object), all push orders of file multisets of size 2-4 for load_average (exact mean, relative noise, coordinates, order independence; cropping to a reference image with anisotropic pixels), and raster loading with anisotropic spacing and channel selection (pixel (i,j) at (i s_x, j s_y), channel labels). Per-channel metadata is checked by label against what was given.",
    note="Quick tier replays a factor-covering sample (about 190 images x 3 cycles, 120 TIFF, 250 updates, a quarter of the 4-file orders). TIFF: 1xN images have no spacing to store and depth 32 is undocumented: both outside the model.",
    ref="5 C16")

CHECKS["C15"] = dict(
    technique="TLA+ spec Serialize.tla (value kinds per constructor slot, normalisation on load, 1..3 cycles, file/stream) model-checked by TLC; every applicable kind vector replayed on a catalogue of the exported classes; models through the C11 ParamMap behaviours with a save/load step",
    text="TLC enumerates all pairs of 21 value kinds (python float incl. 1e-300, 1e300, -0.0; int; complex; numpy float64/int64/complex128/float32 scalars; 0-d array; list, tuple, 1-d array, list of numpy scalars; explicit None; nested object; plain, arithmetic-derived, ufunc-derived and complex priors) x file/stream x 1..3 cycles with the normal form each kind must reload as, and checks idempotence and that explicit None is preserved. The applicable vectors are replayed on 28 catalogue entries (Sphere, LayeredSphere, Ellipsoid, Spheroid, Cylinder, Capsule, Bisphere, both Janus spheres, Spheres, Scatterers, RigidCluster, CSG, Uniform, Gaussian, BoundedGaussian, ComplexPrior, Mie, MieLens, AberratedMieLens, Multisphere, Lens, Tmatrix, LimitOverlaps, NmpfitStrategy, LeastSquaresScipyStrategy): same class, every constructor argument equal after normalisation, identical text from the second cycle on, library equality when arguments were lists/scalars. Models: 60-400 ParamMap behaviours (priors, sharing, ties) with a save/load at the end must keep names, ties and the value-to-place mapping; models with a theory parameter, per-channel optics, constraints, ExactModel.",
    note="EmceeStrategy/TemperedStrategy/CmaStrategy and DDA need absent libraries at construction and are not covered (evidence.not_covered).",
    ref="5 C15")

CHECKS["C13"] = dict(
    technique="TLA+ specs FitSession.tla (fit / cached-attribute reads / save / load / fit again in every interleaving) and FitFrontEnd.tla (hp.fit requests: scatterer or model, parameter names, strategy forms) model-checked by TLC; the dumped graphs walked on real objects; per-fit, per-reload and front-end observations validated by FitSessionTrace.tla",
    text="TLC enumerates 64 configurations (NmpfitStrategy / LeastSquaresScipyStrategy x full image / random pixel subset x start at the generating parameters / 0.5-2% away / with one guess clipped onto the lower / upper bound of its prior x Mie / MieLens with a fitted lens angle x image axes starting at 0 / offset as for a region cut out of a larger image) and every interleaving of a fit, reads of the three lazily cached result attributes (each changes what is serialised), save, load and a second fit with the same objects, to depth 4-5. Every edge is executed on real objects (real fits of a single sphere with x, y, z, radius and scaling free on a 16x16 detector, real HDF5 files). Recorded per fit: parameter names are the model's, fitted = generating parameters (1e-6), misfit not worse than at the guess, parameters within bounds, result.hologram = model.forward at the reported parameters, max_lnprob = lnposterior, model / data / strategy unchanged (serialised text and fingerprints), no per-fit references left on the strategy, second fit identical; per reload: parameters, names, model, strategy, data, hologram and log-probability equal whatever had been cached before saving. A TLC trace spec asserts all clauses.",
    note="Quick: 8 configurations (alternating with the seed), thorough: all 16 plus 120 further generating parameter sets. Noise-free data; emcee/CMA strategies absent.",
    ref="5 C13")

# what the fifth round of seeded changes added to each check (appended to the level text)
ROUND5 = {
 "C01": " Round 5: detectors given as spherical point lists (result coordinates must be the detector's), a sphere behind Lens(Mie), hologram(p) = hologram(-p).",
 "C02": " Round 5: layered spheres whose layers all lie below the medium's index, sharing one index, at size parameters 8-150.",
 "C03": " Round 5: clusters solved with the biconjugate-gradient option (meth=0, eps=1e-10) in the energy relations.",
 "C04": " Round 5: detector planes at non-zero height (grids and point lists) among the 22 requests.",
 "C05": " Round 5: a dimer written exactly along y and a tilted spheroid behind Lens(Tmatrix) among the 15 configurations.",
 "C06": " Round 5: identical spheres at different depths (member kind twin; members alone get fresh theory objects), labelled-array polarisations with rows of any length.",
 "C07": " Round 5: the full frame rebuilt from every subset (FitResult.hologram) equals the direct calculation position by position.",
 "C11": " Round 5: a dictionary handed to from_parameters is only read (same dictionary twice: same object, no entries removed).",
 "C12": " Round 5: the set of parameter names of every replayed model is the specification's; a 17-parameter model against a hand-built scatterer.",
 "C14": " Round 5: scale / unscale on arrays, the argument only read.",
 "C15": " Round 5: non-dyadic float32 arguments; models tied by add_tie across sections (scatterer with scaling, theory parameter or noise) keep names, ties and value placement over three cycles.",
 "C16": " Round 5: TIFF export under every scaling option (auto, a pair equal to / wider than the image's range, None on an image within [0, 1]) with the quantisation step of that option; images with an illumination axis of one label.",
 "C18": " Round 5: every normalize state also in units of 1e-12, 1e-6 and 1e9; background correction with a dead denominator pixel (inside / on an edge) against a hand oracle.",
 "C19": " Round 5: composites in microns and in metres, unions / differences / intersections turned twice, integer-typed coordinates convert like floats.",
}
for _k, _v in ROUND5.items():
    CHECKS[_k]["text"] += _v

# round 6
ROUND6 = {
 "C01": " Round 6: a 15-micron metal-coated bead (finite field, intensity, hologram); detector annotations and the merged optics come back on hologram, field and intensity.",
 "C02": " Round 6: both solvers with the radial component; the one-sphere cluster is compared with Lorenz-Mie at every size class the cluster solver accepts (beyond its compiled order: an open finding).",
 "C03": " Round 6: one theory object for consecutive, nearly identical particles.",
 "C04": " Round 6: scale exponents to +-6 (microns to metres and picometres).",
 "C06": " Round 6: channels that differ in polarisation only, for Mie, MieLens, AberratedMieLens.",
 "C07": " Round 6: sparse subsets of 10^4-pixel images; Lens(Mie) among the replayed theories (point lists at two heights).",
 "C08": " Round 6: half of the classes on raised / lowered detector planes; positional construction of AberratedMieLens.",
 "C09": " Round 6: a weak member next to a strongly coupled pair under all listing orders, both solvers.",
 "C10": " Round 6: whole-number angles as ints and floats; size class astronomical (size parameter 3e9).",
 "C11": " Round 6: two builds from one model share no mutable container with each other or with the model's maps.",
 "C12": " Round 6: scaling exactly 0; a second, user-written constraint; per-channel noise given to the model.",
 "C13": " Round 6: a fitted parameter that starts at exactly 0; loaded results examined with their file moved away.",
 "C14": " Round 6: NumPy numbers as operands in turn with python numbers; powers with unsupported operands must raise.",
 "C15": " Round 6: a model whose per-channel optics are labelled arrays.",
 "C16": " Round 6: the plural TIFF writer (save_images) in the replay.",
 "C17": " Round 6: images whose axes do not start at 0 (band-limited sampling); optics given with the call.",
 "C19": " Round 6: the same numbers read as degrees and radians in turn; rigid clusters moved along / about single axes.",
 "C20": " Round 6: overlaps and near misses of 1e-6 and 1e-9 of the radii, in microns and metres.",
}
for _k, _v in ROUND6.items():
    CHECKS[_k]["text"] += _v

NOT_APPLICABLE = []


def main():
    checks = []
    for pid in sorted(CHECKS):
        c = CHECKS[pid]
        checks.append({
            "property_id": pid,
            "quick_cmd": "./check %s --tier quick" % pid,
            "thorough_cmd": "./check %s --tier thorough" % pid,
            "evidence_file": "/verif/evidence/%s.json" % pid,
            "replay_cmd_template": "./check %s --replay {path}" % pid,
            "engine": "tla-conformance",
            "level_claimed": {"category": "model_checking", "text": c["text"],
                              "design_ref": c["ref"]},
            "level_note": c["note"],
            "technique": c["technique"],
        })
    claimed = set(CHECKS)
    na = [x for x in NOT_APPLICABLE if x["property_id"] not in claimed]
    all_ids = ["C%02d" % i for i in range(1, 21)]
    for pid in all_ids:
        if pid not in claimed and not any(x["property_id"] == pid for x in na):
            na.append({"property_id": pid,
                       "reason": "check not built yet in this session (planned in DESIGN.md section 5); not claimed"})
    m = {
        "version": 1,
        "setup_cmd": "/venv/bin/python lib/extbuild.py",
        "hooks": {"guard": "HOLOPY_VERIF",
                  "enable": "no source hooks: the harness observes through the public API, logging subclasses and out-of-tree built Fortran extensions (lib/boot.py); HOLOPY_VERIF is reserved",
                  "baseline_off_cmd": "/venv/bin/python /verif/lib/run_baseline.py",
                  "source_commits": [],
                  "add_only": True},
        "engines": [{"name": "tla-conformance", "path": "/verif/check",
                     "serves_properties": sorted(claimed),
                     "kind_free_text": "TLA+ specifications (spec/*.tla) model-checked with TLC; dumped state graphs replayed into the real HoloPy code and traces recorded from the real code validated by TLC trace specifications"},
                    {"name": "tla-conformance-extensions", "path": "/verif/extras", "serves_properties": [],
                     "kind_free_text": "the same method on behaviour beyond the listed properties (checks/x*.py, spec modules SamplingSession, PriorUpdate, Display, ScattererTree, Stacking, DictOps, PointSource, Shapes, FitMeasures, CenterPriors, Viewer, SmallBodies); ./extras [--tier T], evidence/X*.json"}],
        "checks": checks,
        "notes": "See DESIGN.md. ./check <ID> [--tier quick|thorough]; exit 0 held / 1 VIOLATION / 2 machinery failure. known_findings.json lists repaired and open genuine defects. seeded/ holds the confirmed seeded changes (lib/regress_mutants.sh re-runs them all in scratch worktrees).",
        "not_applicable": na,
    }
    with open(os.path.join(VERIF, "MANIFEST.json"), "w") as f:
        json.dump(m, f, indent=1)


if __name__ == "__main__":
    main()
