"""Run TLC and collect statistics."""
import os
import re
import shutil
import subprocess
import tempfile
import time

VERIF = os.path.dirname(os.path.dirname(os.path.abspath(__file__)))
SPEC = os.path.join(VERIF, "spec")
JAR = "/opt/veriftools/tla/tla2tools.jar:/opt/veriftools/tla/CommunityModules-deps.jar"


class TLCError(Exception):
    pass


class TLCResult:
    def __init__(self):
        self.generated = 0
        self.distinct = 0
        self.depth = 0
        self.ok = False
        self.violated = None      # name of violated invariant/property
        self.output = ""
        self.wall = 0.0
        self.dump = None
        self.printed = []         # PrintT lines (raw text)
        self.coverage = {}

    @property
    def transitions(self):
        return self.generated


def run(module, cfg=None, workers=8, dump=False, simulate=None, depth=None, env=None,
        timeout=900, coverage=False, extra=(), deadlock=None, cwd=None, seed=None,
        keep=False, heap="4g", constants=None):
    """Run TLC on spec/<module>.tla with spec/<cfg>.  Returns TLCResult.
    Raises TLCError for machinery failures (parse errors, timeouts, crashes)."""
    cwd = cwd or SPEC
    cfg = cfg or (module + ".cfg")
    work = tempfile.mkdtemp(prefix="tlc_")
    res = TLCResult()
    if constants:
        # derive a config from the committed one by overriding `NAME = value` lines
        txt = open(os.path.join(cwd, cfg)).read()
        for k, v in constants.items():
            txt, n = re.subn(r"(?m)^(\s*(?:CONSTANTS?\s+)?%s\s*=\s*).*$" % re.escape(k),
                             lambda m: m.group(1) + str(v), txt)
            if n == 0:
                raise TLCError("constant %s not in %s" % (k, cfg))
        cfg = os.path.join(work, "derived.cfg")
        open(cfg, "w").write(txt)
    cmd = ["java", "-XX:+UseParallelGC", "-Xmx" + heap, "-cp", JAR]
    cmd += ["tlc2.TLC", "-workers", str(workers), "-metadir", os.path.join(work, "meta"),
            "-noGenerateSpecTE", "-config", cfg]
    if dump:
        res.dump = os.path.join(work, "graph.dot")
        cmd += ["-dump", "dot,actionlabels", res.dump]
    if simulate:
        cmd += ["-simulate", simulate]
    if depth:
        cmd += ["-depth", str(depth)]
    if seed is not None:
        cmd += ["-seed", str(seed)]
    if coverage:
        cmd += ["-coverage", "1"]
    if deadlock is False:
        cmd += ["-deadlock"]
    cmd += list(extra)
    cmd += [module + ".tla" if not module.endswith(".tla") else module]
    e = dict(os.environ)
    if env:
        e.update({k: str(v) for k, v in env.items()})
    t0 = time.time()
    try:
        p = subprocess.run(cmd, cwd=cwd, env=e, stdout=subprocess.PIPE,
                           stderr=subprocess.STDOUT, text=True, timeout=timeout)
    except subprocess.TimeoutExpired:
        shutil.rmtree(work, ignore_errors=True)
        raise TLCError("TLC timeout after %ss on %s/%s" % (timeout, module, cfg))
    res.wall = time.time() - t0
    out = p.stdout
    res.output = out
    res.workdir = work
    m = None
    for m in re.finditer(r"(\d+) states generated, (\d+) distinct states found", out):
        pass
    if m:
        res.generated, res.distinct = int(m.group(1)), int(m.group(2))
    m = re.search(r"depth of the complete state graph search is (\d+)", out)
    if m:
        res.depth = int(m.group(1))
    m = re.search(r"Invariant (\S+) is violated", out)
    if m:
        res.violated = m.group(1)
    m = re.search(r"Action property (\S+) is violated|Temporal properties were violated",
                  out)
    if m and not res.violated:
        res.violated = m.group(1) or "temporal"
    if "Deadlock reached" in out and not res.violated:
        res.violated = "Deadlock"
    if re.search(r"The postcondition .* is violated|Postcondition .* violated|evaluat\w+ the postcondition", out, re.I) and not res.violated:
        res.violated = "POSTCONDITION"
    if "Assumption" in out and "is false" in out and not res.violated:
        res.violated = "ASSUME"
    res.ok = ("Model checking completed. No error has been found." in out or
              (simulate and p.returncode == 0)) and not res.violated
    if not res.ok and not res.violated:
        shutil.rmtree(work, ignore_errors=True)
        raise TLCError("TLC failed on %s/%s (rc=%s):\n%s" % (module, cfg, p.returncode,
                                                              out[-3000:]))
    if coverage:
        for m in re.finditer(r"<(\w+) line \d+, col \d+ to line \d+, col \d+ of module (\w+)>: (\d+):(\d+)", out):
            res.coverage[m.group(1)] = (int(m.group(3)), int(m.group(4)))
    if not keep and not dump:
        shutil.rmtree(work, ignore_errors=True)
    return res


def cleanup(res):
    if getattr(res, "workdir", None):
        shutil.rmtree(res.workdir, ignore_errors=True)


def printed_tuples(out):
    """Extract values printed by PrintT(<<...>>) — by bracket matching, robust to
    interleaving by line."""
    import tlaval
    vals = []
    for line in out.splitlines():
        line = line.strip()
        if line.startswith("<<") and line.endswith(">>"):
            try:
                vals.append(tlaval.parse(line))
            except Exception:
                pass
    return vals
