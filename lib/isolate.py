"""Run jobs in child interpreters so that a job that kills its process (Fortran STOP, abort,
segfault) is observed as outcome "died" instead of taking the harness down.

A job is (function_path, kwargs) with function_path = "module:function" importable in the
child (after lib/boot).  The child prints one sentinel line per finished job; a job without a
sentinel whose process exited is "died".
"""
import json
import os
import subprocess
import sys
import tempfile

HERE = os.path.dirname(os.path.abspath(__file__))
VERIF = os.path.dirname(HERE)

CHILD = r'''
import sys, json, os
sys.path.insert(0, %r)
sys.path.insert(0, %r)
import boot
import importlib, traceback
jobs = json.load(open(sys.argv[1]))
start = int(sys.argv[2])
out = open(sys.argv[3], "a")
for i in range(start, len(jobs)):
    fn, kw = jobs[i]
    out.write("START %%d\n" %% i); out.flush()
    mod, name = fn.split(":")
    try:
        f = getattr(importlib.import_module(mod), name)
        res = f(**kw)
        rec = {"i": i, "outcome": "returned", "result": res}
    except BaseException as e:
        if isinstance(e, (SystemExit, KeyboardInterrupt)):
            rec = {"i": i, "outcome": "exception", "exc": "SystemExit-like: " + repr(e)}
        else:
            rec = {"i": i, "outcome": "exception", "exc": type(e).__name__ + ": " + str(e)[:300]}
    out.write("DONE " + json.dumps(rec, default=str) + "\n"); out.flush()
out.write("END\n"); out.flush()
'''


def run_jobs(jobs, timeout_per_batch=3600, python="/venv/bin/python", max_restarts=None):
    """jobs: list of (fn_path, kwargs).  Returns list of dicts with outcome in
    {"returned", "exception", "died", "timeout"}."""
    work = tempfile.mkdtemp(prefix="iso_")
    jf = os.path.join(work, "jobs.json")
    of = os.path.join(work, "out.txt")
    script = os.path.join(work, "child.py")
    with open(jf, "w") as f:
        json.dump(jobs, f, default=str)
    with open(script, "w") as f:
        f.write(CHILD % (HERE, os.path.join(VERIF, "checks")))
    results = [None] * len(jobs)
    start = 0
    restarts = 0
    env = dict(os.environ)
    env["PYTHONHASHSEED"] = "0"
    while start < len(jobs):
        open(of, "w").close()
        try:
            p = subprocess.run([python, "-W", "ignore", script, jf, str(start), of],
                               stdout=subprocess.PIPE, stderr=subprocess.PIPE, text=True,
                               timeout=timeout_per_batch, env=env)
            rc, timed_out = p.returncode, False
        except subprocess.TimeoutExpired:
            rc, timed_out = None, True
        started = None
        ended = False
        for line in open(of):
            if line.startswith("START "):
                started = int(line.split()[1])
            elif line.startswith("DONE "):
                rec = json.loads(line[5:])
                results[rec["i"]] = rec
                started = None
            elif line.startswith("END"):
                ended = True
        if ended:
            break
        if started is None:
            # died between jobs or before the first: machinery problem
            nxt = next((i for i in range(start, len(jobs)) if results[i] is None), len(jobs))
            if nxt >= len(jobs):
                break
            results[nxt] = {"i": nxt, "outcome": "timeout" if timed_out else "died",
                            "exit_status": rc, "stderr": "" if timed_out else p.stderr[-300:]}
            start = nxt + 1
        else:
            results[started] = {"i": started, "outcome": "timeout" if timed_out else "died",
                                "exit_status": rc, "stderr": "" if timed_out else p.stderr[-300:]}
            start = started + 1
        restarts += 1
        if max_restarts is not None and restarts > max_restarts:
            break
    import shutil
    shutil.rmtree(work, ignore_errors=True)
    return results
