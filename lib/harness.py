"""Check context: evidence, known findings, violations, TLC accounting."""
import json
import os
import sys
import time
import traceback

VERIF = os.path.dirname(os.path.dirname(os.path.abspath(__file__)))
OUT = os.path.abspath(os.environ.get("VERIF_OUT") or VERIF)
sys.path.insert(0, os.path.join(VERIF, "lib"))
import tlc as _tlc  # noqa: E402


class MachineryError(Exception):
    pass


class Ctx:
    def __init__(self, pid, tier="quick", seed=0):
        self.pid = pid
        self.tier = tier
        self.seed = seed
        self.t0 = time.time()
        self.states = 0
        self.transitions = 0
        self.models = []
        self.traces = 0           # behaviours replayed + traces validated
        self.evaluations = 0
        self.distinct = set()
        self.samples = []
        self.violations = []
        self.known_hit = {}
        self.not_covered = []
        self.notes = {}
        self.rule = ""
        self.exhaustive = False
        self.assumptions = []
        self.actions_cov = {}
        self.findings = self._load_findings()
        import glob
        for old in glob.glob(os.path.join(OUT, "replays", "%s_*.json" % pid)):
            try:
                os.remove(old)
            except OSError:
                pass

    # --- findings ---------------------------------------------------------------
    def _load_findings(self):
        p = os.path.join(VERIF, "known_findings.json")
        try:
            data = json.load(open(p))
        except OSError:
            return []
        return [f for f in data.get("findings", []) if f.get("property") == self.pid]

    def _match_open(self, key):
        for f in self.findings:
            if f.get("status") == "open" and f.get("key") == key:
                return f
        return None

    # --- TLC ----------------------------------------------------------------------
    def tlc(self, module, cfg=None, expect_ok=True, label=None, **kw):
        try:
            r = _tlc.run(module, cfg, **kw)
        except _tlc.TLCError as e:
            raise MachineryError(str(e))
        self.states += r.distinct
        self.transitions += r.generated
        self.models.append({"module": module, "cfg": cfg or module + ".cfg",
                            "distinct_states": r.distinct, "states_generated": r.generated,
                            "depth": r.depth, "wall_s": round(r.wall, 2),
                            "ok": r.ok, "violated": r.violated,
                            "mode": "simulate" if kw.get("simulate") else "exhaustive"})
        for a, c in r.coverage.items():
            self.actions_cov[module + "." + a] = c[0]
        if expect_ok and not r.ok:
            # the design-level model itself violates its invariant: a machinery problem
            # (the spec is wrong), unless the caller handles it.
            raise MachineryError("TLC: %s/%s violated %s\n%s" % (
                module, cfg, r.violated, r.output[-3000:]))
        return r

    def tlc_graph(self, module, cfg=None, **kw):
        """run TLC with a state-graph dump, parse it, clean up"""
        from graph import Graph
        kw.setdefault("workers", 8)
        r = self.tlc(module, cfg, dump=True, **kw)
        try:
            g = Graph.load(r.dump)
        finally:
            _tlc.cleanup(r)
        return g

    # --- bookkeeping ----------------------------------------------------------------
    def case(self, key=None, nontrivial=True):
        self.evaluations += 1
        if key is not None and nontrivial:
            self.distinct.add(key if isinstance(key, str) else json.dumps(key, sort_keys=True, default=str))

    def sample(self, s, limit=6):
        if len(self.samples) < limit:
            self.samples.append(s)

    def trace_ok(self, n=1):
        self.traces += n

    def uncovered(self, what):
        if what not in self.not_covered:
            self.not_covered.append(what)

    def violation(self, key, detail, replay=None):
        """Report a failed relation.  `key` identifies the specific failing input /
        history class (used for matching known findings)."""
        f = self._match_open(key)
        if f is not None:
            if key not in self.known_hit:
                self.known_hit[key] = detail
                print("KNOWN-FINDING: property=%s %s :: %s" % (self.pid, key, f.get("what", "")),
                      flush=True)
            return False
        path = os.path.join(OUT, "replays", "%s_%d.json" % (self.pid, len(self.violations)))
        try:
            os.makedirs(os.path.dirname(path), exist_ok=True)
            with open(path, "w") as fh:
                json.dump({"property": self.pid, "key": key, "detail": detail,
                           "replay": replay, "seed": self.seed, "tier": self.tier},
                          fh, indent=1, default=str)
        except OSError:
            pass
        self.violations.append({"key": key, "detail": detail, "replay": path})
        if len(self.violations) <= 25:
            print("VIOLATION property=%s replay=%s" % (self.pid, path), flush=True)
            print("  key=%s detail=%s" % (key, json.dumps(detail, default=str)[:600]), flush=True)
        return True

    # --- evidence ---------------------------------------------------------------------
    def write_evidence(self, status="ok"):
        cov = {
            "states": int(self.states),
            "transitions": int(self.transitions),
            "traces_validated_against_impl": int(self.traces),
            "samples": self.samples or [{"note": "no sample recorded"}],
            "evaluations": int(self.evaluations),
            "distinct_nontrivial": len(self.distinct),
            "rule": self.rule,
            "exhaustive": bool(self.exhaustive),
            "models": self.models,
            "not_covered": self.not_covered,
            "known_findings_reproduced": sorted(self.known_hit),
            "spec_action_coverage": self.actions_cov,
            "notes": self.notes,
            "status": status,
        }
        ev = {"property_id": self.pid, "tier": self.tier, "seed": int(self.seed),
              "level": "model_checking", "coverage": cov,
              "assumptions": self.assumptions,
              "wall_s": round(time.time() - self.t0, 2),
              "violations": len(self.violations)}
        d = os.path.join(OUT, "evidence")
        os.makedirs(d, exist_ok=True)
        tmp = os.path.join(d, self.pid + ".json.tmp")
        with open(tmp, "w") as fh:
            json.dump(ev, fh, indent=1, default=str)
        os.replace(tmp, os.path.join(d, self.pid + ".json"))


def main(pid, run, argv=None):
    import argparse
    ap = argparse.ArgumentParser()
    ap.add_argument("--tier", default=os.environ.get("VERIF_TIER", "quick"))
    ap.add_argument("--replay", default=None)
    a = ap.parse_args(argv)
    tier = a.tier if a.tier in ("quick", "thorough") else "quick"
    try:
        seed = int(os.environ.get("VERIF_SEED", "0"))
    except ValueError:
        seed = 0
    ctx = Ctx(pid, tier, seed)
    ctx.replay = a.replay
    try:
        run(ctx)
    except MachineryError as e:
        print("MACHINERY-ERROR property=%s: %s" % (pid, e), flush=True)
        ctx.notes["machinery_error"] = str(e)[:2000]
        ctx.write_evidence("machinery_error")
        return 2
    except Exception as exc:
        tb = traceback.format_exc()
        # an exception raised *inside the code under test* from a call the check did not guard is an
        # observation about that code (it refused an input the property says it must handle), not a
        # failure of the machinery; one raised in the check's own code is.
        frames = traceback.extract_tb(exc.__traceback__)
        last = frames[-1].filename if frames else ""
        repo = os.path.abspath(os.environ.get("HOLOPY_REPO") or "/repo")
        in_code_under_test = os.path.abspath(last).startswith(repo + os.sep)
        if in_code_under_test:
            where = "%s:%s" % (os.path.relpath(last, repo), frames[-1].name)
            ctx.violation("unguarded_exception/%s/%s" % (where, type(exc).__name__),
                          {"exc": repr(exc)[:300], "traceback": tb[-1500:]})
            ctx.notes["aborted_early"] = "the check stopped at this exception; later sections did not run"
        else:
            print("MACHINERY-ERROR property=%s: unexpected exception\n%s" % (pid, tb), flush=True)
            ctx.notes["machinery_error"] = tb[-2000:]
            if not ctx.violations:
                ctx.write_evidence("machinery_error")
                return 2
    ctx.write_evidence("violations" if ctx.violations else "ok")
    if ctx.violations:
        import collections
        cnt = collections.Counter(v["key"] for v in ctx.violations)
        for k, n in cnt.most_common(40):
            print("  violations: %4d  %s" % (n, k), flush=True)
    print("%s %s: states=%d transitions=%d traces=%d evaluations=%d distinct=%d known=%d violations=%d wall=%.1fs" % (
        pid, tier, ctx.states, ctx.transitions, ctx.traces, ctx.evaluations,
        len(ctx.distinct), len(ctx.known_hit), len(ctx.violations), time.time() - ctx.t0),
        flush=True)
    return 1 if ctx.violations else 0
