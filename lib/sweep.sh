#!/bin/sh
# usage: lib/sweep.sh <seed> [ids...]   — every quick check once with VERIF_SEED=<seed>; summary lines only
seed="$1"; shift
ids="$*"; [ -z "$ids" ] && ids="C01 C02 C03 C04 C05 C06 C07 C08 C09 C10 C11 C12 C13 C14 C15 C16 C17 C18 C19 C20"
cd /verif || exit 2
for i in $ids; do
  VERIF_SEED=$seed ./check $i > /tmp/sweep_${seed}_$i.log 2>&1; rc=$?
  echo "seed=$seed $i rc=$rc $(tail -1 /tmp/sweep_${seed}_$i.log)"
done
