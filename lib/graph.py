"""Parse a TLC `-dump dot,actionlabels` state graph and compute covers."""
import re
from collections import deque

import tlaval

_node = re.compile(r'^(-?\d+) \[label="((?:[^"\\]|\\.)*)"(,style = filled)?')
_edge = re.compile(r'^(-?\d+) -> (-?\d+) \[label="((?:[^"\\]|\\.)*)"')


def _unesc(s):
    return (s.replace("\\n", "\n").replace('\\"', '"').replace("\\\\", "\\"))


class LazyStates(dict):
    """id -> parsed state; parses the TLC text on first access"""

    def __getitem__(self, k):
        v = dict.__getitem__(self, k)
        if isinstance(v, str):
            v = tlaval.parse_state(v)
            dict.__setitem__(self, k, v)
        return v

    def values(self):
        return (self[k] for k in list(self.keys()))

    def items(self):
        return ((k, self[k]) for k in list(self.keys()))


class Graph:
    def __init__(self):
        self.states = LazyStates()     # id -> dict
        self.init = []       # ids
        self.edges = []      # (src, action, args, dst)
        self.out = {}

    @classmethod
    def load(cls, path, parse_states=True):
        g = cls()
        with open(path) as f:
            for line in f:
                m = _edge.match(line)
                if m:
                    a, args = tlaval.parse_action(_unesc(m.group(3)))
                    e = (m.group(1), a, args, m.group(2))
                    g.edges.append(e)
                    g.out.setdefault(m.group(1), []).append(e)
                    continue
                m = _node.match(line)
                if m:
                    sid = m.group(1)
                    if sid not in g.states:
                        txt = _unesc(m.group(2))
                        dict.__setitem__(g.states, sid, txt)
                    if m.group(3):
                        if sid not in g.init:
                            g.init.append(sid)
        return g

    def shortest_paths(self):
        """BFS tree: state -> list of edges from some initial state."""
        prev = {s: None for s in self.init}
        dq = deque(self.init)
        while dq:
            s = dq.popleft()
            for e in self.out.get(s, []):
                if e[3] not in prev:
                    prev[e[3]] = e
                    dq.append(e[3])
        self._prev = prev
        return prev

    def path_to(self, sid):
        if not hasattr(self, "_prev"):
            self.shortest_paths()
        path = []
        while self._prev.get(sid) is not None:
            e = self._prev[sid]
            path.append(e)
            sid = e[0]
        path.reverse()
        return sid, path

    def edge_cover(self):
        """Yield (init_id, [edges]) behaviours such that every edge is the last step of
        one behaviour (shortest path to its source, then the edge)."""
        for e in self.edges:
            if e[0] == e[3] and False:
                continue
            init, path = self.path_to(e[0])
            yield init, path + [e]
