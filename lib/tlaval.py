"""Parse TLC-printed TLA+ values into Python.

 ints -> int, TRUE/FALSE -> bool, "s" -> str, <<..>> -> tuple, {..} -> frozenset,
 [a |-> v, ...] -> dict, (k :> v @@ ...) -> dict, model values / identifiers -> Sym(str)
"""
import re


class Sym(str):
    def __repr__(self):
        return "Sym(%s)" % str.__repr__(self)


_tok = re.compile(r'''\s*(?:(-?\d+)|"((?:[^"\\]|\\.)*)"|(<<|>>|\|->|:>|@@|[\[\]{}(),])|([A-Za-z_][A-Za-z0-9_!]*))''')


def _tokens(s):
    pos = 0
    out = []
    n = len(s)
    while pos < n:
        m = _tok.match(s, pos)
        if not m:
            if s[pos:].strip() == "":
                break
            raise ValueError("bad TLA value at %r" % s[pos:pos + 40])
        pos = m.end()
        if m.group(1) is not None:
            out.append(("int", int(m.group(1))))
        elif m.group(2) is not None:
            out.append(("str", m.group(2).replace('\\"', '"').replace("\\\\", "\\")))
        elif m.group(3) is not None:
            out.append(("p", m.group(3)))
        else:
            out.append(("id", m.group(4)))
    return out


def _freeze(v):
    if isinstance(v, dict):
        return tuple(sorted((_freeze(k), _freeze(x)) for k, x in v.items()))
    if isinstance(v, (list, tuple)):
        return tuple(_freeze(x) for x in v)
    return v


class _P:
    def __init__(self, toks):
        self.t = toks
        self.i = 0

    def peek(self):
        return self.t[self.i] if self.i < len(self.t) else (None, None)

    def eat(self, kind=None, val=None):
        k, v = self.peek()
        if (kind and k != kind) or (val is not None and v != val):
            raise ValueError("expected %s %s got %s %s" % (kind, val, k, v))
        self.i += 1
        return v

    def value(self):
        k, v = self.peek()
        if k == "int" or k == "str":
            self.i += 1
            return v
        if k == "id":
            self.i += 1
            if v == "TRUE":
                return True
            if v == "FALSE":
                return False
            return Sym(v)
        if k == "p" and v == "<<":
            self.i += 1
            items = self.seq(">>")
            return tuple(items)
        if k == "p" and v == "{":
            self.i += 1
            items = self.seq("}")
            return frozenset(_freeze(x) for x in items)
        if k == "p" and v == "[":
            self.i += 1
            d = {}
            if self.peek() == ("p", "]"):
                self.i += 1
                return d
            while True:
                key = self.eat("id")
                self.eat("p", "|->")
                d[key] = self.value()
                k2, v2 = self.peek()
                self.i += 1
                if v2 == "]":
                    return d
                if v2 != ",":
                    raise ValueError("record syntax")
        if k == "p" and v == "(":
            self.i += 1
            d = {}
            while True:
                key = self.value()
                self.eat("p", ":>")
                d[_freeze(key)] = self.value()
                k2, v2 = self.peek()
                self.i += 1
                if v2 == ")":
                    return d
                if v2 != "@@":
                    raise ValueError("function syntax")
        raise ValueError("unexpected token %s %s" % (k, v))

    def seq(self, close):
        items = []
        if self.peek() == ("p", close):
            self.i += 1
            return items
        while True:
            items.append(self.value())
            k, v = self.peek()
            self.i += 1
            if v == close:
                return items
            if v != ",":
                raise ValueError("sequence syntax near %s" % (v,))


def parse(s):
    p = _P(_tokens(s))
    v = p.value()
    if p.i != len(p.t):
        raise ValueError("trailing tokens in %r" % s[:80])
    return v


def parse_state(text):
    """'/\\ a = 1\n/\\ b = <<..>>' -> {'a':1,'b':(...)}"""
    text = text.strip()
    parts = re.split(r'(?:^|\n)/\\ ', text)
    out = {}
    for part in parts:
        part = part.strip()
        if not part:
            continue
        name, val = part.split(" = ", 1)
        out[name.strip()] = parse(val)
    return out


def parse_action(label):
    """'Step(1, "a")' -> ('Step', (1,'a'))"""
    m = re.match(r'^([A-Za-z_][A-Za-z0-9_]*)(?:\((.*)\))?$', label.strip(), re.S)
    if not m:
        return label, ()
    if m.group(2) is None or m.group(2).strip() == "":
        return m.group(1), ()
    return m.group(1), parse("<<" + m.group(2) + ">>")
