"""Fingerprints of HoloPy/xarray objects, used for Frame ("inputs untouched") and exact
equality clauses."""
import hashlib

import numpy as np


def _norm(v):
    try:
        import xarray as xr
        if isinstance(v, xr.DataArray):
            return ("xr", tuple(v.dims),
                    tuple((k, _norm(c.values)) for k, c in sorted(v.coords.items(), key=lambda kv: str(kv[0]))),
                    _norm(v.values))
    except ImportError:
        pass
    if isinstance(v, type):
        return ("class", v.__module__ + "." + v.__qualname__)
    if isinstance(v, np.ndarray):
        if v.dtype == object:
            return ("objarr", tuple(_norm(x) for x in v.ravel().tolist()))
        return ("arr", str(v.dtype), v.shape, hashlib.sha1(np.ascontiguousarray(v).tobytes()).hexdigest())
    if isinstance(v, dict):
        return ("dict", tuple((str(k), _norm(x)) for k, x in sorted(v.items(), key=lambda kv: str(kv[0]))))
    if isinstance(v, (list, tuple)):
        return (type(v).__name__, tuple(_norm(x) for x in v))
    if isinstance(v, (np.generic,)):
        return ("np", str(v.dtype), repr(v.item()))
    if isinstance(v, float):
        return ("f", repr(v))
    if isinstance(v, (int, str, bool, complex, type(None))):
        return (type(v).__name__, repr(v))
    if hasattr(v, "_dict"):
        try:
            return ("obj", type(v).__name__, _norm(v._dict))
        except Exception:
            pass
    return ("repr", repr(v))


def fingerprint(obj):
    """stable, order-insensitive-for-dicts fingerprint of values + coords + attrs + name"""
    try:
        import xarray as xr
        if isinstance(obj, xr.DataArray):
            return hashlib.sha1(repr((_norm(obj), ("name", obj.name),
                                      _norm(dict(obj.attrs)))).encode()).hexdigest()
    except ImportError:
        pass
    return hashlib.sha1(repr(_norm(obj)).encode()).hexdigest()


def same(a, b):
    return fingerprint(a) == fingerprint(b)
