"""Code -> spec: validate recorded traces with a TLC trace specification (batched)."""
import json
import os
import tempfile

import tlaval
import tlc


def validate(ctx, module, traces, cfg=None, timeout=900):
    """traces: list of lists of event dicts (ints, bools, strings only).
    Returns list of verdicts: (accepted: bool, line: int|None, clauses: dict|None)."""
    if not traces:
        return []
    fd, path = tempfile.mkstemp(prefix="trace_", suffix=".json")
    with os.fdopen(fd, "w") as f:
        json.dump(traces, f)
    try:
        r = ctx.tlc(module, cfg or module + ".cfg", workers=1, env={"TRACE_FILE": path},
                    timeout=timeout, expect_ok=False)
    finally:
        os.unlink(path)
    verdicts = {}
    for v in tlc.printed_tuples(r.output):
        if len(v) >= 3 and v[0] == "ACCEPT":
            verdicts[v[1]] = (True, None, None)
        elif len(v) >= 4 and v[0] == "REJECT":
            verdicts[v[1]] = (False, v[2], v[3])
    if len(verdicts) != len(traces):
        import harness
        raise harness.MachineryError("trace validation produced %d verdicts for %d traces\n%s"
                                     % (len(verdicts), len(traces), r.output[-2500:]))
    return [verdicts[i + 1] for i in range(len(traces))]
