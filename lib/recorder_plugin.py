"""pytest plugin (loaded with -p recorder_plugin, PYTHONPATH=/verif/lib): runs the repository's
own tests with the compiled solvers available and records every call of the public entry
points: fingerprints of the arguments before and after, and of the result.  One trace per test,
written as a JSON batch to $HOLOPY_VERIF_TRACE at the end of the session.  Nothing in /repo is
touched; a name that does not exist is skipped."""
import functools
import json
import os
import sys

import boot  # noqa: F401  (puts /repo first, compiled extensions)
import fp

TRACES = []
CUR = []
DEPTH = [0]

PUBLIC = {
    "holopy.scattering.interface": ["calc_holo", "calc_field", "calc_intensity", "calc_cross_sections",
                                    "calc_scat_matrix"],
    "holopy.core.process.img_proc": ["normalize", "detrend", "zero_filter", "subimage", "bg_correct", "add_noise",
                                     "simulate_noise"],
    "holopy.core.process.centerfinder": ["center_find"],
    "holopy.core.process.fourier": ["fft", "ifft"],
    "holopy.core.metadata": ["update_metadata", "copy_metadata", "make_subset_data", "get_spacing", "get_extents",
                             "clean_concat"],
    "holopy.propagation.convolution_propagation": ["propagate"],
    "holopy.core.math": ["rotation_matrix", "rotate_points", "transform_cartesian_to_spherical",
                         "transform_spherical_to_cartesian", "transform_cartesian_to_cylindrical",
                         "transform_cylindrical_to_cartesian", "cartesian_distance"],
}


# methods: the object itself is the first tracked argument (a method that only reads must leave it as it was)
PUBLIC_METHODS = {
    "holopy.inference.model": {"Model": ["lnprior", "lnlike", "lnposterior", "forward", "scatterer_from_parameters",
                                         "theory_from_parameters", "generate_guess"],
                               "AlphaModel": ["forward"], "ExactModel": ["forward"]},
    "holopy.scattering.scatterer.scatterer": {"Scatterer": ["translated", "contains", "in_domain", "index_at", "from_parameters"]},
    "holopy.scattering.scatterer.composite": {"Scatterers": ["translated", "rotated", "in_domain", "from_parameters",
                                                            "get_component_list"]},
    "holopy.scattering.scatterer.spherecluster": {"Spheres": ["largest_overlap"]},
    "holopy.core.prior": {"Uniform": ["lnprob", "prob"], "Gaussian": ["lnprob", "prob"], "BoundedGaussian": ["lnprob", "prob"],
                          "ComplexPrior": ["lnprob", "prob"], "Prior": ["scale", "unscale", "renamed"]},
}
PUBLIC["holopy.core.metadata"] += ["detector_grid", "detector_points", "data_grid"]
PUBLIC["holopy.core.prior"] = ["updated", "generate_guess"]
PUBLIC["holopy.core.io.vis"] = ["display_image"]
RNG_APIS = {"make_subset_data", "add_noise", "simulate_noise", "generate_guess", "Model.generate_guess"}


def tracked(x):
    import numpy as np
    try:
        import xarray as xr
        if isinstance(x, (xr.DataArray, np.ndarray)):
            return True
    except ImportError:
        pass
    return hasattr(x, "_dict") or isinstance(x, (list, dict))


def fps(args, kwargs):
    out = []
    for a in list(args) + [kwargs[k] for k in sorted(kwargs)]:
        try:
            out.append(fp.fingerprint(a)[:16] if tracked(a) else "v:" + repr(a)[:40])
        except Exception:
            out.append("unprintable")
    return out


def wrap(name, f):
    @functools.wraps(f)
    def inner(*args, **kwargs):
        if DEPTH[0] > 0:
            return f(*args, **kwargs)         # nested public calls are internal steps
        DEPTH[0] += 1
        before = fps(args, kwargs)
        ev = {"api": name, "before": before, "seeded": bool(kwargs.get("seed") is not None),
              "uses_rng": name in RNG_APIS or (name in ("Model.lnposterior", "Model.lnlike") and
                                               (len(args) >= 4 and args[3] is not None or kwargs.get("pixels") is not None))}
        try:
            res = f(*args, **kwargs)
            try:
                ev["result"] = fp.fingerprint(res)[:16]
            except Exception:
                ev["result"] = "unprintable"
            return res
        except BaseException:
            ev["result"] = "exception"
            raise
        finally:
            DEPTH[0] -= 1
            ev["after"] = fps(args, kwargs)
            CUR.append(ev)
    inner._verif_wrapped = True
    return inner


def install():
    import importlib
    done = 0
    for mod, names in PUBLIC.items():
        try:
            m = importlib.import_module(mod)
        except Exception:
            continue
        for n in names:
            f = getattr(m, n, None)
            if f is None or getattr(f, "_verif_wrapped", False):
                continue
            w = wrap(n, f)
            for other in list(sys.modules.values()):
                if other is None or not getattr(other, "__name__", "").startswith("holopy"):
                    continue
                for attr, val in list(vars(other).items()):
                    if val is f:
                        setattr(other, attr, w)
            done += 1
    for mod, classes in PUBLIC_METHODS.items():
        try:
            m = importlib.import_module(mod)
        except Exception:
            continue
        for cname, names in classes.items():
            cls = getattr(m, cname, None)
            if cls is None:
                continue
            for n in names:
                f = cls.__dict__.get(n)
                if f is None or getattr(f, "_verif_wrapped", False) or isinstance(f, (property, classmethod, staticmethod)):
                    continue
                setattr(cls, n, wrap("%s.%s" % (cname, n), f))
                done += 1
    return done


def pytest_configure(config):
    import holopy  # noqa: F401
    install()


def pytest_runtest_setup(item):
    del CUR[:]


def pytest_runtest_teardown(item, nextitem):
    if CUR:
        TRACES.append({"test": item.nodeid, "events": list(CUR)})
    del CUR[:]


def pytest_sessionfinish(session, exitstatus):
    path = os.environ.get("HOLOPY_VERIF_TRACE")
    if path:
        with open(path, "w") as f:
            json.dump(TRACES, f)
