"""Build HoloPy's four f2py extensions out of tree, offline, without meson.

The sources are hashed; the build goes to /verif/.cache/ext/<hash>/ so that a change to
any Fortran file under /repo changes what the checks run.  Nothing is written to /repo.
"""
import hashlib
import os
import shutil
import subprocess
import sys
import sysconfig
from concurrent.futures import ThreadPoolExecutor

REPO = os.environ.get("HOLOPY_REPO", "/repo")
VERIF = os.path.dirname(os.path.dirname(os.path.abspath(__file__)))
CACHE = os.path.join(VERIF, ".cache", "ext")
PY = os.environ.get("HOLOPY_PYTHON", "/venv/bin/python")

S = "holopy/scattering/"
MODULES = {
    "mieangfuncs": (S + "theory/mie_f",
                    ["theory/mie_f/mieangfuncs.f90", "theory/mie_f/uts_scsmfo.for",
                     "third_party/SBESJY.F", "third_party/csphjy.for"]),
    "scsmfo_min": (S + "theory/mie_f", ["theory/mie_f/scsmfo_min.for"]),
    "uts_scsmfo": (S + "theory/mie_f",
                   ["theory/mie_f/uts_scsmfo.for", "third_party/SBESJY.F"]),
    "S": (S + "theory/tmatrix_f",
          ["theory/tmatrix_f/S.f", "theory/tmatrix_f/ampld.lp.f",
           "theory/tmatrix_f/lpd.f"]),
}
# files that are INCLUDEd by the sources
INCLUDES = ["theory/mie_f/scfodim.for", "theory/tmatrix_f/ampld.par.f"]
DOTTED = {
    "mieangfuncs": "holopy.scattering.theory.mie_f.mieangfuncs",
    "scsmfo_min": "holopy.scattering.theory.mie_f.scsmfo_min",
    "uts_scsmfo": "holopy.scattering.theory.mie_f.uts_scsmfo",
    "S": "holopy.scattering.theory.tmatrix_f.S",
}


def source_hash(repo=None):
    repo = repo or REPO
    h = hashlib.sha256()
    names = sorted({f for _, (_, fs) in MODULES.items() for f in fs} | set(INCLUDES))
    for rel in names:
        p = os.path.join(repo, S, rel)
        h.update(rel.encode())
        try:
            with open(p, "rb") as f:
                h.update(f.read())
        except OSError:
            h.update(b"<missing>")
    h.update(sys.version.encode())
    return h.hexdigest()[:20]


def _run(cmd, cwd):
    r = subprocess.run(cmd, cwd=cwd, stdout=subprocess.PIPE, stderr=subprocess.STDOUT,
                       text=True)
    if r.returncode != 0:
        raise RuntimeError("build step failed: %s\n%s" % (" ".join(cmd), r.stdout[-4000:]))
    return r.stdout


def _build_one(name, repo, outdir):
    subdir, srcs = MODULES[name]
    work = os.path.join(outdir, "build_" + name)
    os.makedirs(work, exist_ok=True)
    # copy sources (and include files) so that INCLUDE statements resolve
    local = []
    for rel in srcs + INCLUDES:
        dst = os.path.join(work, os.path.basename(rel))
        shutil.copy(os.path.join(repo, S, rel), dst)
        if rel in srcs:
            local.append(os.path.basename(rel))
    _run([PY, "-m", "numpy.f2py"] + local + ["-m", name, "--lower", "--build-dir", "."],
         work)
    import numpy
    import numpy.f2py
    npinc = numpy.get_include()
    f2pyinc = os.path.join(os.path.dirname(numpy.f2py.__file__), "src")
    pyinc = sysconfig.get_paths()["include"]
    shutil.copy(os.path.join(f2pyinc, "fortranobject.c"), work)
    _run(["gcc", "-O2", "-fPIC", "-DNPY_NO_DEPRECATED_API=NPY_1_9_API_VERSION",
          "-I" + pyinc, "-I" + npinc, "-I" + f2pyinc, "-c", name + "module.c",
          "fortranobject.c"], work)
    fsrcs = list(local)
    for w in (name + "-f2pywrappers.f", name + "-f2pywrappers2.f90"):
        if os.path.exists(os.path.join(work, w)):
            fsrcs.append(w)
    _run(["gfortran", "-O2", "-fPIC", "-std=legacy", "-w", "-c"] + fsrcs, work)
    objs = [f for f in os.listdir(work) if f.endswith(".o")]
    ext = sysconfig.get_config_var("EXT_SUFFIX")
    so = os.path.join(outdir, name + ext)
    _run(["gfortran", "-shared", "-o", so] + objs + ["-lquadmath"], work)
    shutil.rmtree(work, ignore_errors=True)
    return so


def ensure_built(repo=None, verbose=False):
    """Return {module: path_to_so}; build on cache miss."""
    repo = repo or REPO
    h = source_hash(repo)
    outdir = os.path.join(CACHE, h)
    ext = sysconfig.get_config_var("EXT_SUFFIX")
    paths = {n: os.path.join(outdir, n + ext) for n in MODULES}
    if all(os.path.exists(p) for p in paths.values()) and \
            os.path.exists(os.path.join(outdir, "OK")):
        return paths
    tmp = outdir + ".tmp%d" % os.getpid()
    shutil.rmtree(tmp, ignore_errors=True)
    os.makedirs(tmp)
    if verbose:
        print("extbuild: building Fortran extensions for hash", h, flush=True)
    with ThreadPoolExecutor(4) as ex:
        list(ex.map(lambda n: _build_one(n, repo, tmp), MODULES))
    open(os.path.join(tmp, "OK"), "w").write(h)
    if os.path.exists(outdir):
        shutil.rmtree(tmp, ignore_errors=True)
    else:
        os.makedirs(CACHE, exist_ok=True)
        try:
            os.rename(tmp, outdir)
        except OSError:
            shutil.rmtree(tmp, ignore_errors=True)
    # keep at most 4 hashes
    try:
        ds = sorted((os.path.join(CACHE, d) for d in os.listdir(CACHE)
                     if ".tmp" not in d), key=os.path.getmtime)
        for d in ds[:-4]:
            shutil.rmtree(d, ignore_errors=True)
    except OSError:
        pass
    return paths


if __name__ == "__main__":
    import time
    t = time.time()
    p = ensure_built(verbose=True)
    print("extbuild:", p, "%.1fs" % (time.time() - t))
