#!/bin/sh
# usage: lib/round.sh <round number> <letter for A> <letter for B> <ids...>
# confirms the two sub-agent changes of each id (/tmp/mut<r>_<ID>/{A,B}, worktree /tmp/wt<r>_<id>), stores them
# under the given letters and tries them against the property's quick check; ids run in parallel.
r=$1; la=$2; lb=$3; shift 3
cd /verif || exit 2
for id in "$@"; do
  low=$(echo $id | tr 'A-Z' 'a-z')
  ( lib/confirm_mutant.sh $id A /tmp/wt${r}_$low /tmp/mut${r}_$id $la
    lib/confirm_mutant.sh $id B /tmp/wt${r}_$low /tmp/mut${r}_$id $lb
    for L in $la $lb; do [ -d seeded/${id}_$L ] && lib/try_mutant_wt.sh $id /verif/seeded/${id}_$L/patch.diff /tmp/wt${r}_$low; done
  ) > /tmp/round_$id.out 2>&1 &
done
wait
for id in "$@"; do grep -v "WARNING\|stored" /tmp/round_$id.out; done
