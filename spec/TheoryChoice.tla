----------------------------- MODULE TheoryChoice -----------------------------
(***************************************************************************)
(* C09.  The documented default-theory rule as a total decision function   *)
(* over abstract scatterers, with the 30-largest-radii boundary decided    *)
(* exactly in integers (radii and centres on a lattice, squared distances; *)
(* (30,0,0) and (18,24,0) are exactly at 30 radii, 31 and (18,25,0) just   *)
(* beyond).  Sphere clusters are unordered sets in the model, so listing   *)
(* order cannot matter (permutation invariance is replayed on the real     *)
(* solver).                                                                *)
(***************************************************************************)
EXTENDS Integers, Sequences, FiniteSets

VARIABLES s
vars == <<s>>

Sq(x) == x * x
D2(p, q) == Sq(p[1] - q[1]) + Sq(p[2] - q[2]) + Sq(p[3] - q[3])
Max(S) == CHOOSE x \in S : \A y \in S : y <= x

(* a sphere: [r |-> outer radius, c |-> centre, layered |-> BOOLEAN, placed |-> BOOLEAN] *)
Sph(r, c, lay, placed) == [r |-> r, c |-> c, layered |-> lay, placed |-> placed]
Seconds == {<<29, 0, 0>>, <<30, 0, 0>>, <<31, 0, 0>>, <<18, 24, 0>>, <<18, 25, 0>>, <<0, 18, 24>>, <<3, 0, 0>>,
            <<60, 0, 0>>}
Clusters ==
   {<<Sph(1, <<0, 0, 0>>, l1, TRUE)>> : l1 \in BOOLEAN}
   \cup {<<Sph(r1, <<0, 0, 0>>, l1, p1), Sph(r2, c2, FALSE, TRUE)>> :
            r1 \in {1, 2}, r2 \in {1, 2}, c2 \in Seconds, l1 \in BOOLEAN, p1 \in BOOLEAN}
   \cup {<<Sph(1, <<0, 0, 0>>, FALSE, TRUE), Sph(1, c2, FALSE, TRUE), Sph(1, <<0, 5, 0>>, FALSE, TRUE)>> :
            c2 \in Seconds}

Scatterers ==
   {[kind |-> "sphere", layered |-> l] : l \in BOOLEAN}
   \cup {[kind |-> "spheres", members |-> m] : m \in Clusters}
   \cup {[kind |-> k] : k \in {"spheroid", "cylinder", "ellipsoid", "capsule", "csg_difference",
                               "not_a_scatterer_number", "not_a_scatterer_string"}}

MembersSet(m) == {m[i] : i \in 1..Len(m)}
MaxSep2(m) == Max({D2(a.c, b.c) : a \in MembersSet(m), b \in MembersSet(m)})
MaxR(m) == Max({a.r : a \in MembersSet(m)})
WithinRule(m) == MaxSep2(m) <= Sq(30 * MaxR(m))            \* <= : exactly 30 radii still counts as near

Choose(x) ==
   IF x.kind = "sphere" THEN "Mie"
   ELSE IF x.kind = "spheres" THEN
        (IF Len(x.members) = 1 THEN "Mie"
         ELSE IF \E a \in MembersSet(x.members) : ~a.placed THEN "InvalidScatterer"
         ELSE IF \E a \in MembersSet(x.members) : a.layered THEN "Mie"
         ELSE IF WithinRule(x.members) THEN "Multisphere" ELSE "Mie")
   ELSE IF x.kind \in {"spheroid", "cylinder"} THEN "Tmatrix"
   ELSE IF x.kind \in {"ellipsoid", "capsule", "csg_difference"} THEN "DDA"
   ELSE "AutoTheoryFailed"

Init == s \in {[scat |-> x, choice |-> Choose(x)] : x \in Scatterers}
Next == UNCHANGED vars
Spec == Init /\ [][Next]_vars

Outcomes == {"Mie", "Multisphere", "Tmatrix", "DDA", "AutoTheoryFailed", "InvalidScatterer"}
Total == s.choice \in Outcomes
BoundaryIsNear == (s.scat.kind = "spheres" /\ Len(s.scat.members) = 2 /\ s.choice = "Multisphere")
                    => D2(s.scat.members[1].c, s.scat.members[2].c) <= Sq(30 * MaxR(s.scat.members))
=============================================================================
