SPECIFICATION Spec
CONSTANTS
  Mode = "prop"
  MaxN = 3
  MaxSteps = 3
INVARIANT BandNeverMasked
PROPERTY InverseInBand
PROPERTY NetAdds
CHECK_DEADLOCK FALSE
VIEW View
