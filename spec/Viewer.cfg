SPECIFICATION Spec
CONSTANT MaxSteps = 4
INVARIANT IndexInRange
PROPERTY OneStepAtATime
PROPERTY OnlyArrowsMove
CHECK_DEADLOCK FALSE
