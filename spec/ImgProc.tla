------------------------------ MODULE ImgProc ------------------------------
(***************************************************************************)
(* C18.  Executable rational semantics of HoloPy's image-processing tools  *)
(* on small integer images.  An image is a function [X \X Y -> Int].       *)
(* Mode selects which tool the model enumerates; in every mode a state is  *)
(* (input images, expected output), computed exactly, and TLC checks the   *)
(* algebraic laws the property states on *every* enumerated image.  The    *)
(* dumped states are replayed into the real functions (spec -> code).      *)
(*                                                                         *)
(*  Mode "normalize" : out = img * N / Sum(img)                            *)
(*  Mode "zero"      : zero_filter; out[p] is a rational or "free" (the    *)
(*                     property fixes isolated zeros only), ok = FALSE     *)
(*                     for a dead corner                                   *)
(*  Mode "bg"        : bg_correct(raw, bg, dark) on positive denominators  *)
(*  Mode "acc"       : Accumulator: actions Push(k); state = multiset;     *)
(*                     reading mean()/std() is a stuttering step (the       *)
(*                     replay reads twice after every push)                 *)
(*  Mode "detrend"   : actions AddPlane(a,b,c) on a base image; the        *)
(*                     abstract state (base) never changes                 *)
(*  Mode "crop"      : subimage windows that fit                           *)
(***************************************************************************)
EXTENDS Integers, Sequences, FiniteSets, Rat

CONSTANTS Mode, NX, NY, Vals, MaxPush

VARIABLES img,      \* main image: [Pix -> Int]          (all modes)
          aux,      \* mode-specific second input
          out,      \* expected result, mode-specific
          ok        \* "accept" | "refuse" (BadImage) | "any" (the property does not say)

vars == <<img, aux, out, ok>>

X == 1..NX
Y == 1..NY
Pix == X \X Y
N == NX * NY

RECURSIVE SumOver(_, _)
SumOver(f, S) == IF S = {} THEN 0
                 ELSE LET p == CHOOSE q \in S : TRUE IN f[p] + SumOver(f, S \ {p})
Sum(f) == SumOver(f, DOMAIN f)

-----------------------------------------------------------------------------
(* normalize *)
Normalize(f) == [p \in Pix |-> Norm(f[p] * N, Sum(f))]
RatSum(g) == LET RECURSIVE S(_)
                 S(T) == IF T = {} THEN R(0)
                         ELSE LET p == CHOOSE q \in T : TRUE IN Add(g[p], S(T \ {p}))
             IN S(DOMAIN g)
MeanIsOne(g) == RatSum(g) = R(N)
(* normalising a rational image *)
NormalizeRat(g) == LET s == RatSum(g) IN [p \in Pix |-> Div(Mul(g[p], R(N)), s)]

-----------------------------------------------------------------------------
(* zero_filter *)
Nbrs(p) == {q \in Pix : (q[1] = p[1] /\ (q[2] = p[2] + 1 \/ q[2] = p[2] - 1))
                     \/ (q[2] = p[2] /\ (q[1] = p[1] + 1 \/ q[1] = p[1] - 1))}
XNbrs(p) == {q \in Nbrs(p) : q[2] = p[2]}     \* neighbours along x (same y)
YNbrs(p) == {q \in Nbrs(p) : q[1] = p[1]}
IsCorner(p) == p[1] \in {1, NX} /\ p[2] \in {1, NY}
Isolated(f, p) == \A q \in Nbrs(p) : f[q] > 0
DeadCorner(f) == \E p \in Pix : IsCorner(p) /\ f[p] <= 0
(* isolated zero: mean over the axes along which it has two neighbours of the mean of
   those two neighbours (interior: mean of four; edge: the two along the edge) *)
PairMean(f, S) == Norm(SumOver(f, S), 2)
ZeroValue(f, p) ==
   LET ax == {S \in {XNbrs(p), YNbrs(p)} : Cardinality(S) = 2}
   IN IF Cardinality(ax) = 2 THEN Norm(SumOver(f, Nbrs(p)), 4)
      ELSE IF Cardinality(ax) = 1 THEN PairMean(f, CHOOSE S \in ax : TRUE)
      ELSE <<"free">>
ZeroFilter(f) == [p \in Pix |->
   IF f[p] > 0 THEN R(f[p])
   ELSE IF Isolated(f, p) /\ ~IsCorner(p) THEN ZeroValue(f, p) ELSE <<"free">>]

-----------------------------------------------------------------------------
(* bg_correct: aux = <<bg, dark>> *)
BgCorrect(raw, bg, dk) == [p \in Pix |->
   IF bg[p] - dk[p] > 0 THEN Norm(raw[p] - dk[p], bg[p] - dk[p]) ELSE <<"free">>]

-----------------------------------------------------------------------------
(* Accumulator: img = sequence of pool indices pushed so far (history, hidden by VIEW);
   the abstract state is the multiset `aux` = [k \in Pool-index -> count]. *)
Pool == << <<1, 4>>, <<2, 0>>, <<5, 3>> >>     \* three 1x2 integer images
PoolIdx == 1..Len(Pool)
Count(ms) == LET RECURSIVE C(_)
                 C(k) == IF k = 0 THEN 0 ELSE ms[k] + C(k - 1)
             IN C(Len(Pool))
AccMean(ms) == [j \in 1..Len(Pool[1]) |->
   Norm(LET RECURSIVE S(_)
            S(k) == IF k = 0 THEN 0 ELSE ms[k] * Pool[k][j] + S(k - 1)
        IN S(Len(Pool)), Count(ms))]
AccVar(ms) == [j \in 1..Len(Pool[1]) |->          \* population variance
   LET m == AccMean(ms)[j]
       RECURSIVE S(_)
       S(k) == IF k = 0 THEN R(0)
               ELSE Add(Mul(R(ms[k]), Mul(Sub(R(Pool[k][j]), m), Sub(R(Pool[k][j]), m))), S(k - 1))
   IN Div(S(Len(Pool)), R(Count(ms)))]

-----------------------------------------------------------------------------
Init ==
   \/ /\ Mode = "normalize"
      /\ img \in [Pix -> Vals] /\ Sum(img) > 0
      /\ aux = <<>> /\ out = Normalize(img) /\ ok = "accept"
   \/ /\ Mode = "zero"
      /\ img \in [Pix -> Vals]
      /\ aux = <<>> /\ out = ZeroFilter(img)
      /\ ok = IF DeadCorner(img) THEN "refuse"
              ELSE IF \A p \in Pix : img[p] <= 0 => Isolated(img, p) THEN "accept" ELSE "any"
   \/ /\ Mode = "bg"
      /\ img \in [Pix -> Vals]
      /\ aux \in {<<b, d>> : b \in [Pix -> Vals], d \in [Pix -> {0, 1}]}
      /\ out = BgCorrect(img, aux[1], aux[2]) /\ ok = "accept"
   \/ /\ Mode = "acc"
      /\ img = <<>> /\ aux = [k \in PoolIdx |-> 0] /\ out = <<>> /\ ok = "accept"
   \/ /\ Mode = "detrend"
      /\ img \in [Pix -> Vals] /\ aux = <<0, 0, 0>> /\ out = <<>> /\ ok = "accept"
   \/ /\ Mode = "crop"
      /\ img = [p \in Pix |-> p[1] * 10 + p[2]]
      /\ aux \in {<<lo, sh>> \in (Pix \X Pix) :
                     /\ lo[1] + sh[1] - 1 <= NX /\ lo[2] + sh[2] - 1 <= NY
                     /\ sh[1] % 2 = 0 /\ sh[2] % 2 = 0}   \* documented precondition: even shape
      /\ out = [p \in (1..aux[2][1]) \X (1..aux[2][2]) |->
                   img[<<aux[1][1] + p[1] - 1, aux[1][2] + p[2] - 1>>]]
      /\ ok = "accept"

Push(k) == /\ Mode = "acc" /\ Len(img) < MaxPush
           /\ img' = Append(img, k)
           /\ aux' = [aux EXCEPT ![k] = @ + 1]
           /\ out' = <<AccMean(aux'), AccVar(aux')>>
           /\ UNCHANGED ok

AddPlane(a, b, c) == /\ Mode = "detrend" /\ aux = <<0, 0, 0>> /\ <<a, b, c>> # <<0, 0, 0>>
                     /\ aux' = <<a, b, c>>        \* image becomes img + a*x + b*y + c
                     /\ UNCHANGED <<img, out, ok>>

Next == \/ \E k \in PoolIdx : Push(k)
        \/ \E a, b \in {-2, 0, 1}, c \in {0, 3} : AddPlane(a, b, c)

Spec == Init /\ [][Next]_vars
AccView == <<aux, out, ok>>        \* the accumulator's state is the multiset, not the order

-----------------------------------------------------------------------------
(* laws checked by TLC on every enumerated image *)
NormalizeMeanOne    == Mode = "normalize" => MeanIsOne(out)
NormalizeIdempotent == Mode = "normalize" => NormalizeRat(out) = out
NormalizeScaleInv   == Mode = "normalize" =>
   \A c \in {2, 3} : Normalize([p \in Pix |-> c * img[p]]) = out
ZeroKeepsPositive   == Mode = "zero" => \A p \in Pix : img[p] > 0 => out[p] = R(img[p])
ZeroInteriorMean4   == Mode = "zero" =>
   \A p \in Pix : (img[p] = 0 /\ Cardinality(Nbrs(p)) = 4 /\ Isolated(img, p)) =>
        out[p] = Norm(SumOver(img, Nbrs(p)), 4)
ZeroFilledPositive  == Mode = "zero" =>
   \A p \in Pix : (Len(out[p]) = 2) => out[p][1] > 0
BgSelfIsOne         == Mode = "bg" =>
   ((aux[1] = img /\ \A p \in Pix : aux[2][p] = 0 /\ img[p] > 0) => \A p \in Pix : out[p] = R(1))
AccOrderFree        == Mode = "acc" => Count(aux) = Len(img)
AccVarNonNeg        == (Mode = "acc" /\ Len(img) > 0) => \A j \in DOMAIN out[2] : out[2][j][1] >= 0
=============================================================================
