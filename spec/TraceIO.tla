------------------------------ MODULE TraceIO ------------------------------
(* Batched trace validation (code -> spec).  The harness writes one JSON file: an array *)
(* of traces, each an array of event records logged at the return of a public call.   *)
(* A trace specification EXTENDS this module, defines Enabled(tid, l) -- "event l of   *)
(* trace tid is a step the specification allows" -- and Clauses(e), the truth value of  *)
(* every named relation for a record (used to name the failing clause).                *)
(* One TLC register per trace keeps the furthest line matched; the POSTCONDITION       *)
(* prints one verdict per trace.  Run with -workers 1, deadlock checking off.          *)
EXTENDS Integers, Sequences, TLC, Json, IOUtils

Traces == JsonDeserialize(IOEnv.TRACE_FILE)
Tids   == 1..Len(Traces)

Verdict(t, clausesOf(_)) ==
   LET n == Len(Traces[t])
       reached == TLCGet(t) - 1
   IN IF reached = n THEN PrintT(<<"ACCEPT", t, n>>)
      ELSE PrintT(<<"REJECT", t, reached + 1, clausesOf(Traces[t][reached + 1])>>)
=============================================================================
