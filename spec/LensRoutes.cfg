SPECIFICATION Spec
PROPERTY ClassNeverChanges
CHECK_DEADLOCK FALSE
CONSTANT MaxCalls = 3
