SPECIFICATION Spec
PROPERTY ClassNeverChanges
CHECK_DEADLOCK FALSE
