SPECIFICATION Spec
CONSTANTS
  Mode = "proc"
  MaxSteps = 2
INVARIANT AliveForever
INVARIANT NeverDied
PROPERTY ParticleNeverChanges
CHECK_DEADLOCK FALSE
