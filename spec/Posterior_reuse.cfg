SPECIFICATION Spec
CONSTANT Rounds = 2
INVARIANT NoForwardWhenNegInf
INVARIANT AtMostOneForward
INVARIANT FiniteNeedsEverything
INVARIANT NoiseFromModelThenData
INVARIANT OpticsFromModelThenData
INVARIANT UnitNoiseOnlyIfAllUniform
INVARIANT MissingParameterNamed
CHECK_DEADLOCK FALSE
