SPECIFICATION Spec
CONSTANTS
  Mode = "request"
  MaxCalls = 3
INVARIANT KwWins
INVARIANT Scaling0IsOne
PROPERTY Deterministic
CHECK_DEADLOCK FALSE
