SPECIFICATION Spec
CONSTANT MaxCalls = 2
CONSTANT MaxReq = 2
INVARIANT AlphaLast
INVARIANT NoDuplicates
INVARIANT OnlyWhatWasAsked
INVARIANT OrderIsTheScatterers
INVARIANT BaseUntouched
PROPERTY SameAnswerEveryTime
CHECK_DEADLOCK FALSE
