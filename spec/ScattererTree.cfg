SPECIFICATION Spec
CONSTANT MaxMembers = 2
CONSTANT MaxEdits = 1
INVARIANT EditedAreKeys
INVARIANT OneKeyPerLeafArgument
PROPERTY ShapeFixedByEdits
CHECK_DEADLOCK FALSE
