SPECIFICATION ScanSpec
CONSTANT MaxCalls = 3
PROPERTY LogOnlyGrows
PROPERTY ClassNeverChanges
CHECK_DEADLOCK FALSE
