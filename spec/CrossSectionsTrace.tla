-------------------------- MODULE CrossSectionsTrace --------------------------
(* C03: one event per configuration class with the quantised defect of every relation   *)
(* that CrossSections.tla asserts for it (code -> spec).  -20000 = exact.               *)
EXTENDS TraceIO, Tolerances
VARIABLES tid, l
Has(e, f) == f \in DOMAIN e
AbsTol(e) == IF e.layered = TRUE THEN Tol_cs_abs_layered ELSE Tol_cs_abs_nonneg
\* a true cluster (>= 2 spheres, multi-sphere solver with its default truncation 1e-5)
ClusterClauses(e) ==
  [ ext_is_sum      |-> e.mb_ext_is_sum <= Tol_cs_ext_is_sum,
    abs_nonneg      |-> e.mb_abs_neg_part <= Tol_cs_cluster,
    abs_zero_real   |-> (e.index_real = TRUE) => e.mb_abs_over_ext <= Tol_cs_cluster,
    sca_pos         |-> e.sca_pos = TRUE,
    g_range         |-> e.g_in_range = TRUE,
    optical_theorem |-> e.mb_optical_theorem <= Tol_cs_cluster,
    sca_integral    |-> e.mb_sca_integral <= Tol_cs_cluster_integral,
    g_integral      |-> e.mb_g_integral <= Tol_cs_cluster_integral ]
SphereClauses(e) ==
  [ ext_is_sum      |-> e.mb_ext_is_sum <= Tol_cs_ext_is_sum,
    abs_nonneg      |-> e.mb_abs_neg_part <= AbsTol(e),
    abs_zero_real   |-> (e.index_real = TRUE) => e.mb_abs_over_ext <= AbsTol(e),
    sca_pos         |-> e.sca_pos = TRUE,
    g_range         |-> e.g_in_range = TRUE,
    optical_theorem |-> e.mb_optical_theorem <= (IF e.bigx = TRUE THEN Tol_cs_optical_big ELSE Tol_cs_optical),
    sca_integral    |-> e.mb_sca_integral <= Tol_cs_integral,
    g_integral      |-> e.mb_g_integral <= Tol_cs_integral,
    rayleigh        |-> e.mb_rayleigh <= Tol_cs_rayleigh,
    textbook        |-> e.mb_textbook <= (IF e.bigx = TRUE THEN Tol_cs_optical_big ELSE Tol_cs_textbook),
    multisphere     |-> e.mb_multisphere <= Tol_cs_multisphere ]
Clauses(e) == IF e.event = "ClusterCrossSections" THEN ClusterClauses(e) ELSE SphereClauses(e)
StepOK(e) == \A k \in DOMAIN Clauses(e) : Clauses(e)[k]
Init == /\ tid \in Tids /\ l = 1 /\ TLCSet(tid, 1)
Step == /\ l <= Len(Traces[tid]) /\ StepOK(Traces[tid][l])
        /\ l' = l + 1 /\ UNCHANGED tid /\ TLCSet(tid, l + 1)
Spec == Init /\ [][Step]_<<tid, l>>
Accepted == \A t \in Tids : Verdict(t, Clauses)
=============================================================================
