SPECIFICATION Spec
CONSTANTS
  Mode = "ctor"
  MaxDepth = 2
  Bound = 10000
INVARIANT DefaultGuessInSupport
INVARIANT BoundsAreInside
INVARIANT UniformIntegratesToOne
PROPERTY IdentityKeepsGuess
CHECK_DEADLOCK FALSE
