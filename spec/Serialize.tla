------------------------------ MODULE Serialize ------------------------------
(***************************************************************************)
(* C15.  A HoloPy object is a term: a class with constructor arguments;    *)
(* each argument slot holds a value of some *kind*.  Save writes the text  *)
(* form, Load reads it back.  The specification says what each kind must   *)
(* come back as (Norm): numbers as equal numbers, tuples and 1-d arrays as *)
(* lists, an explicit None as None, nested objects and priors recursively. *)
(* cycles counts consecutive save/load cycles; the text after the first    *)
(* cycle never changes again (SaveIdempotent); the library's own == holds  *)
(* exactly when every sequence argument was a list to begin with.          *)
(***************************************************************************)
EXTENDS Integers, Sequences, FiniteSets

CONSTANTS NSlots, MaxCycles

VARIABLES slots, target, cycles, value
vars == <<slots, target, cycles, value>>

ScalarKinds == {"float", "float_tiny", "float_huge", "neg_zero", "int", "complex", "np_float64", "np_int64",
                "np_complex128", "zero_d_array", "np_float32", "none_explicit",
                "complex_neg", "np_complex_neg"}         \* negative imaginary part (text form "a-bj")
SeqKinds == {"list", "tuple", "array1d", "list_of_np"}
ObjKinds == {"nested_object", "prior", "derived_prior", "ufunc_prior", "complex_prior",
             "prior_half_open", "prior_unbounded", "prior_guess_on_bound",   \* improper priors, guess = a bound
             "rdiv_prior", "rsub_prior", "neg_prior", "rpow_prior"}            \* reflected operators: c / p, c - p, -p, c ** p
Kinds == ScalarKinds \cup SeqKinds \cup ObjKinds

Norm(k) == IF k \in {"tuple", "array1d", "list_of_np"} THEN "list"
           ELSE IF k \in {"np_float64", "zero_d_array", "np_float32"} THEN "float"
           ELSE IF k = "np_int64" THEN "int"
           ELSE IF k = "np_complex128" THEN "complex"
           ELSE IF k = "np_complex_neg" THEN "complex_neg"
           ELSE k
EqHolds(s) == \A i \in 1..NSlots : s[i] \notin {"tuple", "array1d"}     \* == compares containers by type

Init == /\ slots \in [1..NSlots -> Kinds] /\ target \in {"file", "stream", "file_no_extension"}
        /\ cycles = 0 /\ value = slots
SaveLoad == /\ cycles < MaxCycles
            /\ value' = [i \in 1..NSlots |-> Norm(value[i])]
            /\ cycles' = cycles + 1 /\ UNCHANGED <<slots, target>>
Next == SaveLoad
Spec == Init /\ [][Next]_vars

LoadSaveIsNorm == cycles >= 1 => value = [i \in 1..NSlots |-> Norm(slots[i])]
SaveIdempotent == [][cycles >= 1 => value' = value]_vars
ExplicitNonePreserved == \A i \in 1..NSlots : slots[i] = "none_explicit" => value[i] = "none_explicit"
=============================================================================
