---------------------------- MODULE DetectorViews ----------------------------
(***************************************************************************)
(* C07.  A detector is a set of pixels on an integer lattice (positions in *)
(* integer units: origin + index * spacing).  A *view* is an ordered list  *)
(* of positions: the whole grid (row-major, as stack(x,y) does), a cropped *)
(* sub-grid, an explicit point list, or a pixel subset given by flat       *)
(* indices.  The forward calculation is a function of position only, so    *)
(* (a point list may also mix two detector heights: "points3", positions    *)
(* then carry the height index as a third entry).                           *)
(* Calc(view)[k] depends on view[k] alone and selecting commutes with      *)
(* calculating.  `pos` is the exact position of every element of the view. *)
(***************************************************************************)
EXTENDS Integers, Sequences, FiniteSets

CONSTANTS MaxN

VARIABLES grid,   \* [nx, ny, sx, sy, ox, oy]
          view,   \* [kind, ...]
          pos     \* sequence of <<X, Y>> (or <<X, Y, H>>) lattice positions of the view's elements, in order

vars == <<grid, view, pos>>

Grids == [nx : 1..MaxN, ny : 1..MaxN, sx : {1, 2}, sy : {1, 3}, ox : {0, 5}, oy : {0, -2}]

Mod(a, b) == a - b * (a \div b)
PosOf(g, i, j) == <<g.ox + i * g.sx, g.oy + j * g.sy>>           \* 0-based pixel (i, j)
FlatToIJ(g, f) == <<f \div g.ny, Mod(f, g.ny)>>                       \* flat index, row-major
GridSeq(g) == [f \in 1..(g.nx * g.ny) |-> PosOf(g, FlatToIJ(g, f - 1)[1], FlatToIJ(g, f - 1)[2])]
CropSeq(g, lo, sh) == [f \in 1..(sh[1] * sh[2]) |->
                         PosOf(g, lo[1] + (f - 1) \div sh[2], lo[2] + Mod(f - 1, sh[2]))]
Reverse(s) == [k \in 1..Len(s) |-> s[Len(s) + 1 - k]]
EveryOther(s) == [k \in 1..((Len(s) + 1) \div 2) |-> s[2 * k - 1]]

Views(g) ==
   {[kind |-> "grid"]}
   \cup {[kind |-> "crop", lo |-> lo, sh |-> sh] :
            lo \in (0..g.nx - 1) \X (0..g.ny - 1), sh \in (1..g.nx) \X (1..g.ny)}
   \cup {[kind |-> "points", order |-> o] : o \in {"same", "reversed", "every_other"}}
   \cup {[kind |-> "points3", order |-> o] : o \in {"stacked", "interleaved", "upper_first"}}

\* the same lattice at two heights H = 0, 1 in one point list
Lift(s, h) == [k \in DOMAIN s |-> <<s[k][1], s[k][2], h>>]
Interleave(a, b) == [k \in 1..(2 * Len(a)) |-> IF Mod(k, 2) = 1 THEN a[(k + 1) \div 2] ELSE b[k \div 2]]
TwoHeights(g, o) == IF o = "stacked" THEN Lift(GridSeq(g), 0) \o Lift(GridSeq(g), 1)
                    ELSE IF o = "upper_first" THEN Lift(GridSeq(g), 1) \o Lift(GridSeq(g), 0)
                    ELSE Interleave(Lift(GridSeq(g), 0), Lift(GridSeq(g), 1))

ViewOK(g, v) == v.kind # "crop" \/ (v.lo[1] + v.sh[1] <= g.nx /\ v.lo[2] + v.sh[2] <= g.ny)

PosFor(g, v) == IF v.kind = "grid" THEN GridSeq(g)
                ELSE IF v.kind = "crop" THEN CropSeq(g, v.lo, v.sh)
                ELSE IF v.kind = "points3" THEN TwoHeights(g, v.order)
                ELSE IF v.order = "same" THEN GridSeq(g)
                ELSE IF v.order = "reversed" THEN Reverse(GridSeq(g))
                ELSE EveryOther(GridSeq(g))

Init == /\ grid \in Grids
        /\ view \in {v \in Views(grid) : ViewOK(grid, v)}
        /\ pos = PosFor(grid, view)
Next == UNCHANGED vars
Spec == Init /\ [][Next]_vars

(* laws *)
Range(s) == {s[k] : k \in DOMAIN s}
ViewWithinGrid == IF view.kind = "points3"
                  THEN Range(pos) = Range(Lift(GridSeq(grid), 0)) \cup Range(Lift(GridSeq(grid), 1))
                  ELSE Range(pos) \subseteq Range(GridSeq(grid))
GridHasDistinctPositions == Cardinality(Range(GridSeq(grid))) = grid.nx * grid.ny
CropIsSubgrid == view.kind = "crop" =>
   \A k \in DOMAIN pos : \E i \in 0..grid.nx - 1, j \in 0..grid.ny - 1 :
        /\ pos[k] = PosOf(grid, i, j)
        /\ i >= view.lo[1] /\ i < view.lo[1] + view.sh[1] /\ j >= view.lo[2] /\ j < view.lo[2] + view.sh[2]
=============================================================================
