---------------------------- MODULE ScattererTree ----------------------------
(***************************************************************************)
(* Extension X04 (beyond the listed properties).  A composite scatterer is *)
(* a tree: members are single shapes or composites of single shapes.  Its  *)
(* parameter dictionary has one key per argument of every leaf, the key    *)
(* being the path of member indices and the argument name joined by ":"    *)
(* ("1:0:r").  from_parameters(d) builds a NEW tree of the same shape in   *)
(* which exactly the keys present in d have the given values; the tree it  *)
(* was called on, and the dictionary `parameters` handed out earlier, are  *)
(* not connected to it.  add() appends a member; get_component_list() is   *)
(* the left-to-right list of leaves.                                       *)
(***************************************************************************)
EXTENDS Integers, Sequences, FiniteSets, TLC

CONSTANTS MaxMembers, MaxEdits

VARIABLES tree,      \* sequence of members: <<"leaf", kind>> or <<"nest", <<kind, ...>>>>
          edited,    \* set of keys whose value differs from the original
          nedits
vars == <<tree, edited, nedits>>

Leaves == {"sphere", "layered", "ellipsoid"}
Nests == {<<a>> : a \in Leaves} \cup {<<a, b>> : a \in {"sphere", "ellipsoid"}, b \in {"sphere", "layered"}}
Fields(k) == IF k = "ellipsoid" THEN {"n", "r", "rotation", "center"} ELSE {"n", "r", "center"}

Key1(i, f) == ToString(i - 1) \o ":" \o f
Key2(i, j, f) == ToString(i - 1) \o ":" \o ToString(j - 1) \o ":" \o f
KeysOf(t) == UNION {IF t[i][1] = "leaf" THEN {Key1(i, f) : f \in Fields(t[i][2])}
                    ELSE UNION {{Key2(i, j, f) : f \in Fields(t[i][2][j])} : j \in 1..Len(t[i][2])}
                    : i \in 1..Len(t)}
LeafList(t) == LET F[i \in 0..Len(t)] == IF i = 0 THEN <<>>
                                          ELSE F[i - 1] \o (IF t[i][1] = "leaf" THEN <<t[i][2]>> ELSE t[i][2])
               IN F[Len(t)]

\* every key any tree within the bounds can have (a constant set: TLC labels an edge with the
\* action's argument only if the quantifier ranges over one)
AllFields == {"n", "r", "rotation", "center"}
AllKeys == {Key1(i, f) : i \in 1..MaxMembers, f \in AllFields}
           \cup {Key2(i, j, f) : i \in 1..MaxMembers, j \in 1..2, f \in AllFields}
KeySets == {{a} : a \in AllKeys} \cup {{a, b} : a \in AllKeys, b \in AllKeys}

Init == tree = <<>> /\ edited = {} /\ nedits = 0
AddLeaf(k) == /\ Len(tree) < MaxMembers /\ nedits = 0
              /\ tree' = Append(tree, <<"leaf", k>>) /\ UNCHANGED <<edited, nedits>>
AddNest(ks) == /\ Len(tree) < MaxMembers /\ nedits = 0
               /\ tree' = Append(tree, <<"nest", ks>>) /\ UNCHANGED <<edited, nedits>>
Edit(K) == /\ nedits < MaxEdits /\ K # {} /\ K \subseteq KeysOf(tree) /\ Cardinality(K) <= 2
           /\ edited' = edited \cup K /\ nedits' = nedits + 1 /\ UNCHANGED tree
Next == (\E k \in Leaves : AddLeaf(k)) \/ (\E ks \in Nests : AddNest(ks))
        \/ (\E K \in KeySets : Edit(K))
Spec == Init /\ [][Next]_vars

EditedAreKeys == edited \subseteq KeysOf(tree)
OneKeyPerLeafArgument == Cardinality(KeysOf(tree)) =
     LET L == LeafList(tree) IN
     LET S[i \in 0..Len(L)] == IF i = 0 THEN 0 ELSE S[i - 1] + Cardinality(Fields(L[i])) IN S[Len(L)]
ShapeFixedByEdits == [][nedits' > nedits => tree' = tree]_vars
=============================================================================
