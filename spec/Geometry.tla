------------------------------ MODULE Geometry ------------------------------
(***************************************************************************)
(* C20.  Exact integer geometry of HoloPy's scatterer containment.         *)
(* Everything lives on the integer lattice, so "inside" (strict, as in the *)
(* analytic shapes: x^2+y^2+z^2 < r^2) is decided in integers and the      *)
(* float evaluation in the implementation is exact on the same points.     *)
(*                                                                         *)
(*  Mode "sphere"   : (layered) sphere, radii = increasing subset of 1..RMax*)
(*  Mode "ellipsoid": semi-axes from Axes (powers of two)                  *)
(*  Mode "csg"      : Union/Difference/Intersection of two spheres         *)
(*  Mode "cluster"  : Spheres collection of 2-3 members: overlaps, warning *)
(* Action Translate(v) moves the shape; the containment region moves with  *)
(* it (dom is recomputed from the new centre by the same analytic rule).   *)
(***************************************************************************)
EXTENDS Integers, Sequences, FiniteSets

CONSTANTS Mode, L, RMax, Axes, MaxShift

VARIABLES shape,   \* record describing the scatterer (mode-specific)
          center,  \* <<x,y,z>> integer centre (for csg: of the first operand)
          nshift,  \* number of translations applied
          obs      \* what the implementation must report for (shape, center): derived, exact

vars == <<shape, center, nshift, obs>>

Centers == {<<0, 0, 0>>, <<1, -1, 0>>, <<0, 2, 1>>}
Shifts  == {<<1, 0, 0>>, <<0, -2, 1>>}
Coord  == -L..L
Points == Coord \X Coord \X Coord
Sq(x)  == x * x
D2(p, q) == Sq(p[1] - q[1]) + Sq(p[2] - q[2]) + Sq(p[3] - q[3])
Plus(p, q) == <<p[1] + q[1], p[2] + q[2], p[3] + q[3]>>

(* layered sphere: radii <<r1 < r2 < ...>>; domain = index of first layer containing p *)
LayerOf(radii, c, p) ==
   IF \A i \in 1..Len(radii) : D2(p, c) >= Sq(radii[i]) THEN 0
   ELSE CHOOSE i \in 1..Len(radii) :
          /\ D2(p, c) < Sq(radii[i])
          /\ \A j \in 1..Len(radii) : D2(p, c) < Sq(radii[j]) => i <= j
InSphere(r, c, p) == D2(p, c) < Sq(r)
OnSphere(r, c, p) == D2(p, c) = Sq(r)

(* ellipsoid, semi-axes a = <<ax,ay,az>>:  sum (x/a)^2 < 1  in integers *)
EllLhs(a, c, p) == Sq(p[1] - c[1]) * Sq(a[2]) * Sq(a[3]) + Sq(p[2] - c[2]) * Sq(a[1]) * Sq(a[3])
                   + Sq(p[3] - c[3]) * Sq(a[1]) * Sq(a[2])
InEllipsoid(a, c, p) == EllLhs(a, c, p) < Sq(a[1]) * Sq(a[2]) * Sq(a[3])

(* derived: what the implementation must report (used by the replay through the   *)
(* state's parameters; restated here so that TLC checks the laws)                 *)
DomainAt(sh, c, p) ==
   IF Mode = "sphere" THEN LayerOf(sh.radii, c, p)
   ELSE IF Mode = "ellipsoid" THEN (IF InEllipsoid(sh.axes, c, p) THEN 1 ELSE 0)
   ELSE IF Mode = "csg" THEN
        LET a == InSphere(sh.r1, c, p)
            b == InSphere(sh.r2, Plus(c, sh.c2), p)
        IN IF (sh.op = "Union" /\ (a \/ b)) \/ (sh.op = "Difference" /\ a /\ ~b)
              \/ (sh.op = "Intersection" /\ a /\ b) THEN 1 ELSE 0
   ELSE 0
Domain(p) == DomainAt(shape, center, p)

(* cluster: member list, overlapping pairs (strict: touching spheres do not overlap) *)
MembersOf(sh) == IF Mode = "cluster"
           THEN <<<<sh.r1, <<0, 0, 0>>>>, <<sh.r2, sh.c2>>>> \o
                (IF sh.third = <<>> THEN <<>> ELSE <<sh.third>>)
           ELSE <<>>
OverlapsOf(sh) == LET M == MembersOf(sh) IN
   {<<i, j>> \in (1..Len(M)) \X (1..Len(M)) :
               i < j /\ D2(M[i][2], M[j][2]) < Sq(M[i][1] + M[j][1])}
Members == MembersOf(shape)
Overlaps == OverlapsOf(shape)
MustWarn == Overlaps # {} /\ shape.warn

NDom(sh) == IF Mode = "sphere" THEN Len(sh.radii) ELSE 1
(* constructor table: which argument classes must be rejected (InvalidScatterer)        *)
(*   rsign: sign of the radius; clen: length of the centre (0 = a bare scalar);        *)
(*   member: kind of the second member handed to Spheres;  rform: how the radius is    *)
(*   written (a negative layer radius anywhere in a layered sphere is as invalid)      *)
CtorAccepts(sh) ==
   IF sh.what = "Sphere" THEN sh.rsign >= 0 /\ sh.clen = 3
   ELSE sh.member = "sphere" /\ sh.rsign >= 0 /\ sh.clen = 3

ObsOf(sh, c) ==
   IF Mode = "ctor" THEN [accept |-> CtorAccepts(sh)] ELSE
   IF Mode = "cluster"
   THEN LET M == MembersOf(sh) IN
        [overlaps |-> OverlapsOf(sh), warn |-> (OverlapsOf(sh) # {} /\ sh.warn),
         pairs |-> {<<i, j, M[i][1] + M[j][1], D2(M[i][2], M[j][2])>> :
                       <<i, j>> \in {q \in (1..Len(M)) \X (1..Len(M)) : q[1] < q[2]}}]
   ELSE [inside |-> [i \in 1..NDom(sh) |-> {p \in Points : DomainAt(sh, c, p) = i}],
         surface |-> IF Mode = "sphere"
                     THEN {p \in Points : OnSphere(sh.radii[Len(sh.radii)], c, p)}
                     ELSE IF Mode = "ellipsoid"
                     THEN {p \in Points : EllLhs(sh.axes, c, p) = Sq(sh.axes[1]) * Sq(sh.axes[2]) * Sq(sh.axes[3])}
                     ELSE {}]


IncSeqs == {s \in UNION {[1..n -> 1..RMax] : n \in 1..RMax} :
              \A i \in 1..Len(s) - 1 : s[i] < s[i + 1]}

Ops == {"Union", "Difference", "Intersection"}

Init ==
  /\ nshift = 0
  /\ \/ /\ Mode = "sphere" /\ center \in Centers
        /\ shape \in {[radii |-> s] : s \in IncSeqs}
     \/ /\ Mode = "ellipsoid" /\ center \in Centers
        /\ shape \in {[axes |-> <<a, b, c>>] : a \in Axes, b \in Axes, c \in Axes}
     \/ /\ Mode = "csg" /\ center = <<0, 0, 0>>
        /\ shape \in {[op |-> o, r1 |-> r1, r2 |-> r2, c2 |-> c2] :
                        o \in Ops, r1 \in 1..RMax, r2 \in 1..RMax, c2 \in Centers}
     \/ /\ Mode = "cluster" /\ center = <<0, 0, 0>>
        /\ shape \in {[r1 |-> r1, r2 |-> r2, c2 |-> c2, third |-> t, warn |-> w] :
                        r1 \in 1..RMax, r2 \in 1..RMax, c2 \in (-3..3) \X (-3..3) \X (-3..3),
                        t \in {<<>>, <<1, <<0, 0, 2>>>>, <<2, <<5, 0, 0>>>>}, w \in BOOLEAN}
     \/ /\ Mode = "ctor" /\ center = <<0, 0, 0>>
        /\ shape \in {[what |-> w, rsign |-> rs, clen |-> cl, member |-> mk, rform |-> rf] :
                        w \in {"Sphere", "Spheres"}, rs \in {-1, 0, 1}, cl \in {0, 2, 3, 4, 13, 31},   \* 13 / 31: three numbers as a 1 x 3 / 3 x 1 nested list
                        mk \in {"sphere", "ellipsoid", "number"},
                        \* how the radius is written: one number, or the radii of two layers (one of
                        \* them carrying the sign) as a list, tuple or array
                        rf \in {"scalar", "list_inner", "tuple_inner", "array_inner", "list_outer", "tuple_outer"}}
  /\ obs = ObsOf(shape, center)

Translate(v) == /\ nshift < MaxShift /\ Mode # "cluster"
                /\ center' = Plus(center, v) /\ nshift' = nshift + 1
                /\ UNCHANGED shape
                /\ obs' = ObsOf(shape, center')

Next == \E v \in Shifts : Translate(v)
Spec == Init /\ [][Next]_vars

-----------------------------------------------------------------------------
(* laws *)
OuterLayerIsUnionOfLayers == Mode = "sphere" =>
   \A p \in Points : (Domain(p) > 0) <=> InSphere(shape.radii[Len(shape.radii)], center, p)
LayersNested == Mode = "sphere" =>
   \A p \in Points : \A i \in 1..Len(shape.radii) :
       InSphere(shape.radii[i], center, p) => Domain(p) <= i /\ Domain(p) > 0
TranslateMovesRegion ==    \* the containment region moves with the scatterer
   [][(Mode \in {"sphere", "ellipsoid", "csg"}) =>
       (\A v \in Shifts : (nshift' = nshift + 1 /\ center' = Plus(center, v)) =>
          (\A i \in DOMAIN obs.inside :
              {p \in obs'.inside[i] : Plus(p, <<-v[1], -v[2], -v[3]>>) \in Points}
                = {Plus(p, v) : p \in {q \in obs.inside[i] : Plus(q, v) \in Points}}))]_vars
CsgLaws == Mode = "csg" =>
   \A p \in Points :
      LET a == InSphere(shape.r1, center, p)
          b == InSphere(shape.r2, Plus(center, shape.c2), p)
      IN /\ (shape.op = "Difference" => (Domain(p) = 1 => a))
         /\ (shape.op = "Intersection" => (Domain(p) = 1 => a /\ b))
         /\ (shape.op = "Union" => ((a \/ b) => Domain(p) = 1))
NestedSpheresOverlap == Mode = "cluster" =>
   ((D2(<<0, 0, 0>>, shape.c2) < Sq(shape.r1 - shape.r2) /\ shape.r1 # shape.r2) => <<1, 2>> \in Overlaps)
TouchingDoNotOverlap == Mode = "cluster" =>
   ((D2(<<0, 0, 0>>, shape.c2) = Sq(shape.r1 + shape.r2)) => <<1, 2>> \notin Overlaps)
=============================================================================
