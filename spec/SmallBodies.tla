----------------------------- MODULE SmallBodies -----------------------------
(***************************************************************************)
(* Extension X12 (beyond the listed properties).  Bodies much smaller than *)
(* the wavelength scatter like dipoles: the forward amplitude is           *)
(*        S(0) = i k^3 alpha / (4 pi)      (to leading order in k a)       *)
(* with alpha the electrostatic polarisability of the body for the field   *)
(* direction in question.  For a spheroid alpha = V (m^2-1)/(1+L(m^2-1))   *)
(* with the depolarisation factor L of that direction (L_axis + 2 L_perp   *)
(* = 1); a sphere has L = 1/3.  The specification enumerates the bodies,   *)
(* their aspect class, the field direction relative to the body's axis and *)
(* says which closed form or bound applies:                                *)
(*   sphere, spheroid      "exact": the closed form, to the accuracy of    *)
(*                         the leading order                               *)
(*   cylinder              "bracketed": between the spheroid of the same   *)
(*                         volume and aspect ratio -15 % and +15 %         *)
(* and, whatever the body, "volume": doubling every length multiplies the  *)
(* amplitude by eight.  (The listed properties fix the T-matrix results    *)
(* for spheres and their symmetries; nothing there ties the SIZE of a      *)
(* spheroid or cylinder to its amplitude.)                                 *)
(***************************************************************************)
EXTENDS Integers, Sequences

VARIABLES body, done
vars == <<body, done>>

Kinds == {"sphere", "spheroid", "cylinder"}
Aspects == {"compact", "prolate_2", "oblate_2"}       \* length along the axis / width: 1, 2, 1/2
Fields == {"along_axis", "across_axis"}
Routes == {"Mie", "Tmatrix"}

Valid(b) == /\ (b.kind = "sphere" => (b.aspect = "compact" /\ b.field = "along_axis"))
            /\ (b.route = "Mie" => b.kind = "sphere")
Law(b) == IF b.kind = "cylinder" THEN "bracketed" ELSE "exact"

Init == body \in {b \in [kind : Kinds, aspect : Aspects, field : Fields, route : Routes] : Valid(b)} /\ done = FALSE
Measure == ~done /\ done' = TRUE /\ UNCHANGED body
Next == Measure
Spec == Init /\ [][Next]_vars
EveryBodyHasALaw == Law(body) \in {"exact", "bracketed"}
=============================================================================
