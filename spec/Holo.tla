--------------------------------- MODULE Holo ---------------------------------
(***************************************************************************)
(* C01.  Mode "request": one public hologram calculation as the staged     *)
(* pipeline the implementation has: PrepSchema (merge optics given as      *)
(* keyword arguments over the detector's own metadata; a missing value is  *)
(* reported in the order wavelength, medium index, polarisation), Field,   *)
(* Scale, Interfere, Finalize.  The result lies on the detector's          *)
(* coordinates, carries the detector's name and the merged metadata, and   *)
(* its value is the expression |alpha E + p|^2 (alpha = 0 gives 1).        *)
(* Mode "history": sequences of calls over a catalogue of configurations   *)
(* chosen to leave stale state behind in the compiled solvers (large then  *)
(* small T-matrix particle, 3-sphere then 2-sphere cluster, ...).  The     *)
(* hidden register `stale` is written by every call and must never be      *)
(* read: the result of a call is a function of its request alone.          *)
(***************************************************************************)
EXTENDS Integers, Sequences, FiniteSets

CONSTANTS Mode, MaxCalls

VARIABLES req, stage, attrs, outcome, log, stale
vars == <<req, stage, attrs, outcome, log, stale>>

ScatKinds == {"sphere", "layered", "spheres_mie", "spheres_multisphere", "spheroid", "cylinder", "sphere_mielens", "sphere_lens",
              "metal_coated_large"}      \* a 15-micron bead under a thin gold coat: the largest arguments the layered recursion sees
\* multichannel_permuted: two illumination channels whose wavelength, polarisation and scaling are
\* given per channel as dictionaries, each listing the channels in its own order (none in the detector's)
\* pixel_subset: the detector is a flat random subset of a grid's pixels;  raised_plane: a grid whose own z is not 0
DetKinds == {"square", "rect_aniso", "shifted_origin", "one_by_n", "points", "multichannel", "multichannel_permuted",
             "pixel_subset", "raised_plane", "points_spherical"}     \* the last: points given by (r, theta, phi), r finite
Pols == {"x", "z24_3", "z24_8", "unnormalised", "unnormalised3"}   \* the last given with three components
Alphas == {"zero", "one", "fraction", "negative"}
Where == {"kw", "det", "both", "missing"}
OptKeys == <<"illum_wavelen", "medium_index", "illum_polarization">>

Compatible(r) ==
   /\ (r.scat \in {"spheroid", "cylinder"} => r.pol = "x")                 \* T-matrix: x polarisation only
   /\ (r.det = "points_spherical" => r.scat \notin {"sphere_mielens", "sphere_lens"})   \* lens theories: one detector height
   /\ (r.scat = "sphere_mielens" => r.det # "points")                       \* lens theories: fixed detector z
   /\ (r.det \in {"multichannel", "multichannel_permuted"} => r.scat \in {"sphere", "layered", "spheres_mie"})
   /\ (r.det = "multichannel_permuted" => r.pol = "x")      \* the per-channel polarisations are fixed by the harness

Requests == {r \in [scat : ScatKinds, det : DetKinds, pol : Pols, alpha : Alphas,
                    wl : Where, mi : Where, po : Where] : Compatible(r)}

Src(w) == IF w \in {"kw", "both"} THEN "kw" ELSE IF w = "det" THEN "det" ELSE "none"
FirstMissing(r) == IF Src(r.wl) = "none" THEN "wavelength"
                   ELSE IF Src(r.mi) = "none" THEN "medium refractive index"
                   ELSE IF Src(r.po) = "none" THEN "polarization" ELSE "nothing"

Catalogue == 1..12           \* stale-state catalogue, concretised by the harness

Init ==
   \/ /\ Mode = "request" /\ req \in Requests /\ stage = "start" /\ attrs = <<>> /\ outcome = "pending"
      /\ log = <<>> /\ stale = 0
   \/ /\ Mode = "history" /\ req = <<>> /\ stage = "idle" /\ attrs = <<>> /\ outcome = "pending"
      /\ log = <<>> /\ stale = 0

PrepSchema == /\ Mode = "request" /\ stage = "start"
              /\ IF FirstMissing(req) # "nothing"
                 THEN outcome' = <<"MissingParameter", FirstMissing(req)>> /\ stage' = "done" /\ attrs' = attrs
                 ELSE /\ attrs' = [k \in {"illum_wavelen", "medium_index", "illum_polarization"} |->
                                     IF k = "illum_wavelen" THEN Src(req.wl)
                                     ELSE IF k = "medium_index" THEN Src(req.mi) ELSE Src(req.po)]
                      /\ stage' = "schema" /\ outcome' = outcome
              /\ UNCHANGED <<req, log, stale>>
Field     == Mode = "request" /\ stage = "schema" /\ stage' = "field" /\ UNCHANGED <<req, attrs, outcome, log, stale>>
Interfere == /\ Mode = "request" /\ stage = "field"
             /\ outcome' = IF req.alpha = "zero" THEN <<"hologram", "exactly_one">> ELSE <<"hologram", "abs2_alphaE_plus_p">>
             /\ stage' = "done" /\ UNCHANGED <<req, attrs, log, stale>>

Call(c) == /\ Mode = "history" /\ Len(log) < MaxCalls
           /\ log' = Append(log, c)
           /\ stale' = c                    \* what the compiled solvers' COMMON blocks now hold
           /\ outcome' = <<"result_of", c>>  \* a function of c alone: never of stale or log
           /\ UNCHANGED <<req, stage, attrs>>

Next == PrepSchema \/ Field \/ Interfere \/ (\E c \in Catalogue : Call(c))
Spec == Init /\ [][Next]_vars

KwWins == (Mode = "request" /\ stage \in {"schema", "field", "done"} /\ attrs # <<>>) =>
   /\ (req.wl = "both" => attrs["illum_wavelen"] = "kw")
   /\ (req.mi = "both" => attrs["medium_index"] = "kw")
   /\ (req.po = "both" => attrs["illum_polarization"] = "kw")
Scaling0IsOne == (Mode = "request" /\ stage = "done" /\ outcome[1] = "hologram" /\ req.alpha = "zero")
                   => outcome[2] = "exactly_one"
Deterministic == [][(Mode = "history" /\ log' # log) => outcome' = <<"result_of", log'[Len(log')]>>]_vars
=============================================================================
