SPECIFICATION Spec
CONSTANTS
  Mode = "h5"
  MaxCycles = 3
PROPERTY H5IsIdentity
PROPERTY UpdateTouchesOnlyNamed
INVARIANT AverageCountsFiles
VIEW View
CHECK_DEADLOCK FALSE
