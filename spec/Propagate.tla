----------------------------- MODULE Propagate -----------------------------
(***************************************************************************)
(* C17.  Propagation as a norm-bounded linear (semi)group action; fft and  *)
(* ifft as mutual inverses.  State-merging model: the abstract state is    *)
(* the *net* propagation distance (in units of a base distance d0) plus    *)
(* whether the evanescent mask has been applied; every path that reaches   *)
(* the same abstract state must give the same image.                       *)
(*                                                                         *)
(* What the code does (and the model says): the transfer function is       *)
(* exp(-i 2 pi d/lambda sqrt(1 - lambda^2 f^2)) where that root is real    *)
(* and 0 elsewhere.  So with coarse sampling (regime "band": no evanescent *)
(* frequency) propagation is a group action: d then -d is the identity.    *)
(* With fine sampling (regime "evan") the first non-zero step projects     *)
(* onto the propagating frequencies (masked = TRUE) and only the           *)
(* semigroup law and energy non-increase remain.                           *)
(*                                                                         *)
(* Actions: Prop(k, opt) one propagate() call by k*d0 with option opt      *)
(*   ("plain", "cfsp2", "cfsp3": cascaded propagation is a no-op on the    *)
(*   result); PropZero (distance 0 returns the input itself);              *)
(*   PropList(ks, opt) one call with a list of distances (may contain 0)   *)
(*   -> a stack, terminal: the plane LABELLED z = k*d0 is the single-       *)
(*   distance result for k (a single call is labelled with its distance);   *)
(*   Fft / Ifft in Mode "fft".                                              *)
(***************************************************************************)
EXTENDS Integers, Sequences, FiniteSets

CONSTANTS Mode, MaxN, MaxSteps

VARIABLES net,      \* net distance in units of d0 (Mode "prop"); domain in Mode "fft"
          masked,   \* evanescent mask applied at least once
          regime,   \* "band" | "evan"
          stack,    \* <<>> for a single image, else the sequence of net distances of the planes
          steps

vars == <<net, masked, regime, stack, steps>>

Ks == {-2, -1, 1, 2}
Opts == {"plain", "cfsp2", "cfsp3"}
Lists == {<<1, 2>>, <<-1, 0, 2>>, <<0, 1>>, <<2, 0, -2>>, <<-2, -1>>}

Init == /\ steps = 0 /\ stack = <<>> /\ masked = FALSE
        /\ \/ Mode = "prop" /\ net = 0 /\ regime \in {"band", "evan"}
           \/ Mode = "fft" /\ net = "space" /\ regime = "band"

Prop(k, opt) == /\ Mode = "prop" /\ stack = <<>> /\ steps < MaxSteps
                /\ net + k \in -MaxN..MaxN
                /\ net' = net + k
                /\ masked' = (masked \/ regime = "evan")
                /\ steps' = steps + 1 /\ UNCHANGED <<regime, stack>>

PropZero == /\ Mode = "prop" /\ stack = <<>> /\ steps < MaxSteps
            /\ steps' = steps + 1 /\ UNCHANGED <<net, masked, regime, stack>>

PropList(ks, opt) == /\ Mode = "prop" /\ stack = <<>> /\ steps < MaxSteps
                /\ stack' = [i \in 1..Len(ks) |-> net + ks[i]]
                /\ masked' = (masked \/ regime = "evan")
                /\ steps' = MaxSteps        \* terminal
                /\ UNCHANGED <<net, regime>>

Fft  == /\ Mode = "fft" /\ net = "space" /\ steps < MaxSteps
        /\ net' = "freq" /\ steps' = steps + 1 /\ UNCHANGED <<masked, regime, stack>>
Ifft == /\ Mode = "fft" /\ net = "freq" /\ steps < MaxSteps
        /\ net' = "space" /\ steps' = steps + 1 /\ UNCHANGED <<masked, regime, stack>>

Next == \/ \E k \in Ks, o \in Opts : Prop(k, o)
        \/ PropZero
        \/ \E ks \in Lists, o \in Opts : PropList(ks, o)
        \/ Fft \/ Ifft

Spec == Init /\ [][Next]_vars

(* the abstract state the image must be a function of *)
View == <<net, masked, regime, stack>>

BandNeverMasked == regime = "band" => ~masked
InverseInBand == [][(Mode = "prop" /\ regime = "band" /\ stack' = <<>> /\ net' = 0) => ~masked']_vars
NetAdds == [][(Mode = "prop" /\ stack' = <<>> /\ net' # net) => (net' - net) \in Ks]_vars
=============================================================================
