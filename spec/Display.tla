------------------------------- MODULE Display -------------------------------
(***************************************************************************)
(* Extension X03 (beyond the listed properties).  display_image, the step  *)
(* every picture passes through before it is shown or written to an image  *)
(* file: any array or image comes out as a (z, x, y[, colour]) stack whose *)
(* values are                                                              *)
(*   scaling "auto"      (v - min) / (max - min)        -> range [0, 1]    *)
(*   scaling (lo, hi)    (clip(v, lo, hi) - lo)/(hi-lo) -> within [0, 1]   *)
(*   scaling None        v unchanged                                       *)
(* of the magnitude for complex input; metadata is kept and the scaling    *)
(* used is recorded.  Applying it again with "auto" changes nothing        *)
(* (state merging: "normalised" is reached by one or by two applications). *)
(***************************************************************************)
EXTENDS Integers, Sequences, FiniteSets

CONSTANTS MaxSteps

VARIABLES input, range, steps
vars == <<input, range, steps>>

Forms == {"image_2d", "image_stack", "array_2d", "array_3d"}
Values == {"real", "complex", "nonnegative"}
Scalings == {"auto", "none", "pair_inside", "pair_outside"}
\* range of the current values: "raw" (as given), "unit" (min 0, max 1), "within_unit" (a subset of [0, 1])
Init == input \in [form : Forms, values : Values] /\ range = "raw" /\ steps = 0

Show(s) == /\ steps < MaxSteps
           /\ range' = IF s = "auto" THEN "unit"
                       ELSE IF s = "none" THEN range
                       ELSE "within_unit"          \* a window (wider than the data or clipping it): inside [0, 1]
           /\ steps' = steps + 1 /\ UNCHANGED input
Next == \E s \in Scalings : Show(s)
Spec == Init /\ [][Next]_vars

RangeOnlyShrinks == [][range # "raw" => range' # "raw"]_vars     \* once inside [0, 1], always inside
UnitOnlyByAuto == (range = "unit") => steps >= 1
=============================================================================
