SPECIFICATION Spec
CONSTANT MaxSteps = 2
INVARIANT UnitOnlyByAuto
PROPERTY RangeOnlyShrinks
CHECK_DEADLOCK FALSE
