SPECIFICATION Spec
CONSTANTS
  MaxExp = 4
  MaxSteps = 3
PROPERTY ScalesCompose
PROPERTY NormIdempotent
VIEW View
CHECK_DEADLOCK FALSE
