SPECIFICATION Spec
CONSTANT NEntries = 6
CONSTANT MaxBuilds = 3
INVARIANT OwnDescriptionOnly
PROPERTY NothingRewritten
CHECK_DEADLOCK FALSE
