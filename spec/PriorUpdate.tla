----------------------------- MODULE PriorUpdate -----------------------------
(***************************************************************************)
(* Extension X02 (beyond the listed properties).  Sequential inference:    *)
(* prior.updated(p, v, extra) turns the posterior summary v (value, plus,  *)
(* minus) of one round into the prior of the next.  What a prior keeps     *)
(* through any number of updates is its support and its name; what it      *)
(* takes from v is the centre, and as width the largest of plus, minus and *)
(* the floor `extra`.  A prior with bounds becomes a bounded Gaussian, one  *)
(* without a Gaussian - and stays that.                                    *)
(* generate_guess(parameters, n, scaling, seed): n x len(parameters)       *)
(* starting points, the offsets from the guesses proportional to `scaling` *)
(* for a fixed seed (scaling 0 = the guesses themselves).                  *)
(***************************************************************************)
EXTENDS Integers, Sequences, FiniteSets

CONSTANTS MaxUpdates

VARIABLES kind, bounds, named, width, n
vars == <<kind, bounds, named, width, n>>

Kinds == {"Uniform", "Gaussian", "BoundedGaussian"}
BoundKinds == {"none", "lower", "upper", "both"}       \* which bounds are finite
Dominant == {"plus", "minus", "floor", "tie"}          \* which of plus / minus / extra is the largest

Init == /\ kind \in Kinds /\ bounds \in BoundKinds /\ named \in BOOLEAN
        /\ (kind = "Gaussian" => bounds = "none")      \* a plain Gaussian has no bounds attribute
        /\ width = "own" /\ n = 0

HasBoundsAttribute(k) == k \in {"Uniform", "BoundedGaussian"}

Update(d) == /\ n < MaxUpdates
             /\ kind' = IF HasBoundsAttribute(kind) THEN "BoundedGaussian" ELSE "Gaussian"
             /\ width' = d
             /\ n' = n + 1
             /\ UNCHANGED <<bounds, named>>
Next == \E d \in Dominant : Update(d)
Spec == Init /\ [][Next]_vars

SupportNeverChanges == [][bounds' = bounds]_vars
NameNeverChanges == [][named' = named]_vars
KindSettles == [][n >= 1 => kind' = kind]_vars
GaussianOnlyWithoutBounds == (n >= 1 /\ kind = "Gaussian") => bounds = "none"
=============================================================================
