----------------------------- MODULE PriorTrace -----------------------------
(* C14, statistical / numeric clauses recorded from the real priors (code -> spec).      *)
(*  Sample   : n draws of a prior with seeded parameters over many decades:             *)
(*             all inside the declared support; Kolmogorov-Smirnov distance to the      *)
(*             declared CDF (x 1e6) below the p = 1e-9 critical value for n            *)
(*  Integral : quadrature of prob over the support equals 1 (millibel of |I - 1|)       *)
(*  LnProb   : lnprob = log(prob) at seeded points inside the support                  *)
(*  Scale    : unscale(scale(x)) = x                                                   *)
EXTENDS TraceIO, Tolerances
VARIABLES tid, l
Clauses(e) ==
  IF e.event = "Sample"
  THEN [in_support |-> e.n_outside = 0, follows_distribution |-> e.ks_e6 <= e.ks_crit_e6,
        size_honoured |-> e.shape_ok = TRUE]
  ELSE IF e.event = "Integral" THEN [integrates_to_one |-> e.mb <= Tol_prior_integral]
  ELSE IF e.event = "LnProb" THEN [lnprob_is_log_prob |-> e.mb <= Tol_exact_float]
  ELSE IF e.event = "Scale" THEN [scale_unscale_inverse |-> e.mb <= Tol_exact_float]
  ELSE [known_event |-> FALSE]
StepOK(e) == \A k \in DOMAIN Clauses(e) : Clauses(e)[k]
Init == /\ tid \in Tids /\ l = 1 /\ TLCSet(tid, 1)
Step == /\ l <= Len(Traces[tid]) /\ StepOK(Traces[tid][l])
        /\ l' = l + 1 /\ UNCHANGED tid /\ TLCSet(tid, l + 1)
Spec == Init /\ [][Step]_<<tid, l>>
Accepted == \A t \in Tids : Verdict(t, Clauses)
=============================================================================
