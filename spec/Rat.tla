-------------------------------- MODULE Rat --------------------------------
(* Exact rationals <<num, den>>, den > 0, in lowest terms.  Shared by ImgProc,   *)
(* ImageIO and PriorAlgebra.  The model bounds keep all values inside TLC's       *)
(* 32-bit integers.                                                              *)
EXTENDS Integers
Abs(x) == IF x < 0 THEN -x ELSE x
RECURSIVE Gcd(_, _)
Gcd(a, b) == IF b = 0 THEN a ELSE Gcd(b, a % b)
Norm(n, d) == IF n = 0 THEN <<0, 1>>
              ELSE LET s == IF d < 0 THEN -1 ELSE 1
                       g == Gcd(Abs(n), Abs(d))
                   IN <<(s * n) \div g, (s * d) \div g>>
R(n)       == <<n, 1>>
Add(a, b)  == Norm(a[1] * b[2] + b[1] * a[2], a[2] * b[2])
Neg(a)     == <<-a[1], a[2]>>
Sub(a, b)  == Add(a, Neg(b))
Mul(a, b)  == Norm(a[1] * b[1], a[2] * b[2])
Div(a, b)  == Norm(a[1] * b[2], a[2] * b[1])        \* b # 0
Lt(a, b)   == a[1] * b[2] < b[1] * a[2]
Le(a, b)   == a[1] * b[2] <= b[1] * a[2]
IsZero(a)  == a[1] = 0
=============================================================================
