------------------------------- MODULE Coords -------------------------------
(***************************************************************************)
(* C19.  Coordinate conversions, Euler rotations, rigid motion of          *)
(* composites -- as state-merging models.  The abstract state is a normal  *)
(* form; different behaviours that reach the same abstract state must      *)
(* leave the implementation with (numerically) the same value.  The replay *)
(* harness walks every edge of the dumped graph.                           *)
(*                                                                         *)
(* Mode "convert":  a point class in one of three coordinate systems;      *)
(*   Convert(to) changes the representation, never the point.  All paths   *)
(*   of length <= MaxSteps.  Singular classes only assert what is defined. *)
(* Mode "euler":  Euler angles as multiples of 15 degrees, written with    *)
(*   representatives k in -24..47; AddTurn(axis, +-24) and, for beta = 0,  *)
(*   Slide (alpha,0,gamma) -> (alpha+gamma,0,0) do not change the rotation.*)
(* Mode "composite": a composite of N members; Translate(v) by lattice     *)
(*   vectors (net translation is the state), Rotate(angles).               *)
(***************************************************************************)
EXTENDS Integers, Sequences, FiniteSets

CONSTANTS Mode, MaxSteps

VARIABLES pt,      \* convert: point class record; euler: <<ka,kb,kc>>; composite: members count
          sys,     \* convert: current system; euler: "rad"|"deg"; composite: net translation
          steps    \* path length so far

vars == <<pt, sys, steps>>

Systems == {"cartesian", "spherical", "cylindrical"}
Signs == {-1, 0, 1}
\* skew: one coordinate a million times smaller than the others (a point a hair off an axis or a
\* coordinate plane: azimuth within 1e-6 of 0, pi/2, ..., 2 pi; polar angle within 1e-6 of 0, pi/2, pi)
PointClasses == {[sx |-> a, sy |-> b, sz |-> c, mag |-> m, zkind |-> k, skew |-> w] :
                   a \in Signs, b \in Signs, c \in Signs,
                   m \in {"tiny", "unit", "huge"}, k \in {"scalar", "array"},
                   w \in {"none", "x_small", "y_small", "z_small"}}

(* what is well defined for a class *)
PhiDefined(p)   == p.sx # 0 \/ p.sy # 0
ThetaDefined(p) == p.sx # 0 \/ p.sy # 0 \/ p.sz # 0
(* exact facts the implementation must reproduce *)
ThetaQuadrant(p) == IF p.sz > 0 THEN (IF PhiDefined(p) THEN "open_upper" ELSE "zero")
                    ELSE IF p.sz < 0 THEN (IF PhiDefined(p) THEN "open_lower" ELSE "pi")
                    ELSE "half_pi"
PhiOctant(p) ==   \* which closed quarter of [0, 2pi) the azimuth lies in (axes are exact)
   IF p.sx > 0 /\ p.sy = 0 THEN "0"
   ELSE IF p.sx > 0 /\ p.sy > 0 THEN "(0,pi/2)"
   ELSE IF p.sx = 0 /\ p.sy > 0 THEN "pi/2"
   ELSE IF p.sx < 0 /\ p.sy > 0 THEN "(pi/2,pi)"
   ELSE IF p.sx < 0 /\ p.sy = 0 THEN "pi"
   ELSE IF p.sx < 0 /\ p.sy < 0 THEN "(pi,3pi/2)"
   ELSE IF p.sx = 0 /\ p.sy < 0 THEN "3pi/2"
   ELSE IF p.sx > 0 /\ p.sy < 0 THEN "(3pi/2,2pi)"
   ELSE "undefined"

A24 == 0..23
Reps == -24..47
Mod24(k) == k % 24
EulerNF(k) ==      \* the rotation denoted by representatives k = <<ka,kb,kc>>
   LET a == Mod24(k[1]) b == Mod24(k[2]) c == Mod24(k[3])
   IN IF b = 0 THEN <<Mod24(a + c), 0, 0>> ELSE <<a, b, c>>

Lattice == {<<1, 0, 0>>, <<0, -2, 1>>, <<-1, 1, 0>>}
Plus(p, q) == <<p[1] + q[1], p[2] + q[2], p[3] + q[3]>>

Init ==
   /\ steps = 0
   /\ \/ Mode = "convert" /\ pt \in PointClasses /\ sys = "cartesian"
      \/ Mode = "euler" /\ pt \in {<<a, b, c>> : a \in {0, 1, 5, 12, 17}, b \in {0, 3, 6, 12, 20}, c \in {0, 2, 7, 18}}
                        /\ sys \in {"rad", "deg"}
      \/ Mode = "composite" /\ pt \in 1..6 /\ sys = <<0, 0, 0>>

Convert(to) == /\ Mode = "convert" /\ steps < MaxSteps /\ to # sys
               /\ sys' = to /\ steps' = steps + 1 /\ UNCHANGED pt

AddTurn(axis, d) == /\ Mode = "euler" /\ steps < MaxSteps
                    /\ pt[axis] + d \in Reps
                    /\ pt' = [pt EXCEPT ![axis] = @ + d]
                    /\ steps' = steps + 1 /\ UNCHANGED sys

Slide == /\ Mode = "euler" /\ steps < MaxSteps /\ Mod24(pt[2]) = 0 /\ pt[3] # 0
         /\ pt[1] + pt[3] \in Reps
         /\ pt' = <<pt[1] + pt[3], pt[2], 0>>
         /\ steps' = steps + 1 /\ UNCHANGED sys

Translate(v) == /\ Mode = "composite" /\ steps < MaxSteps
                /\ sys' = Plus(sys, v) /\ steps' = steps + 1 /\ UNCHANGED pt

\* turning a composite about its own centroid leaves the centroid (the abstract state) where it is; the
\* replay turns the *result* of a turn again: the second turn is about the same centroid
Turn == /\ Mode = "composite" /\ steps < MaxSteps /\ steps' = steps + 1 /\ UNCHANGED <<pt, sys>>

Next == \/ \E to \in Systems : Convert(to)
        \/ Turn
        \/ \E axis \in {1, 2, 3}, d \in {-24, 24} : AddTurn(axis, d)
        \/ Slide
        \/ \E v \in Lattice : Translate(v)

Spec == Init /\ [][Next]_vars

(* views: the abstract state the implementation value must be a function of *)
ConvertView   == <<pt, sys>>
EulerView     == <<EulerNF(pt), sys>>
CompositeView == <<pt, sys>>

(* laws of the model *)
PointNeverChanges == [][Mode = "convert" => pt' = pt]_vars
RotationNeverChanges == [][(Mode = "euler") => (EulerNF(pt') = EulerNF(pt))]_vars
TranslationsCompose == [][(Mode = "composite") =>
                             (sys' = sys \/ \E v \in Lattice : sys' = Plus(sys, v))]_vars     \* a turn or a shift
=============================================================================
