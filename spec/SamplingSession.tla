--------------------------- MODULE SamplingSession ---------------------------
(***************************************************************************)
(* Extension X01 (beyond the listed properties).  A SamplingResult holds   *)
(* walkers x chain samples with their log-probabilities; its derived data  *)
(* (most probable sample, 1-sigma intervals) are functions of the samples  *)
(* it currently holds.                                                     *)
(*   BurnIn(k)  returns a NEW result without the first k chain steps; the  *)
(*              result it was called on is unchanged.  Burn-ins compose:   *)
(*              BurnIn(a) then BurnIn(b) = BurnIn(a + b)  (state merging:  *)
(*              the abstract state is the offset).                         *)
(*   Save/Load  give back an equivalent result (samples, log-probabilities,*)
(*              intervals, parameters, model, strategy).                   *)
(* The harness builds results from synthetic chains (the sampler itself    *)
(* needs a library that is not installed) and walks every path.            *)
(***************************************************************************)
EXTENDS Integers, Sequences, FiniteSets

CONSTANTS NChain, MaxSteps

VARIABLES offset,    \* chain steps removed so far from the result in hand
          origin,    \* offset of the result this one was derived from last (must stay what it was)
          stored,    \* -1: nothing saved; else the offset of the result in the file
          loaded,    \* -1: nothing loaded; else the offset of the loaded result
          steps
vars == <<offset, origin, stored, loaded, steps>>

Init == offset = 0 /\ origin = 0 /\ stored = -1 /\ loaded = -1 /\ steps = 0

BurnIn(k) == /\ steps < MaxSteps /\ k >= 0 /\ offset + k < NChain      \* at least one step is left
             /\ origin' = offset                \* the parent keeps its own samples
             /\ offset' = offset + k
             /\ steps' = steps + 1 /\ UNCHANGED <<stored, loaded>>
Save == /\ steps < MaxSteps /\ stored' = offset /\ steps' = steps + 1 /\ UNCHANGED <<offset, origin, loaded>>
Load == /\ steps < MaxSteps /\ stored >= 0 /\ loaded' = stored /\ steps' = steps + 1
        /\ UNCHANGED <<offset, origin, stored>>

Next == (\E k \in 0..NChain : BurnIn(k)) \/ Save \/ Load
Spec == Init /\ [][Next]_vars

View == <<offset, stored, loaded>>        \* how an offset was reached does not matter
SomethingLeft == offset < NChain
LoadedIsStored == [][loaded' # loaded => loaded' = stored]_vars    \* what comes back is what was in the file
OffsetsOnlyGrow == [][offset' >= offset]_vars
ParentUntouched == [][offset' # offset => origin' = offset]_vars
=============================================================================
