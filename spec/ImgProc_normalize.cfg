SPECIFICATION Spec
CONSTANTS
  Mode = "normalize"
  NX = 3
  NY = 3
  Vals = {1, 2, 3}
  MaxPush = 4
INVARIANT NormalizeMeanOne
INVARIANT NormalizeIdempotent
INVARIANT NormalizeScaleInv
INVARIANT ZeroKeepsPositive
INVARIANT ZeroInteriorMean4
INVARIANT ZeroFilledPositive
INVARIANT BgSelfIsOne
INVARIANT AccOrderFree
INVARIANT AccVarNonNeg
CHECK_DEADLOCK FALSE
