----------------------------- MODULE Tolerances -----------------------------
(* Single source of the numerical tolerances used by trace specifications and by the   *)
(* replay harness (lib/quant.py reads this file).  Unit: millibel of a relative         *)
(* defect, mb = floor(1000*log10(defect)); -12000 means 1e-12.                          *)
(* Each line: calibration = largest defect seen on the unchanged (repaired) tree.       *)
EXTENDS Integers
Tol_exact_float      == -12000  \* rational oracle vs float result (measured <= 5e-16)
Tol_detrend_abs      == -10000  \* plane removal, absolute on O(1) images (measured 8e-16)
Tol_center_mpx       == 1000    \* centre finder: |found-true| <= 1 px, in milli-pixels (measured <= 40)
Tol_voxel_fine       == -1500   \* voxel volume vs analytic at spacing r/20: 3e-2 (measured <= 8e-3)
Tol_overlap          == -12000  \* largest_overlap vs rsum - sqrt(d2)
Tol_prior_integral   == -8000   \* quadrature of prob over the support vs 1 (measured <= 1e-10)
Tol_view_commute     == -12000  \* value at a position: grid vs points/crop/subset (measured 0.0 .. 2e-16)
Tol_tm_sphere        == -5000   \* Tmatrix(sphere) vs far-field Mie, fields and S (measured <= 1.2e-6)
Tol_tm_identity      == -10000  \* same particle, different angle representation (measured <= 1e-15)
Tol_tm_symmetry      == -5500   \* mirror / rotation covariance of tilted particles (measured <= 3e-7)
Tol_layers           == -9000   \* layered-sphere description vs normal form (measured 1e-12)
Tol_S_mie            == -6000   \* Lorenz-Mie S vs textbook, x < 50 (single-precision constants: ~2e-8)
Tol_S_mie_big        == -4000   \* x >= 50: default continued-fraction tolerance (measured 1e-5)
Tol_S_pyseries       == -5500   \* pure-Python series, documented ~1e-6
Tol_mie_multisphere_default == -2000  \* default cluster-solver truncation qeps1=1e-5 (measured up to 3.9e-3 at x=23)
Tol_field_invariance == -8000    \* the same sphere seen from equivalent set-ups (raised with the detector; turned with the polarisation)
Tol_mie_multisphere_default_dense == -1500  \* relative index 2.5, x ~ 17..23 near field: measured 4e-5 .. 1.4e-2 (resonances)
Tol_mie_multisphere_tight_dense   == -3500  \* same class, tight settings: measured 4e-7 .. 9e-5
Tol_mie_multisphere_tight   == -4000  \* with eps=1e-12, qeps1=1e-9, qeps2=1e-12 (measured <= 9.2e-6)
Tol_cs_ext_is_sum    == -12000  \* ext - (sca + abs), relative (measured 0)
Tol_cs_abs_nonneg    == -9000   \* negative part of abs / ext; abs/ext for real index, homogeneous (measured <= 1.9e-11 at x=460)
Tol_cs_abs_layered   == -6000   \* same for layered spheres, x >= 0.08 (measured 1.5e-8 at x=0.09; precision degrades as x -> 0)
Tol_cs_optical       == -6000   \* 4 pi/k^2 Re S(0) vs ext (measured <= 1.6e-8)
Tol_cs_optical_big   == -4000   \* size parameter >= 50 (default continued-fraction tolerance)
Tol_cs_integral      == -5000   \* angular integrals by Gauss-Legendre quadrature (measured <= 4e-8)
Tol_cs_rayleigh      == -3500   \* Rayleigh formula at x ~ 1e-3: O(x^2) corrections
Tol_cs_textbook      == -6000   \* four numbers vs independent series
Tol_cs_cluster       == -4000   \* clusters, default truncation: |C_abs|/C_ext for real indices, optical theorem (measured 1e-5)
Tol_cs_cluster_integral == -3000 \* clusters: sca and g against a 40 x 64 product quadrature of |S e|^2 (calibrating)
Tol_cs_multisphere   == -3500   \* one-sphere cluster vs Mie (measured <= 1.3e-6 .. default truncation)
Tol_lens_interp      == -8000   \* MieLens interpolation on/off/check, window/degree variants (calibrating)
Tol_lens_quad        == -5000   \* MieLens default quadrature vs refined: "does not change" is judged at the same 1e-5 as the
                                \* agreement of the two routes (Tol_lens_numeric); was -6000 while calibrating, and the extreme
                                \* thorough-only class x=50, kz=300, angle 1.4 inside the cutoff measured 3e-6
Tol_lens_aberr0      == -11000  \* AberratedMieLens with zero coefficients vs MieLens (calibrating)
Tol_lens_numeric     == -5000   \* converged Lens(Mie) vs MieLens (measured 8e-9 at moderate classes)
Tol_fit_recover      == -6000   \* fitted vs generating parameters, relative (measured 1e-12 .. 1e-9)
Tol_fit_consistency  == -10000  \* result.hologram vs forward; max_lnprob vs lnposterior (measured 0)
Tol_fit_repeat       == -12000  \* second fit with the same objects (measured 0)
=============================================================================
