SPECIFICATION Spec
CONSTANT N = 8
INVARIANT OntoPrefix
INVARIANT TiedToMin
INVARIANT OrderPreserving
INVARIANT RankOfKept
CHECK_DEADLOCK FALSE
