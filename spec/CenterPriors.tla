---------------------------- MODULE CenterPriors ----------------------------
(***************************************************************************)
(* Extension X10 (beyond the listed properties).  make_center_priors(image,*)
(* z_range_extents, xy_uncertainty_pixels, z_range_units): the default     *)
(* priors for the position of a sphere seen in a hologram.  A request is   *)
(* an image (origin at zero or elsewhere, square or anisotropic pixels,    *)
(* square or oblong frame) and the options; the answer is three priors     *)
(* whose parameters the specification gives as expressions over the        *)
(* image's own numbers:                                                    *)
(*   x, y : Gaussian, mean = origin + (centre found, in pixels) x pitch of *)
(*          that axis, sd = uncertainty in pixels x pitch of that axis     *)
(*   z    : Uniform from 0 to  extents x (the longer side of the frame),   *)
(*          or exactly the pair given in data units (the option wins)      *)
(* The image is only read and asking again gives the same priors.          *)
(***************************************************************************)
EXTENDS Integers, Sequences

CONSTANTS MaxCalls

VARIABLES req, calls, answer, image
vars == <<req, calls, answer, image>>

Origins == {"at_zero", "shifted"}
Pitches == {"square_pixels", "oblong_pixels"}
Frames == {"square_frame", "wide_frame", "tall_frame"}
ZModes == {"default", "extents_3", "units_pair", "units_pair_and_extents"}
Uncs == {"one_pixel", "two_and_a_half"}

Requests == [origin : Origins, pitch : Pitches, frame : Frames, z : ZModes, unc : Uncs]

\* the expressions (tokens the harness evaluates on the image it built)
Mean(axis)  == <<"origin", axis, "+", "found", axis, "*", "pitch", axis>>
Sd(r, axis) == <<IF r.unc = "one_pixel" THEN "1" ELSE "2.5", "*", "pitch", axis>>
ZPrior(r) == IF r.z \in {"units_pair", "units_pair_and_extents"} THEN <<"pair_as_given">>
             ELSE <<"0", IF r.z = "default" THEN "5" ELSE "3", "*", "longer_side">>
Expected(r) == [x |-> [kind |-> "Gaussian", mean |-> Mean("x"), sd |-> Sd(r, "x")],
                y |-> [kind |-> "Gaussian", mean |-> Mean("y"), sd |-> Sd(r, "y")],
                z |-> [kind |-> "Uniform", range |-> ZPrior(r)]]
None == [x |-> "none", y |-> "none", z |-> "none"]

Init == req \in Requests /\ calls = 0 /\ answer = None /\ image = "as_given"
Call == /\ calls < MaxCalls /\ calls' = calls + 1
        /\ answer' = Expected(req) /\ image' = image /\ UNCHANGED req
Next == Call
Spec == Init /\ [][Next]_vars

ImageOnlyRead == image = "as_given"
SameAnswerEveryTime == [][calls >= 1 => answer' = answer]_vars
\* the two axes are treated alike: exchanging x and y in the request's expressions exchanges the priors
AxesAlike == calls >= 1 => (answer.x.kind = answer.y.kind /\ answer.x.sd[1] = answer.y.sd[1])
UnitsWin == (calls >= 1 /\ req.z = "units_pair_and_extents") => answer.z.range = <<"pair_as_given">>
=============================================================================
