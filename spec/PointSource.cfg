SPECIFICATION Spec
CONSTANT MaxCalls = 2
INVARIANT OnePlanePerDepth
INVARIANT LabelsAreTheDepths
INVARIANT ImageNeverEdited
INVARIANT AnswerForgetsHistory
CHECK_DEADLOCK FALSE
