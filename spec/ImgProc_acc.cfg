SPECIFICATION Spec
CONSTANTS
  Mode = "acc"
  NX = 3
  NY = 3
  Vals = {0, 1, 2}
  MaxPush = 4
INVARIANT NormalizeMeanOne
INVARIANT NormalizeIdempotent
INVARIANT NormalizeScaleInv
INVARIANT ZeroKeepsPositive
INVARIANT ZeroInteriorMean4
INVARIANT ZeroFilledPositive
INVARIANT BgSelfIsOne
INVARIANT AccOrderFree
INVARIANT AccVarNonNeg
CHECK_DEADLOCK FALSE
VIEW AccView
