------------------------------- MODULE Symmetry -------------------------------
(***************************************************************************)
(* C05.  The in-plane symmetry group acting on a whole configuration       *)
(* (scatterer, illumination polarisation, detector points):                *)
(*   Shift(v)  in-plane translation by a lattice vector (whole pixels) or  *)
(*             by an arbitrary vector (point detectors),                   *)
(*   RotZ(j)   rotation about the optical axis by j * 15 degrees (Z_24;    *)
(*             the harness adds one fixed irrational offset per run so no  *)
(*             angle is a multiple of 45 degrees),                         *)
(*   Mirror    reflection in the x-z plane.                                *)
(* The state is the group element applied so far, in the normal form       *)
(* <<shift, rot, mirrored>> meaning  Shift o RotZ o Mirror^m.  Hologram    *)
(* values at corresponding points never change; field vectors transform    *)
(* with the element.  TLC checks the composition laws of the normal form.  *)
(***************************************************************************)
EXTENDS Integers, Sequences

CONSTANTS MaxSteps

VARIABLES shift, rot, mir, steps
vars == <<shift, rot, mir, steps>>

Vecs == {<<1, 0>>, <<0, -2>>, <<-1, 1>>, <<3800, 3240>>}    \* the last: to the far corner of a millimetre-wide field of view
Plus(a, b) == <<a[1] + b[1], a[2] + b[2]>>

Init == shift = <<0, 0>> /\ rot = 0 /\ mir = FALSE /\ steps = 0

(* apply a further element on the left of the current one *)
Shift(v) == /\ steps < MaxSteps /\ shift' = Plus(shift, v)
            /\ steps' = steps + 1 /\ UNCHANGED <<rot, mir>>
(* the shift component is carried along symbolically: the harness applies elements to
   concrete coordinates, the model only tracks rotation and mirror exactly *)
RotZ(j) == /\ steps < MaxSteps /\ shift = <<0, 0>>
           /\ rot' = (rot + j) % 24 /\ steps' = steps + 1 /\ UNCHANGED <<shift, mir>>
Mirror == /\ steps < MaxSteps /\ shift = <<0, 0>>
          /\ mir' = ~mir /\ rot' = (24 - rot) % 24 /\ steps' = steps + 1 /\ UNCHANGED shift

Next == (\E v \in Vecs : Shift(v)) \/ (\E j \in {1, 5, 6, 12, 17} : RotZ(j)) \/ Mirror
Spec == Init /\ [][Next]_vars

RotationsCompose == [][(mir' = mir /\ shift' = shift /\ rot' # rot) => (rot' - rot) % 24 \in {1, 5, 6, 12, 17}]_vars
MirrorIsInvolution == [][(mir' # mir) => (rot' + rot) % 24 = 0]_vars
View == <<shift, rot, mir>>
=============================================================================
