SPECIFICATION Spec
CONSTANT MaxSteps = 2
INVARIANT KeysAreKnown
CHECK_DEADLOCK FALSE
