------------------------------ MODULE Posterior ------------------------------
(***************************************************************************)
(* C12.  Control flow of Model.lnposterior, one action per stage of the    *)
(* implementation, over abstract input classes:                            *)
(*   sup      : all parameter values inside their priors' support?        *)
(*   scat     : does substituting the values give a valid scatterer?       *)
(*   cons     : "none" | "ok" | "violated"   (LimitOverlaps constraint)    *)
(*   mnoise   : model noise  "none" | "scalar" | "prior"                   *)
(*   dnoise   : data noise   "absent" | "none" | "scalar"                  *)
(*   uniform  : are all priors Uniform?                                    *)
(*   mi       : where medium_index is given: "model"|"data"|"both"|"neither"*)
(*   pixels   : random pixel subset requested?                             *)
(*   kind     : "alpha_fixed" | "alpha_prior" | "exact"                    *)
(*   layered  : is the scatterer a layered sphere?  (invalid then means:   *)
(*              some, not all, layer radii negative)                       *)
(* With Rounds = 2 the same model is evaluated a second time: the caller   *)
(* either passes a new container of values or REUSES the first container   *)
(* after changing it in place (to other valid values, or to values that    *)
(* make the scatterer invalid); every round is the same control flow on    *)
(* the values it is given - nothing of round 1 may survive.                *)
(* The result is a class: "neginf", "finite", or "missing:<key>"; the      *)
(* forward model is called at most once, and never when the prior is -inf. *)
(***************************************************************************)
EXTENDS Integers, Sequences, FiniteSets

CONSTANTS Rounds

VARIABLES inp, stage, lnprior, noiseFrom, miFrom, forwardCalls, result, round, reuse

vars == <<inp, stage, lnprior, noiseFrom, miFrom, forwardCalls, result, round, reuse>>

Inputs == [sup : BOOLEAN, scat : BOOLEAN, cons : {"none", "ok", "violated"},
           mnoise : {"none", "scalar", "prior"}, dnoise : {"absent", "none", "scalar"},
           uniform : BOOLEAN, mi : {"model", "data", "both", "neither"},
           pixels : BOOLEAN, kind : {"alpha_fixed", "alpha_prior", "exact"}, layered : BOOLEAN,
           edge : BOOLEAN]      \* the index value sits exactly on the upper bound of its prior (still inside)

Init == /\ inp \in Inputs
        /\ (inp.cons # "none" => inp.scat)       \* the constraint is only evaluated on a valid scatterer
        /\ (inp.layered => inp.cons = "none")    \* layered spheres appear alone
        /\ (inp.edge => (inp.sup /\ inp.cons = "none" /\ ~inp.layered /\ inp.mi = "model" /\ ~inp.pixels))
        /\ (Rounds = 2 => (inp.cons = "none" /\ inp.mnoise = "scalar" /\ inp.mi = "model" /\ inp.uniform
                           /\ inp.dnoise = "absent" /\ ~inp.pixels /\ ~inp.edge))
        /\ round = 1 /\ reuse = "first"
        /\ stage = "start" /\ lnprior = "unknown" /\ noiseFrom = "unknown" /\ miFrom = "unknown"
        /\ forwardCalls = 0 /\ result = "pending"

EvalPrior == /\ stage = "start"
             /\ lnprior' = IF ~inp.scat \/ inp.cons = "violated" \/ ~inp.sup THEN "neginf" ELSE "finite"
             /\ stage' = "prior"
             /\ UNCHANGED <<inp, noiseFrom, miFrom, forwardCalls, result, round, reuse>>

ShortCircuit == /\ stage = "prior" /\ lnprior = "neginf"
                /\ result' = "neginf" /\ stage' = "done"
                /\ UNCHANGED <<inp, lnprior, noiseFrom, miFrom, forwardCalls, round, reuse>>

Subset == /\ stage = "prior" /\ lnprior = "finite"
          /\ stage' = "subset"
          /\ UNCHANGED <<inp, lnprior, noiseFrom, miFrom, forwardCalls, result, round, reuse>>

(* noise: the model's if given, else the data's; None is allowed only for all-uniform priors *)
NoiseSource == IF inp.mnoise # "none" THEN "model"
               ELSE IF inp.dnoise = "scalar" THEN "data"
               ELSE IF inp.dnoise = "none" THEN (IF inp.uniform /\ inp.mnoise = "none" THEN "unit" ELSE "missing")
               ELSE "missing"
FindNoise == /\ stage = "subset"
             /\ noiseFrom' = NoiseSource
             /\ IF NoiseSource = "missing"
                THEN result' = "missing:noise_sd" /\ stage' = "done"
                ELSE result' = result /\ stage' = "noise"
             /\ UNCHANGED <<inp, lnprior, miFrom, forwardCalls, round, reuse>>

OpticsSource == IF inp.mi \in {"model", "both"} THEN "model"
                ELSE IF inp.mi = "data" THEN "data" ELSE "missing"
Forward == /\ stage = "noise"
           /\ miFrom' = OpticsSource
           /\ IF OpticsSource = "missing"
              THEN result' = "missing:medium_index" /\ forwardCalls' = forwardCalls /\ stage' = "done"
              ELSE result' = result /\ forwardCalls' = forwardCalls + 1 /\ stage' = "forward"
           /\ UNCHANGED <<inp, lnprior, noiseFrom, round, reuse>>

Sum == /\ stage = "forward"
       /\ result' = "finite" /\ stage' = "done"
       /\ UNCHANGED <<inp, lnprior, noiseFrom, miFrom, forwardCalls, round, reuse>>

\* second evaluation of the same model: new values, given in a fresh or in the re-used container
Again(change, how) ==
   /\ stage = "done" /\ round < Rounds
   /\ round' = round + 1 /\ reuse' = how
   /\ inp' = IF change = "to_invalid" THEN [inp EXCEPT !.scat = FALSE]
             ELSE IF change = "to_valid" THEN [inp EXCEPT !.scat = TRUE, !.sup = TRUE]
             ELSE inp
   /\ stage' = "start" /\ lnprior' = "unknown" /\ noiseFrom' = "unknown" /\ miFrom' = "unknown"
   /\ forwardCalls' = 0 /\ result' = "pending"

Next == EvalPrior \/ ShortCircuit \/ Subset \/ FindNoise \/ Forward \/ Sum
        \/ \E ch \in {"other_valid", "to_invalid", "to_valid"}, how \in {"fresh", "in_place"} : Again(ch, how)
Spec == Init /\ [][Next]_vars

-----------------------------------------------------------------------------
NoForwardWhenNegInf == (lnprior = "neginf") => (forwardCalls = 0 /\ result \in {"pending", "neginf"})
AtMostOneForward == forwardCalls <= 1
FiniteNeedsEverything == (result = "finite") =>
   /\ inp.sup /\ inp.scat /\ inp.cons # "violated"
   /\ noiseFrom \in {"model", "data", "unit"} /\ miFrom \in {"model", "data"} /\ forwardCalls = 1
NoiseFromModelThenData == (noiseFrom = "data") => inp.mnoise = "none"
OpticsFromModelThenData == (miFrom = "data") => inp.mi = "data"
UnitNoiseOnlyIfAllUniform == (noiseFrom = "unit") => inp.uniform
MissingParameterNamed == (stage = "done" /\ lnprior = "finite" /\ inp.mi = "neither" /\ noiseFrom # "missing")
                            => result = "missing:medium_index"
EveryRunTerminates == <>(stage = "done")
=============================================================================
