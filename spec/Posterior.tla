------------------------------ MODULE Posterior ------------------------------
(***************************************************************************)
(* C12.  Control flow of Model.lnposterior, one action per stage of the    *)
(* implementation, over abstract input classes:                            *)
(*   sup      : all parameter values inside their priors' support?        *)
(*   scat     : does substituting the values give a valid scatterer?       *)
(*   cons     : "none" | "ok" | "violated"   (LimitOverlaps constraint)    *)
(*   mnoise   : model noise  "none" | "scalar" | "prior"                   *)
(*   dnoise   : data noise   "absent" | "none" | "scalar"                  *)
(*   uniform  : are all priors Uniform?                                    *)
(*   mi       : where medium_index is given: "model"|"data"|"both"|"neither"*)
(*   pixels   : random pixel subset requested?                             *)
(*   kind     : "alpha_fixed" | "alpha_prior" | "exact"                    *)
(* The result is a class: "neginf", "finite", or "missing:<key>"; the      *)
(* forward model is called at most once, and never when the prior is -inf. *)
(***************************************************************************)
EXTENDS Integers, Sequences, FiniteSets

VARIABLES inp, stage, lnprior, noiseFrom, miFrom, forwardCalls, result

vars == <<inp, stage, lnprior, noiseFrom, miFrom, forwardCalls, result>>

Inputs == [sup : BOOLEAN, scat : BOOLEAN, cons : {"none", "ok", "violated"},
           mnoise : {"none", "scalar", "prior"}, dnoise : {"absent", "none", "scalar"},
           uniform : BOOLEAN, mi : {"model", "data", "both", "neither"},
           pixels : BOOLEAN, kind : {"alpha_fixed", "alpha_prior", "exact"}]

Init == /\ inp \in Inputs
        /\ (inp.cons # "none" => inp.scat)       \* the constraint is only evaluated on a valid scatterer
        /\ stage = "start" /\ lnprior = "unknown" /\ noiseFrom = "unknown" /\ miFrom = "unknown"
        /\ forwardCalls = 0 /\ result = "pending"

EvalPrior == /\ stage = "start"
             /\ lnprior' = IF ~inp.scat \/ inp.cons = "violated" \/ ~inp.sup THEN "neginf" ELSE "finite"
             /\ stage' = "prior"
             /\ UNCHANGED <<inp, noiseFrom, miFrom, forwardCalls, result>>

ShortCircuit == /\ stage = "prior" /\ lnprior = "neginf"
                /\ result' = "neginf" /\ stage' = "done"
                /\ UNCHANGED <<inp, lnprior, noiseFrom, miFrom, forwardCalls>>

Subset == /\ stage = "prior" /\ lnprior = "finite"
          /\ stage' = "subset"
          /\ UNCHANGED <<inp, lnprior, noiseFrom, miFrom, forwardCalls, result>>

(* noise: the model's if given, else the data's; None is allowed only for all-uniform priors *)
NoiseSource == IF inp.mnoise # "none" THEN "model"
               ELSE IF inp.dnoise = "scalar" THEN "data"
               ELSE IF inp.dnoise = "none" THEN (IF inp.uniform /\ inp.mnoise = "none" THEN "unit" ELSE "missing")
               ELSE "missing"
FindNoise == /\ stage = "subset"
             /\ noiseFrom' = NoiseSource
             /\ IF NoiseSource = "missing"
                THEN result' = "missing:noise_sd" /\ stage' = "done"
                ELSE result' = result /\ stage' = "noise"
             /\ UNCHANGED <<inp, lnprior, miFrom, forwardCalls>>

OpticsSource == IF inp.mi \in {"model", "both"} THEN "model"
                ELSE IF inp.mi = "data" THEN "data" ELSE "missing"
Forward == /\ stage = "noise"
           /\ miFrom' = OpticsSource
           /\ IF OpticsSource = "missing"
              THEN result' = "missing:medium_index" /\ forwardCalls' = forwardCalls /\ stage' = "done"
              ELSE result' = result /\ forwardCalls' = forwardCalls + 1 /\ stage' = "forward"
           /\ UNCHANGED <<inp, lnprior, noiseFrom>>

Sum == /\ stage = "forward"
       /\ result' = "finite" /\ stage' = "done"
       /\ UNCHANGED <<inp, lnprior, noiseFrom, miFrom, forwardCalls>>

Next == EvalPrior \/ ShortCircuit \/ Subset \/ FindNoise \/ Forward \/ Sum
Spec == Init /\ [][Next]_vars

-----------------------------------------------------------------------------
NoForwardWhenNegInf == (lnprior = "neginf") => (forwardCalls = 0 /\ result \in {"pending", "neginf"})
AtMostOneForward == forwardCalls <= 1
FiniteNeedsEverything == (result = "finite") =>
   /\ inp.sup /\ inp.scat /\ inp.cons # "violated"
   /\ noiseFrom \in {"model", "data", "unit"} /\ miFrom \in {"model", "data"} /\ forwardCalls = 1
NoiseFromModelThenData == (noiseFrom = "data") => inp.mnoise = "none"
OpticsFromModelThenData == (miFrom = "data") => inp.mi = "data"
UnitNoiseOnlyIfAllUniform == (noiseFrom = "unit") => inp.uniform
MissingParameterNamed == (stage = "done" /\ lnprior = "finite" /\ inp.mi = "neither" /\ noiseFrom # "missing")
                            => result = "missing:medium_index"
EveryRunTerminates == <>(stage = "done")
=============================================================================
