------------------------------- MODULE DictOps -------------------------------
(***************************************************************************)
(* Extension X06 (beyond the listed properties).  The two dictionary       *)
(* helpers everything metadata-related goes through, as non-modifying      *)
(* functions on finite maps:                                               *)
(*   updated(d, u, filter_none)  d overridden by the entries of u; with    *)
(*        filter_none (the default) an entry whose value is None is        *)
(*        ignored, without it None is stored                               *)
(*   dict_without(d, K)          d restricted to the keys not in K         *)
(* Sequences of both are enumerated; the result is a function of the       *)
(* sequence only and the operands are never touched.                       *)
(***************************************************************************)
EXTENDS Integers, Sequences, FiniteSets, TLC

CONSTANTS MaxSteps

VARIABLES d, steps
vars == <<d, steps>>

Keys == {"a", "b", "c"}
None == 0                       \* values: 0 stands for None, 1..2 for ordinary values
Vals == {0, 1, 2}
Maps == UNION {[K -> Vals] : K \in SUBSET Keys}

Updated(m, u, filter) ==
   LET eff == {k \in DOMAIN u : ~filter \/ u[k] # None} IN
   [k \in DOMAIN m \cup eff |-> IF k \in eff THEN u[k] ELSE m[k]]
Without(m, K) == [k \in DOMAIN m \ K |-> m[k]]

Init == d \in {m \in Maps : Cardinality(DOMAIN m) <= 2} /\ steps = 0
Update(u, filter) == /\ steps < MaxSteps /\ d' = Updated(d, u, filter) /\ steps' = steps + 1
Remove(K) == /\ steps < MaxSteps /\ d' = Without(d, K) /\ steps' = steps + 1
Next == (\E u \in {m \in Maps : Cardinality(DOMAIN m) <= 2}, f \in BOOLEAN : Update(u, f))
        \/ (\E K \in SUBSET Keys : Remove(K))
Spec == Init /\ [][Next]_vars

View == d
NoneOnlyUnfiltered == TRUE
KeysAreKnown == DOMAIN d \subseteq Keys
=============================================================================
