---------------------------- MODULE ImgProcTrace ----------------------------
(* C18, numeric clauses: recorded observations of the real image-processing tools on    *)
(* inputs larger than the exhaustive model (seeded), one event per completed call.      *)
(*   CenterFind : centre finder on a computed single-sphere hologram; err in milli-px   *)
(*   CenterPriors: make_center_priors centres its x/y priors on the found centre        *)
(*   Normalize / BgCorrect / ZeroFilter / Detrend / Subimage / Accumulate on large      *)
(*     seeded images: defect against the exact value in millibel, metadata kept         *)
EXTENDS TraceIO, Tolerances
VARIABLES tid, l

Kinds == {"CenterFind", "CenterPriors", "Normalize", "BgCorrect", "ZeroFilter", "Detrend",
          "Subimage", "Accumulate"}

Clauses(e) ==
  [ known_event   |-> e.event \in Kinds,
    metadata_kept |-> e.meta_kept = TRUE,
    within_tol    |-> IF e.event = "CenterFind"
                      THEN e.err_x_mpx <= Tol_center_mpx /\ e.err_y_mpx <= Tol_center_mpx
                      ELSE IF e.event = "Detrend" THEN e.mb <= Tol_detrend_abs
                      ELSE e.mb <= Tol_exact_float,
    input_untouched |-> e.input_untouched = TRUE ]

StepOK(e) == \A k \in DOMAIN Clauses(e) : Clauses(e)[k]

Init == /\ tid \in Tids /\ l = 1 /\ TLCSet(tid, 1)
Step == /\ l <= Len(Traces[tid]) /\ StepOK(Traces[tid][l])
        /\ l' = l + 1 /\ UNCHANGED tid /\ TLCSet(tid, l + 1)
Spec == Init /\ [][Step]_<<tid, l>>
Accepted == \A t \in Tids : Verdict(t, Clauses)
=============================================================================
