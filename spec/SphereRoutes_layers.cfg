SPECIFICATION Spec
CONSTANTS
  Mode = "layers"
  RMax = 4
  MaxLayers = 3
  MaxSteps = 2
INVARIANT CanonIsNormal
INVARIANT ThicknessRadiusInverse
PROPERTY CanonPreserved
VIEW LayersView
CHECK_DEADLOCK FALSE
