SPECIFICATION Spec
CONSTANT MaxUpdates = 3
PROPERTY SupportNeverChanges
PROPERTY NameNeverChanges
PROPERTY KindSettles
INVARIANT GaussianOnlyWithoutBounds
CHECK_DEADLOCK FALSE
