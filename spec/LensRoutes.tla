------------------------------ MODULE LensRoutes ------------------------------
(***************************************************************************)
(* C08.  Routes to the field of a sphere imaged through a lens.  The       *)
(* abstract state is the physical class (relative index, size parameter,   *)
(* k z above or below focus, acceptance angle, polarisation index in Z_24, *)
(* radial range); every route must give the same field:                    *)
(*   "mielens_check" | "mielens_on" | "mielens_off"   interpolation modes  *)
(*   "mielens_window", "mielens_degree", "mielens_quad2x"  accuracy knobs  *)
(*   "aberrated_scalar0", "aberrated_list0_n" (n = 1..4)  zero aberration  *)
(*   "lens_mie_1", "lens_mie_15", "lens_mie_2"  numerical wrapper with a   *)
(*        quadrature ladder (x1, x1.5 with unequal orders, x2)             *)
(*   "aberrated_coarse" / "mielens_coarse", "aberrated_quad3x" /           *)
(*        "mielens_quad3x": zero aberration under NON-default accuracy      *)
(*        options equals the unaberrated theory under the same options      *)
(*        (pairwise relation SameOptions, exact)                            *)
(*   "lens_from_parameters", "mielens_from_parameters": the theory object   *)
(*        obtained with from_parameters({lens_angle}) from one built for    *)
(*        another angle equals the constructor's (exact)                    *)
(* Mode "scan" (LensRoutes_scan.cfg): one sphere, a sequence of requests    *)
(* that differ in acceptance angle / theory / options, all in one           *)
(* interpreter; every answer must be the fresh-process answer of that       *)
(* request (no state survives between calls).                               *)
(* Relations: every analytic route equals the reference route              *)
(* ("mielens_off"); the ladder is Cauchy and its last rung equals the      *)
(* reference.                                                              *)
(***************************************************************************)
EXTENDS Integers, Sequences, FiniteSets

CONSTANTS MaxCalls
VARIABLES cls, route, log
vars == <<cls, route, log>>

MClasses == {"m105", "m120", "m160", "m250"}
XClasses == {"x01", "x1", "x5", "x20", "x50"}
KZClasses == {"kz_m150", "kz_m20", "kz_5", "kz_60", "kz_300"}
Angles == {"a01", "a06", "a10", "a14"}
PolIdx == {0, 2, 6, 11, 17}
RhoClasses == {"inside", "to_cutoff", "beyond_cutoff"}
Classes == [m : MClasses, x : XClasses, kz : KZClasses, angle : Angles, pol : PolIdx, rho : RhoClasses]

Analytic == {"mielens_check", "mielens_on", "mielens_off", "mielens_window", "mielens_degree",
             "mielens_quad2x", "aberrated_scalar0", "aberrated_list0_1", "aberrated_list0_2",
             "aberrated_list0_3", "aberrated_list0_4"}
Ladder == <<"lens_mie_1", "lens_mie_15", "lens_mie_2">>
SameOptions == {<<"aberrated_coarse", "mielens_coarse">>, <<"aberrated_quad3x", "mielens_quad3x">>}
Routes == Analytic \cup {Ladder[i] : i \in 1..3} \cup UNION {{p[1], p[2]} : p \in SameOptions}
Reference == "mielens_off"

Init == cls \in Classes /\ route = Reference /\ log = <<>>
Take(r) == route = Reference /\ r \in Routes /\ route' = r /\ UNCHANGED <<cls, log>>
Next == \E r \in Routes : Take(r)
Spec == Init /\ [][Next]_vars
ClassesOnly == Init /\ [][UNCHANGED vars]_vars     \* used to dump the class catalogue alone
ClassNeverChanges == [][cls' = cls]_vars       \* a route is a way of computing, not a different problem

\* ---- scan mode: the same sphere asked again and again with other lens settings --------------
ScanCatalogue == 1..6      \* concretised by the harness: two acceptance angles x {MieLens, zero-aberration
                           \* AberratedMieLens}, a refined quadrature, the numerical wrapper
ScanInit == cls \in {c \in Classes : c.m = "m160" /\ c.x = "x5" /\ c.kz = "kz_60" /\ c.angle = "a06"
                                      /\ c.pol = 2 /\ c.rho = "inside"} /\ route = Reference /\ log = <<>>
Ask(c) == /\ Len(log) < MaxCalls /\ log' = Append(log, c) /\ UNCHANGED <<cls, route>>
ScanSpec == ScanInit /\ [][\E c \in ScanCatalogue : Ask(c)]_vars
\* the answer to the last request is a function of that request alone (the harness compares with the
\* fresh-process answer); the model states it as: the log only grows, earlier answers are never revised
LogOnlyGrows == [][Len(log') = Len(log) + 1 /\ SubSeq(log', 1, Len(log)) = log]_vars
=============================================================================
