SPECIFICATION Spec
CONSTANT MaxSteps = 2
INVARIANT DomainIsThePointsOwn
PROPERTY DomainNeverMoves
CHECK_DEADLOCK FALSE
