---------------------------- MODULE EditIndicesApa ----------------------------
EXTENDS Integers, FiniteSets
N == 12
VARIABLES
  \* @type: Set(Int);
  I,
  \* @type: Int -> Int;
  img
Idx == 0..(N-1)
\* @type: (Set(Int)) => Int;
Min(S) == CHOOSE x \in S : \A y \in S : x <= y
\* @type: (Int, Set(Int)) => Int;
NewIndex(old, T) ==
   IF old \in T THEN Min(T)
   ELSE IF old < Min(T) THEN old
   ELSE old - (Cardinality({i \in T : i < old}) - 1)
Init == /\ I \in (SUBSET Idx) \ {{}}
        /\ img = [o \in Idx |-> NewIndex(o, I)]
Next == UNCHANGED <<I, img>>
Kept == (Idx \ I) \cup {Min(I)}
OntoPrefix == {img[o] : o \in Idx} = {k \in Idx : k < Cardinality(Kept)}
TiedToMin == \A o \in I : img[o] = Min(I)
OrderPreserving == \A a, b \in Kept : a < b => img[a] < img[b]
RankOfKept == \A a \in Kept : img[a] = Cardinality({k \in Kept : k < a})
All == OntoPrefix /\ TiedToMin /\ OrderPreserving /\ RankOfKept
=============================================================================
