------------------------------ MODULE Stacking ------------------------------
(***************************************************************************)
(* Extension X05 (beyond the listed properties).  The two layouts of a     *)
(* detector or image - a grid over (x, y, z) and the flat list of its      *)
(* pixels - and the helpers that move between them and measure them.       *)
(*   Flat      grid -> flat list (every pixel once, its x, y, z kept);     *)
(*             a flat list or a point list is returned as it is            *)
(*   Unflat    flat list -> the grid it came from; anything else as it is  *)
(* so Unflat(Flat(g)) = g, Flat(Unflat(f)) = f and both are idempotent.    *)
(* get_spacing / get_extents of a grid: the pixel pitch, and pitch x       *)
(* number of pixels (0 along an axis with a single pixel).                 *)
(***************************************************************************)
EXTENDS Integers, Sequences

CONSTANTS MaxSteps

VARIABLES kind, layout, steps
vars == <<kind, layout, steps>>

Kinds == {"grid_square", "grid_rect", "grid_line", "grid_multichannel", "points"}
Init == kind \in Kinds /\ layout = (IF kind = "points" THEN "points" ELSE "grid") /\ steps = 0

Flat == /\ steps < MaxSteps
        /\ layout' = IF layout = "grid" THEN "flat" ELSE layout
        /\ steps' = steps + 1 /\ UNCHANGED kind
Unflat == /\ steps < MaxSteps
          /\ layout' = IF layout = "flat" THEN "grid" ELSE layout
          /\ steps' = steps + 1 /\ UNCHANGED kind
Next == Flat \/ Unflat
Spec == Init /\ [][Next]_vars

View == <<kind, layout>>            \* the image is a function of its kind and layout, not of the path
PointsStayPoints == kind = "points" => layout = "points"
GridsNeverBecomePoints == kind # "points" => layout \in {"grid", "flat"}
=============================================================================
