SPECIFICATION Spec
CONSTANTS
  Mode = "bg"
  NX = 2
  NY = 2
  Vals = {1, 2, 3}
  MaxPush = 4
INVARIANT NormalizeMeanOne
INVARIANT NormalizeIdempotent
INVARIANT NormalizeScaleInv
INVARIANT ZeroKeepsPositive
INVARIANT ZeroInteriorMean4
INVARIANT ZeroFilledPositive
INVARIANT BgSelfIsOne
INVARIANT AccOrderFree
INVARIANT AccVarNonNeg
CHECK_DEADLOCK FALSE
