SPECIFICATION Spec
CONSTANTS
  Mode = "tiffcolour"
  MaxCycles = 3
PROPERTY H5IsIdentity
PROPERTY UpdateTouchesOnlyNamed
INVARIANT AverageCountsFiles
VIEW View
CHECK_DEADLOCK FALSE
