SPECIFICATION Spec
INVARIANT Total
INVARIANT BoundaryIsNear
CHECK_DEADLOCK FALSE
