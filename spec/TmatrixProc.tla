----------------------------- MODULE TmatrixProc -----------------------------
(***************************************************************************)
(* C10.  (1) Process-level model of a T-matrix call: the interpreter is    *)
(* alive; a call has outcome "finite", "exception" (a Python exception) or *)
(* "died" (the process terminated: Fortran STOP); AliveForever says the    *)
(* last never happens, for every angle class and every size class.         *)
(* (2) State-merging model of the particle's orientation: the abstract     *)
(* state is the direction of the symmetry axis up to sign; spinning about  *)
(* the own axis, reversing the axis, adding full turns and the             *)
(* (-beta, gamma) = (beta, gamma + pi) identity never change it.           *)
(* Angles are indices into a table of 9 classes per Euler angle:           *)
(*  1: < -2pi   2: (-pi,0)   3: 0   4: (0,pi/2)   5: pi/2   6: (pi/2,pi)   *)
(*  7: pi       8: (pi,2pi)  9: > 2pi                                      *)
(***************************************************************************)
EXTENDS Integers, Sequences, FiniteSets

CONSTANTS Mode, MaxSteps

VARIABLES alive, cfg, outcome, steps

vars == <<alive, cfg, outcome, steps>>

AngleClasses == 1..9
Shapes == {"spheroid_oblate", "spheroid_prolate", "spheroid_equal", "cylinder_flat", "cylinder_long",
           "sphere"}
Sizes == {"tiny", "small", "medium", "large", "beyond_solver_limit",
          "astronomical"}       \* a size parameter no 32-bit integer holds (3e9): "any size"
Configs == [shape : Shapes, size : Sizes, absorbing : BOOLEAN,
            a : {3, 4, 9}, b : AngleClasses, g : AngleClasses]

(* sizes for which the solver must deliver finite numbers *)
MustBeFinite(c) == c.size \in {"tiny", "small", "medium"}

Init == /\ alive = TRUE /\ steps = 0 /\ outcome = "none"
        /\ \/ Mode = "proc" /\ cfg \in Configs
           \/ Mode = "orient" /\ cfg \in {c \in Configs : c.size = "small" /\ c.absorbing = FALSE
                                            /\ c.shape \in {"spheroid_prolate", "cylinder_flat"}
                                            /\ c.a = 3 /\ c.b \in {3, 4, 6, 7} /\ c.g \in {3, 4, 8}}   \* b = 3, 7: axis exactly along / against the beam

(* one public call in a fresh configuration *)
Call(o) == /\ Mode = "proc" /\ alive /\ steps = 0
           /\ o \in {"finite", "exception"}           \* "died" is not an allowed outcome
           /\ (MustBeFinite(cfg) => o = "finite")
           /\ outcome' = o /\ steps' = 1 /\ UNCHANGED <<alive, cfg>>

(* orientation identities: representations of the same particle *)
Spin(k) == /\ Mode = "orient" /\ steps < MaxSteps /\ cfg.a # k
           /\ cfg' = [cfg EXCEPT !.a = k] /\ steps' = steps + 1 /\ UNCHANGED <<alive, outcome>>
ReverseAxis == /\ Mode = "orient" /\ steps < MaxSteps
               /\ cfg' = [cfg EXCEPT !.b = 100 + cfg.b, !.g = 100 + cfg.g]   \* (pi - beta, gamma + pi)
               /\ cfg.b < 100 /\ cfg.g < 100
               /\ steps' = steps + 1 /\ UNCHANGED <<alive, outcome>>
NegateBeta == /\ Mode = "orient" /\ steps < MaxSteps /\ cfg.b < 100 /\ cfg.g < 100
              /\ cfg' = [cfg EXCEPT !.b = 200 + cfg.b, !.g = 200 + cfg.g]    \* (-beta, gamma + pi)
              /\ steps' = steps + 1 /\ UNCHANGED <<alive, outcome>>
FullTurn(which) == /\ Mode = "orient" /\ steps < MaxSteps /\ cfg.b < 100 /\ cfg.g < 100
                   /\ cfg' = IF which = "b" THEN [cfg EXCEPT !.b = 300 + cfg.b]   \* beta + 2 pi
                             ELSE [cfg EXCEPT !.g = 300 + cfg.g]                \* gamma - 2 pi
                   /\ steps' = steps + 1 /\ UNCHANGED <<alive, outcome>>

Next == \/ \E o \in {"finite", "exception", "died"} : Call(o)
        \/ \E k \in {3, 4, 9} : Spin(k)
        \/ ReverseAxis \/ NegateBeta
        \/ \E w \in {"b", "g"} : FullTurn(w)

Spec == Init /\ [][Next]_vars

AliveForever == alive
NeverDied == outcome # "died"
(* the abstract particle: axis direction class, untouched by every orientation action *)
Particle(c) == <<c.shape, c.size, IF c.b < 100 THEN c.b ELSE c.b % 100, IF c.g < 100 THEN c.g ELSE c.g % 100>>
ParticleNeverChanges == [][(Mode = "orient") => Particle(cfg') = Particle(cfg)]_vars
=============================================================================
