SPECIFICATION Spec
CONSTANT MaxN = 3
INVARIANT ViewWithinGrid
INVARIANT GridHasDistinctPositions
INVARIANT CropIsSubgrid
CHECK_DEADLOCK FALSE
