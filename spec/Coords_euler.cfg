SPECIFICATION Spec
CONSTANTS
  Mode = "euler"
  MaxSteps = 3
PROPERTY PointNeverChanges
PROPERTY RotationNeverChanges
PROPERTY TranslationsCompose
CHECK_DEADLOCK FALSE
