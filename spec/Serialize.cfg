SPECIFICATION Spec
CONSTANTS
  NSlots = 2
  MaxCycles = 3
INVARIANT LoadSaveIsNorm
INVARIANT ExplicitNonePreserved
PROPERTY SaveIdempotent
CHECK_DEADLOCK FALSE
