SPECIFICATION Spec
CONSTANT MaxSteps = 5
INVARIANT ScratchCleanAfterFit
INVARIANT LoadedHasWhatWasSaved
PROPERTY FitResetsResult
CHECK_DEADLOCK FALSE
