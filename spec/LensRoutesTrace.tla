--------------------------- MODULE LensRoutesTrace ---------------------------
(* C08: for every executed class, the defect of each route against the reference route,  *)
(* and the successive differences of the numerical quadrature ladder (code -> spec).     *)
EXTENDS TraceIO, Tolerances
VARIABLES tid, l
Clauses(e) ==
  [ default_quadrature_converged |-> e.mb_default_vs_refined <= Tol_lens_quad,
    interpolation_modes_agree |-> e.mb_check <= Tol_lens_interp /\ e.mb_on <= Tol_lens_interp,
    accuracy_knobs_agree      |-> e.mb_window <= Tol_lens_interp /\ e.mb_degree <= Tol_lens_interp,
    zero_aberration_is_none   |-> e.mb_aberrated <= Tol_lens_aberr0,
    zero_aberration_same_options |-> e.mb_same_options <= Tol_lens_aberr0,
    from_parameters_is_constructor |-> e.mb_from_parameters <= Tol_lens_aberr0,
    ladder_is_cauchy          |-> e.mb_step2 <= e.mb_step1 \/ e.mb_step2 <= Tol_lens_numeric,
    numeric_equals_analytic   |-> e.mb_lens_last <= Tol_lens_numeric,
    all_finite                |-> e.finite = TRUE ]
StepOK(e) == \A k \in DOMAIN Clauses(e) : Clauses(e)[k]
Init == /\ tid \in Tids /\ l = 1 /\ TLCSet(tid, 1)
Step == /\ l <= Len(Traces[tid]) /\ StepOK(Traces[tid][l])
        /\ l' = l + 1 /\ UNCHANGED tid /\ TLCSet(tid, l + 1)
Spec == Init /\ [][Step]_<<tid, l>>
Accepted == \A t \in Tids : Verdict(t, Clauses)
=============================================================================
