SPECIFICATION Spec
CONSTANT MaxSteps = 3
PROPERTY RotationsCompose
PROPERTY MirrorIsInvolution
VIEW View
CHECK_DEADLOCK FALSE
