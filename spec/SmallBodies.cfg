SPECIFICATION Spec
INVARIANT EveryBodyHasALaw
CHECK_DEADLOCK FALSE
