SPECIFICATION Spec
CONSTANTS
  Mode = "channels"
  MaxMembers = 6
INVARIANT AlignByLabelNotPosition
INVARIANT OneTermPerMember
CHECK_DEADLOCK FALSE
