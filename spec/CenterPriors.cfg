SPECIFICATION Spec
CONSTANT MaxCalls = 2
INVARIANT ImageOnlyRead
INVARIANT AxesAlike
INVARIANT UnitsWin
PROPERTY SameAnswerEveryTime
CHECK_DEADLOCK FALSE
