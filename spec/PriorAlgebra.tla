---------------------------- MODULE PriorAlgebra ----------------------------
(***************************************************************************)
(* C14.  (a) construction table of Uniform / Gaussian / BoundedGaussian    *)
(* over an order-type abstraction of the extended reals, with exact        *)
(* rational default guesses, supports and uniform densities;               *)
(* (b) the operator algebra on priors as a state machine: the current      *)
(* object is a prior (base or derived) with an exact rational guess, one   *)
(* action per Python operator application; the model says what the result  *)
(* must be: the very same object (plus 0, times 1), an exception (times 0,  *)
(* unsupported operand), or a derived prior whose guess is the operation    *)
(* applied to the guesses -- computed exactly here.                        *)
(***************************************************************************)
EXTENDS Integers, Sequences, FiniteSets, Rat

CONSTANTS Mode, MaxDepth, Bound

VARIABLES cur,     \* "ctor": constructor argument record;  "alg": guess of the current object
          last,    \* outcome of the last step
          depth

vars == <<cur, last, depth>>

-----------------------------------------------------------------------------
(* (a) constructors.  Extended reals: "-inf" < integers < "+inf"            *)
NegInf == -1000
PosInf == 1000
NoGuess == 999
ExtVals == {NegInf, -1, 0, 1, 2, PosInf}      \* -inf < integers < +inf
IsFin(x) == x \notin {NegInf, PosInf}
ELt(a, b) == a < b
ELe(a, b) == a = b \/ ELt(a, b)

UniformAccepts(lo, hi, g) == ELt(lo, hi) /\ (g = NoGuess \/ (ELe(lo, g) /\ ELe(g, hi)))
UniformGuess(lo, hi, g) ==
   IF g # NoGuess THEN R(g)
   ELSE IF IsFin(lo) /\ IsFin(hi) THEN Norm(lo + hi, 2)
   ELSE IF IsFin(lo) THEN R(lo) ELSE IF IsFin(hi) THEN R(hi) ELSE R(0)
UniformDensity(lo, hi) == IF IsFin(lo) /\ IsFin(hi) THEN Norm(1, hi - lo) ELSE <<0, 0>>   \* <<0,0>> = improper
InSupport(lo, hi, p) == ELe(lo, p) /\ ELe(p, hi)

GaussianAccepts(mu, sd) == IsFin(mu) /\ sd > 0
BoundedAccepts(mu, sd, lo, hi) ==
   GaussianAccepts(mu, sd) /\ ELe(lo, mu) /\ ELe(mu, hi) /\ lo # hi

CtorCases ==
   {[kind |-> "Uniform", lo |-> lo, hi |-> hi, g |-> g] :
        lo \in ExtVals, hi \in ExtVals, g \in {NoGuess, -1, 0, 1, 2}}
   \cup {[kind |-> "Gaussian", mu |-> mu, sd |-> sd] : mu \in {-1, 0, 2}, sd \in {NegInf, -1, 0, 1, 2}}
   \cup {[kind |-> "BoundedGaussian", mu |-> mu, sd |-> sd, lo |-> lo, hi |-> hi] :
        mu \in {-1, 0, 2}, sd \in {0, 1}, lo \in ExtVals, hi \in ExtVals}
   \cup {[kind |-> "Complex", re |-> a, im |-> b] : a \in {"fixed", "free"}, b \in {"fixed", "free"}}

CtorOutcome(c) ==
   IF c.kind = "Uniform" THEN
      IF UniformAccepts(c.lo, c.hi, c.g)
      THEN [accept |-> TRUE, guess |-> UniformGuess(c.lo, c.hi, c.g),
            density |-> UniformDensity(c.lo, c.hi),
            support |-> {p \in ExtVals : IsFin(p) /\ InSupport(c.lo, c.hi, p)},
            outside |-> {p \in ExtVals : IsFin(p) /\ ~InSupport(c.lo, c.hi, p)}]
      ELSE [accept |-> FALSE]
   ELSE IF c.kind = "Gaussian" THEN
      IF GaussianAccepts(c.mu, c.sd) THEN [accept |-> TRUE, guess |-> R(c.mu)] ELSE [accept |-> FALSE]
   ELSE IF c.kind = "Complex" THEN
      [accept |-> TRUE, nfree |-> Cardinality({x \in {<<1, c.re>>, <<2, c.im>>} : x[2] = "free"})]
   ELSE IF BoundedAccepts(c.mu, c.sd, c.lo, c.hi)
        THEN [accept |-> TRUE, guess |-> R(c.mu),
              support |-> {p \in ExtVals : IsFin(p) /\ InSupport(c.lo, c.hi, p)},
              outside |-> {p \in ExtVals : IsFin(p) /\ ~InSupport(c.lo, c.hi, p)}]
        ELSE [accept |-> FALSE]

-----------------------------------------------------------------------------
(* (b) algebra.  Operands: the base priors P (guess 2) and Q (guess 3), numbers,  *)
(* unsupported objects, small arrays.                                            *)
GuessP == R(2)
GuessQ == R(3)
Tiny == <<1, 1048576>>       \* 2^-20 < 1e-6: a small but non-zero number (lengths in SI units ...)
NumVals == {<<-1, 1>>, <<0, 1>>, <<1, 1>>, <<2, 1>>, <<1, 2>>, Tiny}
Numbers == {[k |-> "num", v |-> x] : x \in NumVals}
Others == {[k |-> "P"], [k |-> "Q"], [k |-> "str"], [k |-> "none"]} \cup Numbers
Ops == {"add", "sub", "mul", "div", "pow"}
Sides == {"L", "R"}          \* current object is the Left / Right operand

IsNum(o) == o.k = "num"
IsPriorOperand(o) == o.k \in {"P", "Q"}
GuessOf(o) == IF o.k = "P" THEN GuessP ELSE IF o.k = "Q" THEN GuessQ ELSE o.v

Small(r) == Abs(r[1]) <= Bound /\ r[2] <= Bound

RECURSIVE IntPow(_, _)
IntPow(a, n) == IF n = 0 THEN R(1) ELSE Mul(a, IntPow(a, n - 1))
RatPow(a, e) ==            \* e integer rational; a # 0 when e < 0
   IF e[2] # 1 \/ Abs(e[1]) > 4 \/ Abs(a[1]) > 12 \/ a[2] > 12 THEN <<0>>     \* outside the exact model
   ELSE IF e[1] >= 0 THEN IntPow(a, e[1])
   ELSE IF IsZero(a) THEN <<0>> ELSE IntPow(Div(R(1), a), -e[1])

Arith(op, x, y) ==         \* x op y on exact guesses
   IF Len(x) # 2 \/ Len(y) # 2 THEN <<0>>
   ELSE IF op = "add" THEN Add(x, y)
   ELSE IF op = "sub" THEN Sub(x, y)
   ELSE IF op = "mul" THEN Mul(x, y)
   ELSE IF op = "div" THEN (IF IsZero(y) THEN <<0>> ELSE Div(x, y))
   ELSE RatPow(x, y)

(* what the result of `left op right` must be, when the current object (a prior) is on `side` *)
Outcome(op, other, side) ==
   IF other.k \in {"str", "none"} THEN "raises"        \* every operator, powers included
   ELSE IF IsNum(other) THEN
        (IF op = "add" /\ IsZero(other.v) THEN "same"
         ELSE IF op = "mul" /\ IsZero(other.v) THEN "raises"
         ELSE IF op = "mul" /\ other.v = R(1) THEN "same"
         ELSE IF op = "div" /\ side = "L" /\ IsZero(other.v) THEN "raises"
         ELSE IF op = "div" /\ side = "R" /\ IsZero(other.v) THEN "raises"      \* 0 / prior = 0 * (1/prior)
         ELSE IF op = "sub" /\ side = "L" /\ IsZero(other.v) THEN "same_or_derived"
         ELSE IF op = "div" /\ side = "L" /\ other.v = R(1) THEN "same_or_derived"
         ELSE "derived")
   ELSE "derived"

Init == /\ depth = 0 /\ last = "none"
        /\ \/ Mode = "ctor" /\ cur \in {[case |-> c, out |-> CtorOutcome(c)] : c \in CtorCases}
           \/ Mode = "alg" /\ cur \in {GuessP, GuessQ}

Apply(op, other, side) ==
   /\ Mode = "alg" /\ depth < MaxDepth /\ Len(cur) = 2
   /\ LET o == Outcome(op, other, side)
          g == IF IsNum(other) /\ other.v = Tiny THEN <<0>>     \* exact value outside the model's range;
                                                               \* only the outcome (a *derived* prior) is stated
               ELSE IF IsNum(other) \/ IsPriorOperand(other)
               THEN (IF side = "L" THEN Arith(op, cur, GuessOf(other)) ELSE Arith(op, GuessOf(other), cur))
               ELSE <<0>>
      IN /\ last' = o
         /\ IF o \in {"raises", "derived_or_raises"} THEN cur' = <<1>>
            ELSE IF o = "same" THEN cur' = cur
            ELSE cur' = g
         /\ (Len(g) = 2 => Small(g))
   /\ depth' = depth + 1

Negate == /\ Mode = "alg" /\ depth < MaxDepth /\ Len(cur) = 2
       /\ cur' = Neg(cur) /\ last' = "derived" /\ depth' = depth + 1

Ufunc(f, other) ==      \* numpy functions: np.square / np.negative / np.absolute / np.add / np.maximum
   /\ Mode = "alg" /\ depth < MaxDepth /\ Len(cur) = 2
   /\ (f \in {"add", "maximum"}) = (other.k # "unary")
   /\ cur' = IF f = "square" THEN Mul(cur, cur)
             ELSE IF f = "negative" THEN Neg(cur)
             ELSE IF f = "absolute" THEN (IF cur[1] < 0 THEN Neg(cur) ELSE cur)
             ELSE IF f = "add" THEN Add(cur, GuessOf(other))
             ELSE (IF Lt(cur, GuessOf(other)) THEN GuessOf(other) ELSE cur)
   /\ Small(cur')
   /\ last' = "derived" /\ depth' = depth + 1

Next == \/ \E op \in Ops, o \in Others, s \in Sides : Apply(op, o, s)
        \/ Negate
        \/ \E f \in {"square", "negative", "absolute"} : Ufunc(f, [k |-> "unary"])
        \/ \E f \in {"add", "maximum"}, o \in {[k |-> "Q"], [k |-> "num", v |-> <<2, 1>>], [k |-> "num", v |-> <<1, 2>>]} : Ufunc(f, o)

Spec == Init /\ [][Next]_vars

-----------------------------------------------------------------------------
(* laws *)
DefaultGuessInSupport == Mode = "ctor" =>
   ((cur.case.kind = "Uniform" /\ cur.out.accept) =>
       LET g == cur.out.guess IN
          /\ (IsFin(cur.case.lo) => Le(R(cur.case.lo), g))
          /\ (IsFin(cur.case.hi) => Le(g, R(cur.case.hi))))
BoundsAreInside == Mode = "ctor" =>
   ((cur.case.kind \in {"Uniform", "BoundedGaussian"} /\ cur.out.accept) =>
       \A b \in {cur.case.lo, cur.case.hi} : IsFin(b) => b \in cur.out.support)
UniformIntegratesToOne == Mode = "ctor" =>
   ((cur.case.kind = "Uniform" /\ cur.out.accept /\ IsFin(cur.case.lo) /\ IsFin(cur.case.hi)) =>
       Mul(cur.out.density, R(cur.case.hi - cur.case.lo)) = R(1))
IdentityKeepsGuess == [][(last' = "same") => cur' = cur]_vars
=============================================================================
