SPECIFICATION Spec
CONSTANTS
  Mode = "composite"
  MaxSteps = 3
PROPERTY PointNeverChanges
PROPERTY RotationNeverChanges
PROPERTY TranslationsCompose
CHECK_DEADLOCK FALSE
