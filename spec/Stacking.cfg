SPECIFICATION Spec
CONSTANT MaxSteps = 4
INVARIANT PointsStayPoints
INVARIANT GridsNeverBecomePoints
CHECK_DEADLOCK FALSE
