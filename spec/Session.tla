------------------------------- MODULE Session -------------------------------
(***************************************************************************)
(* Cross-cutting session model (C01, C07, C16, C18 and the others share    *)
(* it): a user session is a sequence of public API calls over a store of   *)
(* objects.  A call is recorded with the fingerprint of every tracked      *)
(* argument before and after the call and of the result.  Two laws:        *)
(*   Frame          a call leaves its arguments as it found them, unless   *)
(*                  the API is a documented in-place mutator;              *)
(*   Deterministic  for deterministic entry points the result is a         *)
(*                  function of the API name and the argument values --    *)
(*                  not of anything that happened earlier in the session   *)
(*                  (`memo` remembers the first result for each key).      *)
(* SessionTrace below validates recorded sessions (e.g. the repository's   *)
(* own test suite run under the recorder) event by event.                  *)
(***************************************************************************)
EXTENDS TraceIO, FiniteSets
VARIABLES tid, l, memo

Mutators == {"Scatterers.add", "Accumulator.push"}
NonDeterministic == {"make_subset_data", "add_noise", "simulate_noise", "generate_guess", "Prior.sample"}

Key(e) == <<e.api, e.before>>
FrameOK(e) == (e.api \in Mutators) \/ (e.after = e.before)
DetOK(e, m) == (e.api \in NonDeterministic) \/ (e.seeded = FALSE /\ e.uses_rng = TRUE)
               \/ (\A p \in m : p[1] = Key(e) => p[2] = e.result)

Clauses(e) == [frame |-> FrameOK(e), deterministic |-> TRUE]

Init == /\ tid \in Tids /\ l = 1 /\ memo = {} /\ TLCSet(tid, 1)
Step == /\ l <= Len(Traces[tid])
        /\ LET e == Traces[tid][l] IN
             /\ FrameOK(e)
             /\ DetOK(e, memo)
             /\ memo' = IF e.api \in NonDeterministic \/ e.result = "exception"
                        THEN memo ELSE memo \cup {<<Key(e), e.result>>}
        /\ l' = l + 1 /\ UNCHANGED tid /\ TLCSet(tid, l + 1)
Spec == Init /\ [][Step]_<<tid, l, memo>>
Accepted == \A t \in Tids : Verdict(t, Clauses)
=============================================================================
