SPECIFICATION Spec
CONSTANTS
  N = 3
  Vals = {0, 1, 2, 3}
INVARIANT MeasuresAreThePairs
INVARIANT ChiSqNonNegative
INVARIANT ChiSqZeroIffEqual
INVARIANT RsqAtMostOne
INVARIANT RsqOneIffEqual
PROPERTY ShiftChangesNothing
PROPERTY ScaleLaw
PROPERTY ReorderChangesNothing
PROPERTY SwapKeepsChiSq
CHECK_DEADLOCK FALSE
