----------------------------- MODULE FitFrontEnd -----------------------------
(***************************************************************************)
(* C13 (front end).  hp.fit(data, model_or_scatterer, parameters, strategy)*)
(* as a user calls it: a bare scatterer is turned into a default model     *)
(* (make_default_model / parameterize_scatterer: the named arguments become*)
(* Uniform priors guessed at the scatterer's own values, "x","y","z" and   *)
(* "center" address the centre, everything else stays fixed, a scaling     *)
(* parameter alpha in [0.5, 1] is added), a strategy given as None, a name,*)
(* a class or an object is resolved (validate_strategy), and the fit runs. *)
(* The specification says, for every request, which parameter names the    *)
(* result must report, in which order, or that the call must be refused;   *)
(* calling again with the same objects (the base scatterer is reused by    *)
(* the user between fits) must give the same answer.                       *)
(***************************************************************************)
EXTENDS Integers, Sequences, FiniteSets

CONSTANTS MaxCalls, MaxReq

VARIABLES req, calls, outcome, base
vars == <<req, calls, outcome, base>>

ScatKinds == {"sphere", "cluster2"}
Containers == {"list", "tuple", "array"}          \* how the user wrote the centre
StratForms == {"none", "name_nmpfit", "name_scipy", "class_nmpfit", "class_scipy", "object_nmpfit",
               "object_scipy", "name_sampler", "not_a_strategy"}
Entries == {"scatterer", "model"}

Canon(k) == IF k = "sphere" THEN <<"n", "r", "x", "y", "z">>
            ELSE <<"0:n", "0:r", "0:x", "0:y", "0:z", "1:n", "1:r", "1:x", "1:y", "1:z">>
Range(s) == {s[i] : i \in DOMAIN s}
CenterNames(k) == IF k = "sphere" THEN {"center"} ELSE {"0:center", "1:center"}
Prefix(c) == IF c = "center" THEN "" ELSE IF c = "0:center" THEN "0:" ELSE "1:"
CenterOf(k, c) == IF k = "sphere" THEN {"x", "y", "z"}
                  ELSE IF c = "0:center" THEN {"0:x", "0:y", "0:z"} ELSE {"1:x", "1:y", "1:z"}
\* names a user may pass; "bogus" stands for any name the scatterer does not have (for a cluster
\* that includes the unprefixed "r")
Askable(k) == Range(Canon(k)) \cup CenterNames(k) \cup {"bogus"}

\* a request: None (= everything) or a set of names; the harness passes the set as a list in a
\* seeded order, or as a bare string when it is a singleton and form = "str"
Requests(k) == {<<"all">>} \cup {<<"set", S>> : S \in {T \in SUBSET Askable(k) : Cardinality(T) \in 1..MaxReq}}
                \cup {<<"set", Range(Canon(k))>>}

Expand(k, S) == (S \cap Range(Canon(k))) \cup UNION {CenterOf(k, c) : c \in S \cap CenterNames(k)}
Refused(k, r) == r[1] = "set" /\ "bogus" \in r[2]
Free(k, r) == IF r[1] = "all" THEN Range(Canon(k)) ELSE Expand(k, r[2])
\* parameter names of the default model, in the order the result must report them
Names(k, r) == SelectSeq(Canon(k), LAMBDA p : p \in Free(k, r)) \o <<"alpha">>
\* lower bound 0 for an index or a radius, none otherwise
NonNegative(p) == p \in {"n", "r", "0:n", "0:r", "1:n", "1:r"}

StrategyOf(f) == IF f \in {"none", "name_nmpfit", "class_nmpfit", "object_nmpfit"} THEN "nmpfit"
                 ELSE IF f \in {"name_scipy", "class_scipy", "object_scipy"} THEN "scipy"
                 ELSE "refused"

Expected(q) ==
  IF StrategyOf(q.strategy) = "refused" THEN [kind |-> "refused", why |-> "strategy", names |-> <<>>, strategy |-> "refused"]
  ELSE IF q.entry = "model"
       THEN [kind |-> "fit", why |-> "model_wins", names |-> Names(q.scat, <<"set", {Canon(q.scat)[2], Canon(q.scat)[5]}>>),
             strategy |-> StrategyOf(q.strategy)]     \* the model the harness builds frees r and z
  ELSE IF Refused(q.scat, q.params) THEN [kind |-> "refused", why |-> "unknown_parameter", names |-> <<>>, strategy |-> "refused"]
  ELSE [kind |-> "fit", why |-> "default_model", names |-> Names(q.scat, q.params), strategy |-> StrategyOf(q.strategy)]

NoOutcome == [kind |-> "none", why |-> "none", names |-> <<>>, strategy |-> "none"]

Init == /\ req \in [scat : ScatKinds, container : Containers, entry : Entries, strategy : StratForms,
                    params : UNION {Requests(k) : k \in ScatKinds}]
        /\ req.params \in Requests(req.scat)
        /\ req.entry = "model" => (IF req.params[1] = "all" THEN TRUE ELSE Cardinality(req.params[2]) = 1)
        /\ calls = 0 /\ outcome = NoOutcome /\ base = "as_given"

\* one hp.fit call; the user's scatterer, data and strategy object are the same objects every time
Call == /\ calls < MaxCalls
        /\ calls' = calls + 1
        /\ outcome' = Expected(req)
        /\ base' = base                      \* the base scatterer is never edited
        /\ UNCHANGED req
Next == Call
Spec == Init /\ [][Next]_vars

----------------------------------------------------------------------------
AlphaLast == outcome.kind = "fit" => outcome.names[Len(outcome.names)] = "alpha"
NoDuplicates == \A i, j \in DOMAIN outcome.names : i # j => outcome.names[i] # outcome.names[j]
OnlyWhatWasAsked == (outcome.kind = "fit" /\ outcome.why = "default_model") =>
                      Range(outcome.names) \ {"alpha"} = Free(req.scat, req.params)
OrderIsTheScatterers == outcome.kind = "fit" =>
   \A i, j \in DOMAIN outcome.names : (i < j /\ outcome.names[j] # "alpha") =>
      \E a, b \in DOMAIN Canon(req.scat) : a < b /\ Canon(req.scat)[a] = outcome.names[i] /\ Canon(req.scat)[b] = outcome.names[j]
BaseUntouched == base = "as_given"
SameAnswerEveryTime == [][calls >= 1 => outcome' = outcome]_vars
=============================================================================
