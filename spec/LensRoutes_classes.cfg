SPECIFICATION ClassesOnly
CHECK_DEADLOCK FALSE
