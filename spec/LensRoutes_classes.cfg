SPECIFICATION ClassesOnly
CHECK_DEADLOCK FALSE
CONSTANT MaxCalls = 3
