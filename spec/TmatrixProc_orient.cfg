SPECIFICATION Spec
CONSTANTS
  Mode = "orient"
  MaxSteps = 2
INVARIANT AliveForever
INVARIANT NeverDied
PROPERTY ParticleNeverChanges
CHECK_DEADLOCK FALSE
