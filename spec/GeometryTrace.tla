---------------------------- MODULE GeometryTrace ----------------------------
(* C20, numeric clauses recorded from the real code:                                   *)
(*  Voxel   : voxelised volume of a sphere/ellipsoid at spacings r/5, r/10, r/20 versus *)
(*            the analytic volume (relative error in millibel): converges              *)
(*  Surface : off-lattice points 1e-9 inside / outside the surface along the normal    *)
(*  LargestOverlap : reported value versus max(rsum - sqrt(d2)) over pairs             *)
EXTENDS TraceIO, Tolerances
VARIABLES tid, l
Clauses(e) ==
  IF e.event = "Voxel"
  THEN [fine_within_tol |-> e.mb_fine <= Tol_voxel_fine,
        converges       |-> e.mb_fine <= e.mb_coarse,
        bounds_contain  |-> e.bounds_contain = TRUE]
  ELSE IF e.event = "Surface"
  THEN [just_inside_is_inside |-> e.inside_ok = TRUE, just_outside_is_outside |-> e.outside_ok = TRUE]
  ELSE IF e.event = "LargestOverlap"
  THEN [value |-> e.mb <= Tol_overlap]
  ELSE [known_event |-> FALSE]
StepOK(e) == \A k \in DOMAIN Clauses(e) : Clauses(e)[k]
Init == /\ tid \in Tids /\ l = 1 /\ TLCSet(tid, 1)
Step == /\ l <= Len(Traces[tid]) /\ StepOK(Traces[tid][l])
        /\ l' = l + 1 /\ UNCHANGED tid /\ TLCSet(tid, l + 1)
Spec == Init /\ [][Step]_<<tid, l>>
Accepted == \A t \in Tids : Verdict(t, Clauses)
=============================================================================
