------------------------------ MODULE FitSession ------------------------------
(***************************************************************************)
(* C13.  A fitting session over one model, one data set and one strategy   *)
(* object: Fit, reading the lazily cached attributes of the result (each   *)
(* read also changes what will be serialised), Save, Load, and fitting     *)
(* again with the same objects.  Invariants:                               *)
(*   ScratchCleanAfterFit  the strategy keeps no per-fit references        *)
(*   Repeatable            the same objects give the same parameters       *)
(*   LoadedEquivalent      whatever was cached before Save, the loaded     *)
(*                         result is equivalent to the saved one           *)
(* The numerical clauses (fixed point, never worse than the guess, within  *)
(* bounds, recovery, hologram = forward, lnprob = posterior) are recorded  *)
(* per fit and validated by FitSessionTrace.                               *)
(***************************************************************************)
EXTENDS Integers, Sequences, FiniteSets

CONSTANTS MaxSteps

VARIABLES cfg, nfits, scratch, cached, saved, loaded, steps
vars == <<cfg, nfits, scratch, cached, saved, loaded, steps>>

Strategies == {"nmpfit", "scipy"}
DataKinds == {"full", "subset"}
\* on_lower / on_upper: one parameter's starting value sits exactly on a bound of its prior (a guess
\* clipped to the box), the generating value a few percent inside
Starts == {"truth", "nearby", "on_lower", "on_upper"}
Theories == {"mie", "mielens_fitted_angle"}
Origins == {"at_zero", "offset", "particle_on_axis"}   \* the last: the cut-out's x axis straddles 0 and the particle sits at x = 0 exactly
OriginsNote == "at_zero / offset:"     \* where the image's coordinate axes start (a region cut out of a larger image)
Caches == {"hologram", "guess_hologram", "max_lnprob"}
None == <<FALSE, {}>>

Init == /\ cfg \in [strategy : Strategies, data : DataKinds, start : Starts, theory : Theories, origin : Origins]
        /\ nfits = 0 /\ scratch = "clean" /\ cached = {} /\ saved = None /\ loaded = None /\ steps = 0

Fit == /\ steps < MaxSteps /\ nfits < 2
       /\ nfits' = nfits + 1
       /\ scratch' = "clean"               \* dirty only *during* the call
       /\ cached' = {} /\ saved' = None /\ loaded' = None    \* a new result object
       /\ steps' = steps + 1 /\ UNCHANGED cfg
Read(c) == /\ steps < MaxSteps /\ nfits >= 1 /\ c \notin cached
           /\ cached' = cached \cup {c}
           /\ steps' = steps + 1 /\ UNCHANGED <<cfg, nfits, scratch, saved, loaded>>
Save == /\ steps < MaxSteps /\ nfits >= 1 /\ saved = None
        /\ saved' = <<TRUE, cached>>       \* the file holds exactly what was cached at that time
        /\ steps' = steps + 1 /\ UNCHANGED <<cfg, nfits, scratch, cached, loaded>>
Load == /\ steps < MaxSteps /\ saved # None /\ loaded = None
        /\ loaded' = saved
        /\ steps' = steps + 1 /\ UNCHANGED <<cfg, nfits, scratch, cached, saved>>

Next == Fit \/ (\E c \in Caches : Read(c)) \/ Save \/ Load
Spec == Init /\ [][Next]_vars

ScratchCleanAfterFit == scratch = "clean"
LoadedHasWhatWasSaved == (loaded # None) => loaded = saved
FitResetsResult == [][(nfits' # nfits) => (cached' = {} /\ saved' = None)]_vars
=============================================================================
