------------------------------- MODULE Shapes -------------------------------
(***************************************************************************)
(* Extension X08 (beyond the listed properties).  The composite bodies no  *)
(* listed property names: the two Janus spheres and the capsule.  Each is  *)
(* a body of revolution about its own axis (the cap of a Janus sphere and  *)
(* the long axis of a capsule point along +z before the Euler rotation), so*)
(* a point is described in the body's frame by its axial coordinate t and  *)
(* its distance a from the axis - integers here, in half units, so that    *)
(* the specification decides the domain of the point EXACTLY:              *)
(*   janus_uniform  core: a^2+t^2 < R0^2 (domain 1); cap: t > 0 and        *)
(*                  a^2+t^2 < R1^2 (domain 2)                              *)
(*   janus_tapered  core as above (1); cap: inside the core's copy shifted *)
(*                  by R1-R0 along the axis, outside the core (2)          *)
(*   capsule        closer than D/2 to the segment |t| <= H/2 of the axis  *)
(* Points on a surface are left out.  The body is then moved by lattice    *)
(* vectors, the point with it: the domain never changes (Translate), and   *)
(* the bounding box always contains the point if it is inside.             *)
(***************************************************************************)
EXTENDS Integers, Sequences, FiniteSets

CONSTANTS MaxSteps

VARIABLES body, pt, shift, steps,
          where          \* the domain the point is in: what the implementation must answer at this state
vars == <<body, pt, shift, steps, where>>

Kinds == {"janus_uniform", "janus_tapered", "capsule"}
Orients == {"as_built", "flipped", "along_x", "tilted"}      \* Euler angles chosen by the harness
\* sizes in half units
R0 == 12   R1 == 16          \* Janus: core and coat radii (6 and 8)
D2 == 8    H2 == 10          \* capsule: radius 4, half length 5

Coords == {-21, -17, -13, -9, -5, -1, 3, 7, 11, 15, 19}        \* odd half units: never 0, rarely on a surface
Sq(x) == x * x

OnSurface(k, a, t) ==
  IF k = "janus_uniform" THEN Sq(a) + Sq(t) \in {Sq(R0), Sq(R1)}
  ELSE IF k = "janus_tapered" THEN Sq(a) + Sq(t) = Sq(R0) \/ Sq(a) + Sq(t - (R1 - R0)) = Sq(R0)
  ELSE (IF t > H2 THEN Sq(a) + Sq(t - H2) = Sq(D2) ELSE IF t < -H2 THEN Sq(a) + Sq(t + H2) = Sq(D2) ELSE a = D2)

Domain(k, a, t) ==
  IF k = "janus_uniform" THEN (IF Sq(a) + Sq(t) < Sq(R0) THEN 1 ELSE IF t > 0 /\ Sq(a) + Sq(t) < Sq(R1) THEN 2 ELSE 0)
  ELSE IF k = "janus_tapered" THEN (IF Sq(a) + Sq(t) < Sq(R0) THEN 1
                                    ELSE IF Sq(a) + Sq(t - (R1 - R0)) < Sq(R0) THEN 2 ELSE 0)
  ELSE (IF t > H2 THEN (IF Sq(a) + Sq(t - H2) < Sq(D2) THEN 1 ELSE 0)
        ELSE IF t < -H2 THEN (IF Sq(a) + Sq(t + H2) < Sq(D2) THEN 1 ELSE 0)
        ELSE (IF a < D2 THEN 1 ELSE 0))          \* the capsule is one material: inside or not

Lattice == {<<1, 0, 0>>, <<0, -2, 1>>, <<-1, 1, 3>>}
Plus(p, q) == <<p[1] + q[1], p[2] + q[2], p[3] + q[3]>>

Init == /\ body \in [kind : Kinds, orient : Orients]
        /\ pt \in {<<a, t>> : a \in {c \in Coords : c > 0}, t \in Coords}
        /\ ~OnSurface(body.kind, pt[1], pt[2])
        /\ shift = <<0, 0, 0>> /\ steps = 0
        /\ where = Domain(body.kind, pt[1], pt[2])

Translate(v) == /\ steps < MaxSteps /\ shift' = Plus(shift, v) /\ steps' = steps + 1 /\ UNCHANGED <<body, pt, where>>
Next == \E v \in Lattice : Translate(v)
Spec == Init /\ [][Next]_vars

DomainIsThePointsOwn == where = Domain(body.kind, pt[1], pt[2])
DomainNeverMoves == [][where' = where]_vars
\* sanity of the specification itself: each body has points of each of its domains and outside points
ASSUME \A k \in Kinds : \A d \in (IF k = "capsule" THEN {0, 1} ELSE {0, 1, 2}) :
          \E a \in Coords, t \in Coords : a > 0 /\ ~OnSurface(k, a, t) /\ Domain(k, a, t) = d
=============================================================================
