-------------------------- MODULE DetectorViewsTrace --------------------------
(* C07, recorded calls of make_subset_data(detector, pixels=k, seed=s,                 *)
(* return_selection=True) and of forward calculations on the subset (code -> spec).   *)
(* The selection itself is the implementation's choice; the specification constrains  *)
(* it: k distinct flat indices of the grid, element n of the subset sits at pixel      *)
(* FlatToIJ(sel[n]) with that pixel's value, coordinates and the image's metadata;     *)
(* the same seed gives the same selection; the original axes are remembered; the       *)
(* forward calculation on the subset equals the calculation on the grid at sel.        *)
EXTENDS TraceIO, Tolerances, FiniteSets
VARIABLES tid, l
Mod(a, b) == a - b * (a \div b)
RangeOf(s) == {s[k] : k \in DOMAIN s}
Clauses(e) ==
  [ right_count        |-> Len(e.sel) = e.k,
    distinct           |-> Cardinality(RangeOf(e.sel)) = Len(e.sel),
    in_range           |-> \A n \in DOMAIN e.sel : e.sel[n] >= 0 /\ e.sel[n] < e.nx * e.ny,
    position_by_index  |-> \A n \in DOMAIN e.sel : e.xi[n] = e.sel[n] \div e.ny /\ e.yj[n] = Mod(e.sel[n], e.ny),
    values_kept        |-> e.values_kept = TRUE,
    metadata_kept      |-> e.attrs_kept = TRUE,
    original_axes      |-> e.orig_dims_ok = TRUE,
    reproducible       |-> e.same_seed_same_selection = TRUE,
    input_untouched    |-> e.input_untouched = TRUE,
    commutes_with_calc |-> e.mb_commute <= Tol_view_commute ]
StepOK(e) == \A k \in DOMAIN Clauses(e) : Clauses(e)[k]
Init == /\ tid \in Tids /\ l = 1 /\ TLCSet(tid, 1)
Step == /\ l <= Len(Traces[tid]) /\ StepOK(Traces[tid][l])
        /\ l' = l + 1 /\ UNCHANGED tid /\ TLCSet(tid, l + 1)
Spec == Init /\ [][Step]_<<tid, l>>
Accepted == \A t \in Tids : Verdict(t, Clauses)
=============================================================================
