SPECIFICATION Spec
CONSTANTS
  Mode = "fft"
  MaxN = 3
  MaxSteps = 4
INVARIANT BandNeverMasked
PROPERTY InverseInBand
PROPERTY NetAdds
CHECK_DEADLOCK FALSE
