-------------------------- MODULE TmatrixProcTrace --------------------------
(* C10: every T-matrix call enumerated by TmatrixProc is executed in a child            *)
(* interpreter that prints a sentinel after the call returned or raised; the recorded    *)
(* outcome is validated here: never "died"; "finite" wherever the specification says     *)
(* the solver must deliver; numerical relations within tolerance.                        *)
EXTENDS TraceIO, Tolerances
VARIABLES tid, l
Clauses(e) ==
  IF e.event = "Call"
  THEN [never_kills_interpreter |-> e.outcome # "died",
        outcome_known           |-> e.outcome \in {"finite", "exception"},
        finite_where_required   |-> (e.must_be_finite = TRUE) => e.outcome = "finite"]
  ELSE IF e.event = "Relation"
  THEN [within_tolerance |-> e.mb <= e.tol_mb]
  ELSE [known_event |-> FALSE]
StepOK(e) == \A k \in DOMAIN Clauses(e) : Clauses(e)[k]
Init == /\ tid \in Tids /\ l = 1 /\ TLCSet(tid, 1)
Step == /\ l <= Len(Traces[tid]) /\ StepOK(Traces[tid][l])
        /\ l' = l + 1 /\ UNCHANGED tid /\ TLCSet(tid, l + 1)
Spec == Init /\ [][Step]_<<tid, l>>
Accepted == \A t \in Tids : Verdict(t, Clauses)
=============================================================================
