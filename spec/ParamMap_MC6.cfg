SPECIFICATION Spec
CONSTANTS
  NSites = 6
  NP = 3
  ScatSites = 4
  MaxTies = 2
  NEq = 2
  Namings = {1, 2, 3, 4}
INVARIANT TypeOK
INVARIANT IndicesInRange
INVARIANT FixedUntouched
INVARIANT ReadBack
INVARIANT Partition
INVARIANT OneParamPerDistinctPrior
INVARIANT NoOrphanParameter
INVARIANT FirstUseOrder
INVARIANT OnlyEqualTied
PROPERTY TieRemovesExactlyDuplicates
PROPERTY TiePreservesOthers
PROPERTY RejectedChangesNothing
CHECK_DEADLOCK FALSE
