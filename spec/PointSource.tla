----------------------------- MODULE PointSource -----------------------------
(***************************************************************************)
(* Extension X07 (beyond the listed properties).  Reconstruction of a      *)
(* hologram recorded with a diverging (point-source) reference beam:       *)
(*     ps_propagate(image, d, L, beam_centre, out_schema)                  *)
(* The user keeps one image and asks for reconstructions, again and again, *)
(* in different forms: one depth or a list / array of depths (a volume),   *)
(* with or without an output schema.  The meaning of a request is a        *)
(* sequence of PLANES; a plane is determined by (depth, beam centre,       *)
(* output form) alone:                                                     *)
(*   - a volume is the stack of its single-depth reconstructions, in the   *)
(*     order the depths were listed, labelled by them (the implementation  *)
(*     shares the depth-independent part of the work between the planes);  *)
(*   - the answer does not depend on what was asked before;                *)
(*   - the image is never edited;                                          *)
(*   - the reconstruction is linear in the image (Scale / Add of images    *)
(*     are the harness's own extra comparisons per plane).                 *)
(***************************************************************************)
EXTENDS Integers, Sequences, FiniteSets

CONSTANTS MaxCalls

VARIABLES log,        \* the requests made so far
          answer,     \* planes of the last answer
          image       \* "as_given" for ever
vars == <<log, answer, image>>

Depths == {"near", "mid", "far"}
DForms == {"scalar", "list", "array"}
Outs == {"none", "same", "finer"}     \* out_schema: absent / the image itself / half the pitch and half as many pixels
OutNF(o) == IF o = "same" THEN "none" ELSE o          \* the image as its own output schema says nothing new
Beams == {"centre", "off_centre"}

\* depth lists a user may write: any order, repeats allowed, one to three entries
DepthLists == UNION {[1..k -> Depths] : k \in 1..3}

Requests == {[form |-> f, depths |-> ds, out |-> o, beam |-> b] :
               f \in DForms, ds \in DepthLists, o \in Outs, b \in Beams}
Legal(r) == (r.form = "scalar") => (Len(r.depths) = 1)

Plane(r, i) == <<r.depths[i], r.beam, OutNF(r.out)>>
Planes(r) == [i \in 1..Len(r.depths) |-> Plane(r, i)]

\* the harness replays a covering subset of the requests (constant sets keep TLC's action labels)
Catalogue == {r \in Requests : Legal(r) /\ (Len(r.depths) = 3 => (r.out = "none" /\ r.beam = "centre"))
                                        /\ (Len(r.depths) = 2 => r.depths[1] # r.depths[2] \/ r.out = "none")}

Init == log = <<>> /\ answer = <<>> /\ image = "as_given"

Call(r) == /\ Len(log) < MaxCalls
           /\ log' = Append(log, r)
           /\ answer' = Planes(r)
           /\ image' = image

Next == \E r \in Catalogue : Call(r)
Spec == Init /\ [][Next]_vars

----------------------------------------------------------------------------
OnePlanePerDepth == log # <<>> => Len(answer) = Len(log[Len(log)].depths)
LabelsAreTheDepths == log # <<>> => \A i \in DOMAIN answer : answer[i][1] = log[Len(log)].depths[i]
ImageNeverEdited == image = "as_given"
\* the last answer is a function of the last request only
AnswerForgetsHistory == log # <<>> => answer = Planes(log[Len(log)])
\* a plane does not know whether it was asked for alone or inside a volume, nor in which form
ASSUME PlaneIsFormFree == \A r1, r2 \in Catalogue : \A i \in DOMAIN r1.depths, j \in DOMAIN r2.depths :
      (r1.depths[i] = r2.depths[j] /\ r1.beam = r2.beam /\ OutNF(r1.out) = OutNF(r2.out)) => Plane(r1, i) = Plane(r2, j)
=============================================================================
