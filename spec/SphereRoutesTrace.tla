-------------------------- MODULE SphereRoutesTrace --------------------------
(* C02: recorded defects of the relations named in SphereRoutes.tla (code -> spec).     *)
(* Each event: [rel, mb, xcls?]; the tolerance of a relation may depend on the size      *)
(* class, because HoloPy's default continued-fraction tolerance limits the Lorenz-Mie    *)
(* coefficients to about 1e-5 for size parameters >= 50.                                *)
EXTENDS TraceIO, Tolerances
VARIABLES tid, l
BigX(e) == e.xcls \in {"xlarge", "huge"}
\* relative index 2.5: sharp resonances amplify the cluster solver's truncation and its single-precision
\* inputs (a relative change of 1e-8 in n leaves its result bit-identical)
Dense(e) == e.mcls = "high"
TolOf(e) ==
   IF e.rel = "layers_equal_canonical" THEN Tol_layers
   ELSE IF e.rel = "thickness_equals_radius" THEN Tol_layers
   ELSE IF e.rel = "S_mie_vs_textbook" THEN (IF BigX(e) THEN Tol_S_mie_big ELSE Tol_S_mie)
   ELSE IF e.rel = "S_pyseries_vs_textbook" THEN (IF BigX(e) THEN Tol_S_mie_big ELSE Tol_S_pyseries)
   ELSE IF e.rel = "field_mie_vs_multisphere" THEN (IF Dense(e) THEN Tol_mie_multisphere_default_dense ELSE Tol_mie_multisphere_default)
   ELSE IF e.rel = "field_mie_vs_multisphere_radial" THEN (IF Dense(e) THEN Tol_mie_multisphere_default_dense ELSE Tol_mie_multisphere_default)
   ELSE IF e.rel = "field_mie_vs_multisphere_tight" THEN (IF Dense(e) THEN Tol_mie_multisphere_tight_dense ELSE Tol_mie_multisphere_tight)
   ELSE IF e.rel = "field_mie_vs_textbook_farfield" THEN (IF BigX(e) THEN Tol_S_mie_big ELSE Tol_S_mie)
   ELSE IF e.rel = "field_moves_with_detector" THEN Tol_field_invariance
   ELSE IF e.rel = "field_turns_with_polarisation" THEN Tol_field_invariance
   ELSE IF e.rel = "field_finite" THEN -1
   ELSE -30000            \* unknown relation: never accepted
Clauses(e) == [known_relation |-> TolOf(e) > -30000, within_tolerance |-> e.mb <= TolOf(e)]
StepOK(e) == \A k \in DOMAIN Clauses(e) : Clauses(e)[k]
Init == /\ tid \in Tids /\ l = 1 /\ TLCSet(tid, 1)
Step == /\ l <= Len(Traces[tid]) /\ StepOK(Traces[tid][l])
        /\ l' = l + 1 /\ UNCHANGED tid /\ TLCSet(tid, l + 1)
Spec == Init /\ [][Step]_<<tid, l>>
Accepted == \A t \in Tids : Verdict(t, Clauses)
=============================================================================
