----------------------------- MODULE SphereRoutes -----------------------------
(***************************************************************************)
(* C02.  Mode "layers": descriptions of a layered sphere as a sequence of  *)
(* <<index class, outer radius>> and the rewriting steps that must not     *)
(* change what it scatters: splitting a layer in two layers of the same    *)
(* index, merging adjacent equal-index layers, adding or dropping an outer *)
(* layer with the medium's index (class 0).  canon is the normal form; TLC *)
(* checks every step preserves it (CanonPreserved) and that thickness and  *)
(* radius descriptions are inverse.  The harness replays every edge on     *)
(* real Sphere / LayeredSphere objects and compares with the canonical     *)
(* sphere (state merging).                                                 *)
(* Mode "solvers": the catalogue of (index, size, position, polarisation,  *)
(* option) classes on which the independent single-sphere routes are       *)
(* compared, with the relations that apply to each class.                  *)
(***************************************************************************)
EXTENDS Integers, Sequences, FiniteSets

CONSTANTS Mode, RMax, MaxLayers, MaxSteps

VARIABLES desc, canon, steps, cls
vars == <<desc, canon, steps, cls>>

Idx == 0..2                 \* 0 = the medium's index
Layer(i, r) == <<i, r>>

RECURSIVE DropOuterMedium(_)
DropOuterMedium(d) == IF Len(d) > 1 /\ d[Len(d)][1] = 0 THEN DropOuterMedium(SubSeq(d, 1, Len(d) - 1)) ELSE d
RECURSIVE MergeEqual(_)
MergeEqual(d) == IF Len(d) <= 1 THEN d
                 ELSE IF d[1][1] = d[2][1] THEN MergeEqual(SubSeq(d, 2, Len(d)))
                 ELSE <<d[1]>> \o MergeEqual(SubSeq(d, 2, Len(d)))
Canon(d) == LET c == MergeEqual(DropOuterMedium(MergeEqual(d)))
            IN IF Len(c) = 1 /\ c[1][1] = 0 THEN <<>> ELSE c     \* a sphere of the medium's index scatters nothing

Increasing(d) == \A i \in 1..Len(d) - 1 : d[i][2] < d[i + 1][2]
Descs == {d \in UNION {[1..n -> Idx \X (1..RMax)] : n \in 1..MaxLayers} : Increasing(d)}

ByThickness(d) == [i \in 1..Len(d) |-> <<d[i][1], IF i = 1 THEN d[1][2] ELSE d[i][2] - d[i - 1][2]>>]
RECURSIVE SumT(_, _)
SumT(t, i) == IF i = 0 THEN 0 ELSE t[i][2] + SumT(t, i - 1)
ByRadius(t) == [i \in 1..Len(t) |-> <<t[i][1], SumT(t, i)>>]

(* solver classes *)
MClasses == {"low", "mid", "high", "weak_abs", "strong_abs"}
XClasses == {"rayleigh", "small", "unit", "medium", "large", "xlarge", "huge"}
PosClasses == {"near", "mid", "far"}
PolIdx == {0, 2, 6, 11}                  \* multiples of 15 degrees
Options == {"rad_full", "norad_full", "norad_asym", "rad_asym"}
SolverClasses == [m : MClasses, x : XClasses, pos : PosClasses, pol : PolIdx, opt : Options]

(* which relations are asserted for a class *)
Relations(c) ==
   {"S_mie_vs_textbook", "S_pyseries_vs_textbook"}
   \* the cluster solver accepts spheres up to size parameter 1000 (its documentation and its guard): every size
   \* class here is inside that range
   \cup (IF c.opt = "norad_full" THEN {"field_mie_vs_multisphere"} ELSE {})
   \* both solvers asked for the radial component as well (where it matters: not far away, not beyond the order cap)
   \cup (IF c.opt = "rad_full" /\ c.pos \in {"near", "mid"} /\ c.x \notin {"xlarge", "huge"}
         THEN {"field_mie_vs_multisphere_radial"} ELSE {})
   \cup (IF c.opt = "norad_asym" /\ c.pos = "far" THEN {"field_mie_vs_textbook_farfield"} ELSE {})
   \cup (IF c.opt = "rad_full" THEN {"field_finite"} ELSE {})

Init == /\ steps = 0
        /\ \/ Mode = "layers" /\ desc \in Descs /\ canon = Canon(desc) /\ cls = <<>>
           \/ Mode = "solvers" /\ desc = <<>> /\ canon = <<>>
              /\ cls \in {[c |-> c, rels |-> Relations(c)] : c \in SolverClasses}

Split(i, r) == /\ Mode = "layers" /\ steps < MaxSteps /\ Len(desc) < MaxLayers
               /\ i \in 1..Len(desc) /\ r < desc[i][2] /\ (IF i = 1 THEN TRUE ELSE r > desc[i - 1][2])
               /\ desc' = SubSeq(desc, 1, i - 1) \o <<Layer(desc[i][1], r)>> \o SubSeq(desc, i, Len(desc))
               /\ canon' = Canon(desc') /\ steps' = steps + 1 /\ UNCHANGED cls
Merge(i) == /\ Mode = "layers" /\ steps < MaxSteps
            /\ i \in 1..Len(desc) - 1 /\ desc[i][1] = desc[i + 1][1]
            /\ desc' = SubSeq(desc, 1, i - 1) \o SubSeq(desc, i + 1, Len(desc))
            /\ canon' = Canon(desc') /\ steps' = steps + 1 /\ UNCHANGED cls
AddOuterMedium(r) == /\ Mode = "layers" /\ steps < MaxSteps /\ Len(desc) < MaxLayers
                     /\ r > desc[Len(desc)][2]
                     /\ desc' = Append(desc, Layer(0, r))
                     /\ canon' = Canon(desc') /\ steps' = steps + 1 /\ UNCHANGED cls
DropMedium == /\ Mode = "layers" /\ steps < MaxSteps /\ Len(desc) > 1 /\ desc[Len(desc)][1] = 0
              /\ desc' = SubSeq(desc, 1, Len(desc) - 1)
              /\ canon' = Canon(desc') /\ steps' = steps + 1 /\ UNCHANGED cls

Next == \/ \E i \in 1..MaxLayers, r \in 1..RMax : Split(i, r)
        \/ \E i \in 1..MaxLayers : Merge(i)
        \/ \E r \in 1..RMax : AddOuterMedium(r)
        \/ DropMedium
Spec == Init /\ [][Next]_vars

CanonPreserved == [][canon' = canon]_vars
CanonIsNormal == Mode = "layers" =>
   /\ \A i \in 1..Len(canon) - 1 : canon[i][1] # canon[i + 1][1]
   /\ (Len(canon) >= 1 => canon[Len(canon)][1] # 0)
   /\ Canon(canon) = canon
ThicknessRadiusInverse == Mode = "layers" => ByRadius(ByThickness(desc)) = desc
LayersView == <<desc, canon, cls>>
=============================================================================
