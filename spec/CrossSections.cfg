SPECIFICATION Spec
INVARIANT EveryClassHasCore
CHECK_DEADLOCK FALSE
