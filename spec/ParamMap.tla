------------------------------ MODULE ParamMap ------------------------------
(***************************************************************************)
(* C11.  How a HoloPy Model turns a description with priors at some leaf   *)
(* *sites* into a flat parameter list plus a site -> parameter map, how    *)
(* add_tie() edits both, and what substituting values must give back.      *)
(*                                                                         *)
(* A site is one leaf position of the description in the Mapper's          *)
(* traversal order (scatterer, theory, optics, model).  assign[s] = 0      *)
(* means a fixed number, assign[s] = p > 0 means prior object p is used    *)
(* there (the same p at two sites = the same Python object used twice).    *)
(* Priors p, q are equal-by-value iff EqClass[p] = EqClass[q].             *)
(*                                                                         *)
(* Identity domains (what the code does, stated rather than idealised):    *)
(* Model.__init__ maps `scatterer.parameters`, which is a deep copy of the *)
(* scatterer's arguments, so a prior object used inside the scatterer AND  *)
(* in the theory/optics/scaling description is seen as two objects (equal  *)
(* by value).  Sharing inside the scatterer, and sharing among theory,     *)
(* optics and model arguments, is by identity.  Eff(s) is the object seen  *)
(* at site s: p inside the scatterer, p + NP outside.  The property        *)
(* quantifies over sharing between places of the scatterer.                *)
(*                                                                         *)
(* One action per step of the implementation: Visit(site) is one call of   *)
(* Mapper.convert_to_map on a leaf; Finish is the end of Model.__init__;   *)
(* AddTie(I) / AddTieRejected(I) / AddTieUnknown are Model.add_tie.        *)
(***************************************************************************)
EXTENDS Integers, Sequences, FiniteSets, TLC

CONSTANTS NSites,      \* number of leaf sites
          ScatSites,   \* sites 1..ScatSites belong to the scatterer description
          NP,          \* number of distinct prior objects available
          MaxTies,     \* bound on successive add_tie calls
          NEq,         \* priors 1..NEq are equal by value; the others are pairwise unequal
          Namings      \* set of naming pattern ids (opaque to this module)

VARIABLES assign,      \* [1..NSites -> 0..NP]   input, constant per behaviour
          naming,      \* naming pattern, constant per behaviour (bound by harness)
          phase,       \* "build" | "ready"
          pos,         \* next site to visit
          par,         \* sequence of parameters; each = set of prior ids it stands for
          siteParam,   \* [1..NSites -> 0..Len(par)]  0 = fixed
          nties,
          last         \* outcome of the last API call: "none" | "ok" | "rejected"

vars == <<assign, naming, phase, pos, par, siteParam, nties, last>>

Sites  == 1..NSites
Priors == 1..NP
Objs   == 1..2*NP                       \* effective objects: scatterer copies, then the rest
Base(o) == IF o > NP THEN o - NP ELSE o
Eff(s) == IF assign[s] = 0 THEN 0 ELSE IF s <= ScatSites THEN assign[s] ELSE assign[s] + NP
Min(S) == CHOOSE x \in S : \A y \in S : x <= y
EqClass == [o \in Objs |-> IF Base(o) <= NEq THEN 1 ELSE Base(o)]

IndexOfPrior(p) == CHOOSE i \in 1..Len(par) : p \in par[i]
Known(p)        == \E i \in 1..Len(par) : p \in par[i]

Init == /\ assign \in [Sites -> 0..NP]
        /\ naming \in Namings
        /\ phase = "build" /\ pos = 1 /\ par = <<>>
        /\ siteParam = [s \in Sites |-> 0]
        /\ nties = 0 /\ last = "none"

(* one leaf of convert_to_map: tie by *identity*, else a new parameter *)
Visit == /\ phase = "build" /\ pos <= NSites
         /\ LET a == Eff(pos) IN
              IF a = 0 THEN UNCHANGED <<par, siteParam>>
              ELSE IF Known(a)
                   THEN /\ siteParam' = [siteParam EXCEPT ![pos] = IndexOfPrior(a)]
                        /\ UNCHANGED par
                   ELSE /\ par' = Append(par, {a})
                        /\ siteParam' = [siteParam EXCEPT ![pos] = Len(par) + 1]
         /\ pos' = pos + 1
         /\ UNCHANGED <<assign, naming, phase, nties, last>>

Finish == /\ phase = "build" /\ pos = NSites + 1
          /\ phase' = "ready" /\ last' = "ok"
          /\ UNCHANGED <<assign, naming, pos, par, siteParam, nties>>

(* edit_map_indices, transcribed *)
NewIndex(old, I) ==
   IF old \in I THEN Min(I)
   ELSE IF old < Min(I) THEN old
   ELSE old - (Cardinality({i \in I : i < old}) - 1)

ClassOf(i) == EqClass[Min(par[i])]   \* all members of a parameter share a class

Tieable(I) == \A i, j \in I : ClassOf(i) = ClassOf(j)

AddTie(I) ==
   /\ phase = "ready" /\ nties < MaxTies
   /\ I # {} /\ I \subseteq 1..Len(par) /\ Tieable(I)
   /\ LET keepIdx == {i \in 1..Len(par) : i \notin I \/ i = Min(I)}
          newLen  == Cardinality(keepIdx)
          oldOf(k) == CHOOSE i \in keepIdx : Cardinality({j \in keepIdx : j < i}) = k - 1
      IN /\ par' = [k \in 1..newLen |->
                      IF oldOf(k) = Min(I) THEN UNION {par[i] : i \in I} ELSE par[oldOf(k)]]
         /\ siteParam' = [s \in Sites |->
                      IF siteParam[s] = 0 THEN 0 ELSE NewIndex(siteParam[s], I)]
   /\ nties' = nties + 1 /\ last' = "ok"
   /\ UNCHANGED <<assign, naming, phase, pos>>

AddTieRejected(I) ==           \* unequal priors: ValueError, nothing changes
   /\ phase = "ready" /\ nties < MaxTies
   /\ I # {} /\ I \subseteq 1..Len(par) /\ ~Tieable(I)
   /\ last' = "rejected" /\ nties' = nties + 1
   /\ UNCHANGED <<assign, naming, phase, pos, par, siteParam>>

AddTieUnknown ==               \* a name that is not a parameter: ValueError
   /\ phase = "ready" /\ nties < MaxTies /\ last # "rejected"
   /\ last' = "rejected" /\ nties' = nties + 1
   /\ UNCHANGED <<assign, naming, phase, pos, par, siteParam>>

Next == \/ Visit \/ Finish
        \/ \E I \in SUBSET Sites : AddTie(I)           \* constant bound: TLC labels each
        \/ \E I \in SUBSET Sites : AddTieRejected(I)   \* edge with the action and its argument
        \/ AddTieUnknown

Spec == Init /\ [][Next]_vars

-----------------------------------------------------------------------------
(* What reading the map back must give: substituting one value per parameter *)
ValueAt(s, vals) == IF siteParam[s] = 0 THEN "fixed" ELSE vals[siteParam[s]]

TypeOK == /\ phase \in {"build", "ready"} /\ pos \in 1..NSites + 1
          /\ nties \in 0..MaxTies /\ last \in {"none", "ok", "rejected"}

IndicesInRange == \A s \in Sites : siteParam[s] \in 0..Len(par)

FixedUntouched == \A s \in Sites : s < pos /\ assign[s] = 0 => siteParam[s] = 0

(* every site whose prior is p reads the parameter that stands for p *)
ReadBack == \A s \in Sites : (s < pos /\ assign[s] # 0) =>
               /\ siteParam[s] \in 1..Len(par)
               /\ Eff(s) \in par[siteParam[s]]

(* parameters partition the used priors: one parameter per distinct prior, modulo ties *)
Partition == /\ \A i, j \in 1..Len(par) : i # j => par[i] \cap par[j] = {}
             /\ \A i \in 1..Len(par) : par[i] # {}
             /\ UNION {par[i] : i \in 1..Len(par)} = {Eff(s) : s \in {t \in Sites : t < pos}} \ {0}

OneParamPerDistinctPrior ==
   (phase = "ready" /\ nties = 0) =>
       Len(par) = Cardinality({Eff(s) : s \in Sites} \ {0})

NoOrphanParameter == phase = "ready" =>
   \A i \in 1..Len(par) : \E s \in Sites : siteParam[s] = i

FirstUseOrder == \* parameters are ordered by first use (what list-ordered values rely on)
   nties = 0 => \A i, j \in 1..Len(par) : i < j =>
       Min({s \in Sites : siteParam[s] = i}) < Min({s \in Sites : siteParam[s] = j})

OnlyEqualTied == \A i \in 1..Len(par) : \A p, q \in par[i] : EqClass[p] = EqClass[q]

(* action properties *)
TieRemovesExactlyDuplicates ==
   [][\A I \in SUBSET (1..Len(par)) : AddTie(I) => Len(par') = Len(par) - (Cardinality(I) - 1)]_vars

TiePreservesOthers ==
   [][(phase = "ready" /\ phase' = "ready" /\ par' # par) =>
        \A s \in Sites : siteParam[s] # 0 =>
           par[siteParam[s]] \subseteq par'[siteParam'[s]]]_vars

RejectedChangesNothing ==
   [][last' = "rejected" => (par' = par /\ siteParam' = siteParam)]_vars
=============================================================================
