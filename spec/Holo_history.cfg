SPECIFICATION Spec
CONSTANTS
  Mode = "history"
  MaxCalls = 3
INVARIANT KwWins
INVARIANT Scaling0IsOne
PROPERTY Deterministic
CHECK_DEADLOCK FALSE
