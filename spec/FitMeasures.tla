----------------------------- MODULE FitMeasures -----------------------------
(***************************************************************************)
(* Extension X09 (beyond the listed properties).  The two goodness-of-fit  *)
(* numbers HoloPy reports for a model image against data (core.math):      *)
(*     chisq(fit, data) = sum (fit - data)^2 / N                           *)
(*     rsq(fit, data)   = 1 - sum (data - fit)^2 / sum (data - mean data)^2*)
(* on exact rationals, for every pair of small integer images.  The pair   *)
(* is then changed in ways whose effect on the two numbers is known:       *)
(*   Shift(c)   the same constant added to both: neither number changes    *)
(*   Scale(k)   both multiplied by k: chisq times k^2, rsq unchanged       *)
(*   Reorder    the same permutation of the pixels in both: neither changes*)
(*   Swap       fit and data exchanged: chisq unchanged                    *)
(* rsq is undefined for constant data (the specification says so; the      *)
(* implementation may answer anything there).                              *)
(***************************************************************************)
EXTENDS Integers, Sequences, FiniteSets, Rat

CONSTANTS N, Vals

VARIABLES fit, data, steps, last,
          m              \* <<chisq, rsq>> of the current pair as exact rationals (rsq <<0, 0>> when undefined)
vars == <<fit, data, steps, last, m>>

Pix == 1..N
RECURSIVE SumTo(_, _)
SumTo(f, n) == IF n = 0 THEN 0 ELSE f[n] + SumTo(f, n - 1)
Sum(f) == SumTo(f, N)
SsRes(f, d) == Sum([p \in Pix |-> (f[p] - d[p]) * (f[p] - d[p])])
\* N * sum (d - mean)^2 = N sum d^2 - (sum d)^2, an integer
NSsTot(d) == N * Sum([p \in Pix |-> d[p] * d[p]]) - Sum(d) * Sum(d)

ChiSq(f, d) == Norm(SsRes(f, d), N)
RsqDefined(d) == NSsTot(d) # 0
Rsq(f, d) == Sub(R(1), Norm(N * SsRes(f, d), NSsTot(d)))

Measures(f, d) == <<ChiSq(f, d), IF RsqDefined(d) THEN Rsq(f, d) ELSE <<0, 0>> >>

Init == /\ fit \in [Pix -> Vals] /\ data \in [Pix -> Vals]
        /\ steps = 0 /\ last = "none" /\ m = Measures(fit, data)

Shift(c) == /\ steps = 0 /\ steps' = 1 /\ last' = "shift"
            /\ fit' = [p \in Pix |-> fit[p] + c] /\ data' = [p \in Pix |-> data[p] + c]
Scale(k) == /\ steps = 0 /\ steps' = 1 /\ last' = "scale"
            /\ fit' = [p \in Pix |-> k * fit[p]] /\ data' = [p \in Pix |-> k * data[p]]
Reorder == /\ steps = 0 /\ steps' = 1 /\ last' = "reorder"
           /\ fit' = [p \in Pix |-> fit[(p % N) + 1]] /\ data' = [p \in Pix |-> data[(p % N) + 1]]
Swap == /\ steps = 0 /\ steps' = 1 /\ last' = "swap"
        /\ fit' = data /\ data' = fit
Step == (\E c \in {-2, 5} : Shift(c)) \/ (\E k \in {-1, 3} : Scale(k)) \/ Reorder \/ Swap
Next == Step /\ m' = Measures(fit', data')
Spec == Init /\ [][Next]_vars

----------------------------------------------------------------------------
MeasuresAreThePairs == m = Measures(fit, data)
ChiSqNonNegative == Le(R(0), ChiSq(fit, data))
ChiSqZeroIffEqual == IsZero(ChiSq(fit, data)) <=> fit = data
RsqAtMostOne == RsqDefined(data) => Le(Rsq(fit, data), R(1))
RsqOneIffEqual == RsqDefined(data) => ((Rsq(fit, data) = R(1)) <=> fit = data)
ShiftChangesNothing == [][last' = "shift" => (ChiSq(fit', data') = ChiSq(fit, data)
                                              /\ (RsqDefined(data) => Rsq(fit', data') = Rsq(fit, data)))]_vars
ScaleLaw == [][last' = "scale" => \E k \in {-1, 3} :
                  /\ fit' = [p \in Pix |-> k * fit[p]]
                  /\ ChiSq(fit', data') = Mul(R(k * k), ChiSq(fit, data))
                  /\ (RsqDefined(data) => Rsq(fit', data') = Rsq(fit, data))]_vars
ReorderChangesNothing == [][last' = "reorder" => (ChiSq(fit', data') = ChiSq(fit, data)
                                                  /\ (RsqDefined(data) => Rsq(fit', data') = Rsq(fit, data)))]_vars
SwapKeepsChiSq == [][last' = "swap" => ChiSq(fit', data') = ChiSq(fit, data)]_vars
=============================================================================
