SPECIFICATION Spec
CONSTANTS
  Mode = "cluster"
  L = 4
  RMax = 3
  Axes = {1, 2, 4}
  MaxShift = 2
INVARIANT OuterLayerIsUnionOfLayers
INVARIANT LayersNested
INVARIANT CsgLaws
INVARIANT NestedSpheresOverlap
INVARIANT TouchingDoNotOverlap
PROPERTY TranslateMovesRegion
CHECK_DEADLOCK FALSE
