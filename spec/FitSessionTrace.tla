--------------------------- MODULE FitSessionTrace ---------------------------
(* C13: one event per completed fit / reload with the quantised numerical observations. *)
EXTENDS TraceIO, Tolerances
VARIABLES tid, l
Clauses(e) ==
  IF e.event = "Fit"
  THEN [ names_are_models      |-> e.names_ok = TRUE,
         fixed_point_or_recovers |-> e.mb_param_error <= Tol_fit_recover,
         not_worse_than_guess  |-> e.misfit_not_worse = TRUE,
         within_bounds         |-> e.within_bounds = TRUE,
         hologram_is_forward   |-> e.mb_hologram <= Tol_fit_consistency,
         lnprob_is_posterior   |-> e.mb_lnprob <= Tol_fit_consistency,
         inputs_reusable       |-> e.model_unchanged = TRUE /\ e.data_unchanged = TRUE /\ e.strategy_unchanged = TRUE,
         scratch_clean         |-> e.scratch_clean = TRUE,
         repeatable            |-> e.mb_repeat <= Tol_fit_repeat /\ e.same_pixels = TRUE ]
  ELSE IF e.event = "Reload"
  THEN [ loaded_equivalent |-> e.params_equal = TRUE /\ e.names_equal = TRUE /\ e.model_equal = TRUE
                               /\ e.strategy_equal = TRUE /\ e.mb_hologram <= Tol_fit_consistency
                               /\ e.mb_lnprob <= Tol_fit_consistency /\ e.data_equal = TRUE ]
  ELSE IF e.event = "FrontEndFit"        \* hp.fit(data, scatterer | model, parameters, strategy), FitFrontEnd.tla
  THEN [ names_are_requested  |-> e.names_ok = TRUE,
         strategy_as_requested |-> e.strategy_ok = TRUE,
         fixed_point          |-> e.mb_param_error <= Tol_fit_recover,
         repeatable           |-> e.mb_repeat <= Tol_fit_repeat,
         inputs_reusable      |-> e.inputs_unchanged = TRUE ]
  ELSE [known_event |-> FALSE]
StepOK(e) == \A k \in DOMAIN Clauses(e) : Clauses(e)[k]
Init == /\ tid \in Tids /\ l = 1 /\ TLCSet(tid, 1)
Step == /\ l <= Len(Traces[tid]) /\ StepOK(Traces[tid][l])
        /\ l' = l + 1 /\ UNCHANGED tid /\ TLCSet(tid, l + 1)
Spec == Init /\ [][Step]_<<tid, l>>
Accepted == \A t \in Tids : Verdict(t, Clauses)
=============================================================================
