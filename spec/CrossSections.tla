----------------------------- MODULE CrossSections -----------------------------
(***************************************************************************)
(* C03.  Catalogue of sphere configurations on which the radiometric       *)
(* relations are asserted, and which relation applies where.  One action   *)
(* CrossSections(cfg) per public call; the trace specification evaluates   *)
(* every relation on the recorded results.                                 *)
(*  ext_is_sum         ext = sca + abs                                     *)
(*  abs_nonneg         abs >= 0 (relative to ext)                          *)
(*  abs_zero_real      abs = 0 for a real refractive index                 *)
(*  sca_pos, g_range   sca > 0, -1 <= g <= 1                               *)
(*  optical_theorem    ext = 4 pi / k^2 Re S(0) from calc_scat_matrix      *)
(*  sca_integral       sca = (1/k^2) Int (|S1|^2+|S2|^2)/2 dOmega (unpol.) *)
(*  g_integral         g sca = same integral weighted by cos(theta)        *)
(*  rayleigh           small-particle formula (size classes <= 0.01)       *)
(*  textbook           four numbers against the independent series         *)
(*  multisphere        one-sphere cluster reports the same four numbers    *)
(***************************************************************************)
EXTENDS Integers, Sequences, FiniteSets

VARIABLES cfg, done
vars == <<cfg, done>>

MClasses == {"low", "mid", "high", "weak_abs", "strong_abs"}
XClasses == {"rayleigh", "small", "unit", "medium", "large", "xlarge", "huge"}
Media == {"vacuum", "water", "oil"}
\* lossy_core_3: the class index in the CORE of three layers, two lossless coatings over it
Layering == {"homogeneous", "core_shell", "three_layers", "lossy_core_3"}
PolIdx == {0, 3, 6, 10}
Configs == [m : MClasses, x : XClasses, medium : Media, layers : Layering, pol : PolIdx]

IsReal(c) == c.m \in {"low", "mid", "high"}
Relations(c) ==
   {"ext_is_sum", "abs_nonneg", "sca_pos", "g_range", "optical_theorem", "sca_integral", "g_integral"}
   \cup (IF IsReal(c) THEN {"abs_zero_real"} ELSE {})
   \cup (IF c.layers = "homogeneous" THEN {"textbook"} ELSE {})
   \cup (IF c.x = "rayleigh" THEN {"rayleigh"} ELSE {})     \* layered: quasi-static effective permittivity, layer by layer
   \cup (IF c.layers = "homogeneous" /\ c.x \in {"small", "unit", "medium", "large"} /\ c.pol \in {0, 6}
         THEN {"multisphere"} ELSE {})

Init == cfg \in {[c |-> c, rels |-> Relations(c)] : c \in Configs} /\ done = FALSE
CrossSections == ~done /\ done' = TRUE /\ UNCHANGED cfg
Next == CrossSections
Spec == Init /\ [][Next]_vars
EveryClassHasCore == {"ext_is_sum", "optical_theorem", "sca_integral"} \subseteq cfg.rels
=============================================================================
