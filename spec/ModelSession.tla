----------------------------- MODULE ModelSession -----------------------------
(***************************************************************************)
(* C11 (history).  A user builds several models in one interpreter: an     *)
(* AlphaModel whose scaling is a prior, an ExactModel, a model of a         *)
(* two-sphere cluster with every argument free (12 parameters), ...  The    *)
(* parameters of a model are a function of that model's own description:    *)
(* building other models before it must not add, remove, rename or         *)
(* re-map anything.  The catalogue is concretised by the harness; the       *)
(* model enumerates every construction sequence up to MaxBuilds, the        *)
(* harness executes each in ONE interpreter and compares every model built  *)
(* with the description of the same entry built in a fresh interpreter      *)
(* (names, order, text form, value-to-place mapping).                       *)
(***************************************************************************)
EXTENDS Integers, Sequences

CONSTANTS NEntries, MaxBuilds

VARIABLES log, answer
vars == <<log, answer>>

Catalogue == 1..NEntries
Init == log = <<>> /\ answer = 0
Build(c) == /\ Len(log) < MaxBuilds
            /\ log' = Append(log, c)
            /\ answer' = c                 \* "the description of entry c", whatever was built before
Next == \E c \in Catalogue : Build(c)
Spec == Init /\ [][Next]_vars

OwnDescriptionOnly == Len(log) > 0 => answer = log[Len(log)]
NothingRewritten == [][SubSeq(log', 1, Len(log)) = log]_vars
=============================================================================
