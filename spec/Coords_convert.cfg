SPECIFICATION Spec
CONSTANTS
  Mode = "convert"
  MaxSteps = 3
PROPERTY PointNeverChanges
PROPERTY RotationNeverChanges
PROPERTY TranslationsCompose
CHECK_DEADLOCK FALSE
