------------------------------- MODULE Superpose -------------------------------
(***************************************************************************)
(* C06.  Three expression-level laws of the image-formation pipeline.      *)
(*  Mode "collection": a collection of k spheres (each uniform, layered, or *)
(*     a "twin": same index and radius as every other twin, its own place) *)
(*     under a theory that treats spheres independently; the field is the  *)
(*     sum over members:  Terms = one single-sphere term per member.       *)
(*  Mode "linear": incident polarisation (a, b) from a set of classes; the *)
(*     field is (a Ex + b Ey) / |(a, b)|.                                  *)
(*  Mode "channels": a request with 2-3 labelled illumination channels in  *)
(*     which each of wavelength, polarisation, scaling, particle index and *)
(*     particle radius is given as one scalar, as a dictionary or as a     *)
(*     labelled array, the latter two in some key order.  The meaning of a *)
(*     request is its normal form: per channel LABEL the value of every    *)
(*     quantity.  Key order never matters (AlignByLabelNotPosition).       *)
(***************************************************************************)
EXTENDS Integers, Sequences, FiniteSets

CONSTANTS Mode, MaxMembers

VARIABLES req
vars == <<req>>

Kinds == {"uniform", "layered", "twin"}
Quantities == {"wavelength", "polarisation", "scaling", "index", "radius"}
Encodings == {"scalar", "dict", "array"}
Orders == {"sorted", "reversed", "rotated"}
PolClasses == {"unit", "non_unit", "near_unit_a", "near_unit_b", "tiny", "huge", "negative"}

Labels(n) == IF n = 2 THEN <<"green", "red">> ELSE <<"blue", "green", "red">>   \* sorted
Permute(s, o) == IF o = "sorted" THEN s
                 ELSE IF o = "reversed" THEN [i \in 1..Len(s) |-> s[Len(s) + 1 - i]]
                 ELSE [i \in 1..Len(s) |-> s[(i % Len(s)) + 1]]

(* the value of quantity q in the channel labelled c: a token <<q, c>> when it varies per
   channel, <<q, "all">> when a single scalar was given *)
ValueAt(r, q, c) == IF r.enc[q] = "scalar" THEN <<q, "all">> ELSE <<q, c>>
NormalForm(r) == [c \in {Labels(r.nch)[i] : i \in 1..r.nch} |-> [q \in Quantities |-> ValueAt(r, q, c)]]

Init ==
  \/ /\ Mode = "collection"
     /\ req \in {[members |-> m] : m \in UNION {[1..k -> Kinds] : k \in 1..MaxMembers}}
  \/ /\ Mode = "linear" /\ req \in {[pol |-> p] : p \in PolClasses}
  \/ /\ Mode = "channels"
     /\ req \in {[nch |-> n, enc |-> e, order |-> o, rows |-> w] :
                   n \in {2, 3}, e \in [Quantities -> Encodings], o \in [Quantities -> Orders],
                   w \in {"unit", "as_given"}}
     \* a labelled array of polarisations may carry rows of any length; only the direction counts
     /\ req.rows = "as_given" => req.enc["polarisation"] = "array"
     /\ req.enc["wavelength"] # "scalar"              \* several channels need several wavelengths
     /\ \A q \in Quantities : req.enc[q] = "scalar" => req.order[q] = "sorted"
     /\ \A q \in Quantities : (req.order[q] = "rotated") => req.nch = 3

Next == UNCHANGED vars
Spec == Init /\ [][Next]_vars

AlignByLabelNotPosition == Mode = "channels" =>
   \A q \in Quantities, o \in Orders :          \* any single re-ordering (they generate all)
       NormalForm([req EXCEPT !.order[q] = o]) = NormalForm(req)
NTerms == IF Mode = "collection" THEN Len(req.members) ELSE 1
OneTermPerMember == Mode = "collection" => NTerms = Len(req.members)
=============================================================================
