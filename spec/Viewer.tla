------------------------------- MODULE Viewer -------------------------------
(***************************************************************************)
(* Extension X11 (beyond the listed properties).  The interactive viewer   *)
(* behind hp.show (vis.Show2D): a stack of N planes, one of them shown.    *)
(*   Key("right") / Key("left")  step through the stack and stop at its    *)
(*                               ends; any other key does nothing          *)
(*   Click(pixel)                reports the pixel under the pointer, in   *)
(*                               pixels and in the image's units, for the  *)
(*                               plane shown; changes nothing              *)
(*   Save                        writes the plane shown; changes nothing   *)
(* What is on the screen is a function of the index alone: the plane with  *)
(* that index, in data values (the display scaling undone), titled with    *)
(* its depth when there is more than one plane.                            *)
(***************************************************************************)
EXTENDS Integers, Sequences

CONSTANTS MaxSteps

VARIABLES n,        \* planes in the stack
          i,        \* index shown (0-based, as the implementation counts)
          steps, lastkey
vars == <<n, i, steps, lastkey>>

Keys == {"right", "left", "up", "q"}
Pixels == {<<0, 0>>, <<2, 1>>, <<1, 3>>}

Init == n \in 1..3 /\ i = 0 /\ steps = 0 /\ lastkey = "none"

Key(k) == /\ steps < MaxSteps /\ steps' = steps + 1 /\ lastkey' = k /\ UNCHANGED n
          /\ i' = IF k = "right" /\ i < n - 1 THEN i + 1
                  ELSE IF k = "left" /\ i > 0 THEN i - 1 ELSE i
Click(p) == /\ steps < MaxSteps /\ steps' = steps + 1 /\ lastkey' = "click" /\ UNCHANGED <<n, i>>
Save == /\ steps < MaxSteps /\ steps' = steps + 1 /\ lastkey' = "save" /\ UNCHANGED <<n, i>>

Next == (\E k \in Keys : Key(k)) \/ (\E p \in Pixels : Click(p)) \/ Save
Spec == Init /\ [][Next]_vars

Shown == i                                   \* the plane on the screen
Titled == n > 1                              \* a single image carries no title
View == <<n, i>>
IndexInRange == 0 <= i /\ i < n
OneStepAtATime == [][i' \in {i - 1, i, i + 1}]_vars
OnlyArrowsMove == [][(lastkey' \notin {"right", "left"}) => i' = i]_vars
=============================================================================
