SPECIFICATION Spec
CONSTANT NChain = 5
CONSTANT MaxSteps = 4
INVARIANT SomethingLeft
PROPERTY LoadedIsStored
PROPERTY OffsetsOnlyGrow
PROPERTY ParentUntouched
CHECK_DEADLOCK FALSE
