SPECIFICATION Spec
CONSTANTS
  Mode = "linear"
  MaxMembers = 6
INVARIANT AlignByLabelNotPosition
INVARIANT OneTermPerMember
CHECK_DEADLOCK FALSE
