------------------------------- MODULE ImageIO -------------------------------
(***************************************************************************)
(* C16.  Images through HoloPy's I/O and metadata edits, on abstract       *)
(* images: shape class, dtype, channel layout, name given or not, and per  *)
(* metadata key one of None / scalar / per-channel (dictionary- or         *)
(* array-valued).                                                          *)
(*  Mode "h5":     SaveLoadH5 is the identity on the abstract image, for   *)
(*                 any number of cycles (state merging on cycles).         *)
(*  Mode "tiff":   SaveLoadTiff(depth, scaling) keeps metadata and spacing; *)
(*                 values are quantised: error <= half a step of           *)
(*                 range/(2^b-1) with b the usable bits (8, 15, 31) and    *)
(*                 range what the scaling option spreads over the grey     *)
(*                 levels: the image's own (max-min) for 'auto' or a pair  *)
(*                 equal to it, the pair's width for a wider pair, 1 for   *)
(*                 scaling=None on an image within [0, 1].                 *)
(*  Mode "update": UpdateMetadata(K) changes exactly the keys in K.        *)
(*  Mode "average": Push(f) files of a multiset; the result is a function  *)
(*                 of the multiset (VIEW), mean exact in integers/count.   *)
(*  Mode "raster": load_image with spacing and channel selection.          *)
(***************************************************************************)
EXTENDS Integers, Sequences, FiniteSets

CONSTANTS Mode, MaxCycles

VARIABLES img, hist, steps
vars == <<img, hist, steps>>

Shapes == {"1x1", "2x3", "4x5", "5x4", "1x6"}
Dtypes == {"uint8", "uint16", "float32", "float64"}
Keys == {"medium_index", "illum_wavelen", "illum_polarization", "noise_sd"}
AttrKinds == {"none", "scalar", "scalar_zero", "per_channel_dict", "per_channel_array"}   \* scalar_zero: exactly 0
\* which channels a multi-channel image has and in which order (colour names are what TIFF export
\* understands; "ab" = two channels that are not colours)
LabelOrders(c) == IF c = 1 THEN {"none"} ELSE IF c = 2 THEN {"rg", "gb", "br", "ab"} ELSE {"rgb", "grb"}

Images == {[shape |-> s, dtype |-> d, channels |-> c, named |-> n, attrs |-> a] :
             s \in Shapes, d \in Dtypes, c \in {1, 2, 3}, n \in BOOLEAN, a \in [Keys -> AttrKinds]}
PerChannel(i) == \E k \in Keys : i.attrs[k] \in {"per_channel_dict", "per_channel_array"}
\* channels = 1 with some per-channel value: an image that HAS an illumination axis, of one label
ValidImage(i) == /\ TRUE
                 /\ (\A k \in Keys : i.attrs[k] = "scalar_zero" => k = "noise_sd")   \* the only key for which 0 is meaningful
                 /\ i.attrs["medium_index"] \in {"none", "scalar"}
                 /\ (i.attrs["illum_polarization"] # "per_channel_array")

UsableBits(depth) == IF depth = 8 THEN 8 ELSE depth - 1

Init ==
  /\ steps = 0
  /\ \/ Mode = "h5" /\ img \in {i \in Images : ValidImage(i)} /\ hist = <<>>
     \/ Mode = "tiff" /\ hist = <<>>        \* a 1 x N image has no spacing to store
        /\ img \in {i \in Images : ValidImage(i) /\ i.channels = 1 /\ ~PerChannel(i) /\ i.shape \in {"2x3", "4x5", "5x4"}}
     \/ Mode = "tiffcolour" /\ hist = <<>>  \* colour export: channel layout x per-channel metadata
        /\ img \in {[base |-> i, labels |-> l] : i \in {j \in Images : ValidImage(j) /\ j.channels > 1 /\ j.shape = "4x5"
                                                                 /\ j.dtype \in {"uint8", "float64"} /\ j.named},
                                                l \in {"rg", "gb", "br", "ab", "rgb", "grb"}}
        /\ img.labels \in LabelOrders(img.base.channels)
     \/ Mode = "update" /\ img \in {i \in Images : ValidImage(i) /\ (i.channels = 1 => ~PerChannel(i))
                                                   /\ i.shape = "2x3" /\ i.dtype = "float64" /\ i.named}
        /\ hist = <<>>
     \/ Mode = "average" /\ img = [f \in 1..4 |-> 0] /\ hist = <<>>
     \/ Mode = "raster" /\ img \in [shape : {"2x3", "4x5"}, colour : BOOLEAN,
                                   channel : {"none", "one", "two", "all"}, aniso : BOOLEAN] /\ hist = <<>>

SaveLoadH5 == \/ /\ Mode = "h5" /\ steps < MaxCycles
                 /\ hist' = Append(hist, "h5") /\ steps' = steps + 1 /\ UNCHANGED img
              \* the average of at least two files is an image like any other: it survives the HDF5 cycle
              \/ /\ Mode = "average" /\ steps >= 2 /\ steps <= MaxCycles + 1
                 /\ hist' = Append(hist, 0) /\ steps' = MaxCycles + 2 /\ UNCHANGED img
Scalings == {"auto", "pair_tight", "pair_wide", "none_unit"}
RangeOf(sc) == IF sc \in {"auto", "pair_tight"} THEN "image" ELSE IF sc = "pair_wide" THEN "pair" ELSE "unit"
SaveLoadTiff(depth, sc) ==
                       /\ Mode \in {"tiff", "tiffcolour"} /\ steps < 1
                       /\ (Mode = "tiffcolour" => (depth = 8 /\ sc = "auto"))   \* 16-bit colour is not a TIFF the imaging library writes
                       /\ (sc = "none_unit" => img.dtype \in {"float32", "float64"})
                       /\ hist' = Append(hist, <<"tiff", depth, UsableBits(depth), RangeOf(sc)>>)
                       /\ steps' = steps + 1 /\ UNCHANGED img
\* form: the new polarisation is written with two or with three components (not unit length either way)
UpdateMetadata(K, form) == /\ Mode = "update" /\ steps < 1 /\ K # {}
                     /\ (form = "three_components" => "illum_polarization" \in K)
                     /\ img' = [img EXCEPT !.attrs = [k \in Keys |-> IF k \in K THEN "scalar" ELSE img.attrs[k]]]
                     /\ hist' = Append(hist, K) /\ steps' = steps + 1
Push(f) == /\ Mode = "average" /\ steps < MaxCycles + 1
           /\ img' = [img EXCEPT ![f] = @ + 1]
           /\ hist' = Append(hist, f) /\ steps' = steps + 1

Next == \/ SaveLoadH5
        \/ \E d \in {8, 16}, sc \in Scalings : SaveLoadTiff(d, sc)          \* the documented depths
        \/ \E K \in SUBSET Keys, f \in {"two_components", "three_components"} : UpdateMetadata(K, f)
        \/ \E f \in 1..4 : Push(f)
Spec == Init /\ [][Next]_vars

View == <<img, IF Mode = "average" THEN <<>> ELSE hist>>
H5IsIdentity == [][(Mode = "h5") => img' = img]_vars
UpdateTouchesOnlyNamed == [][(Mode = "update" /\ steps' = 1) =>
                               \A k \in Keys : (k \notin hist'[1]) => img'.attrs[k] = img.attrs[k]]_vars
AverageCountsFiles == (Mode = "average" /\ steps <= MaxCycles + 1) => (img[1] + img[2] + img[3] + img[4] = steps)
=============================================================================
