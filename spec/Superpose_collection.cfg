SPECIFICATION Spec
CONSTANTS
  Mode = "collection"
  MaxMembers = 6
INVARIANT AlignByLabelNotPosition
INVARIANT OneTermPerMember
CHECK_DEADLOCK FALSE
