---------------------------- MODULE EditIndices ----------------------------
(* C11 lemma: the re-indexing rule applied by add_tie (edit_map_indices) sends the tied   *)
(* indices to the smallest of them and is the order-preserving bijection from the untied *)
(* indices onto the remaining positions.  0-based, as in the code.  Exhaustive over all  *)
(* non-empty subsets of 0..N-1; the dumped states are replayed into the real function.   *)
EXTENDS Integers, FiniteSets
CONSTANT N
VARIABLES I, img
Idx == 0..N-1
Min(S) == CHOOSE x \in S : \A y \in S : x <= y
NewIndex(old, T) ==
   IF old \in T THEN Min(T)
   ELSE IF old < Min(T) THEN old
   ELSE old - (Cardinality({i \in T : i < old}) - 1)
Init == /\ I \in (SUBSET Idx) \ {{}}
        /\ img = [o \in Idx |-> NewIndex(o, I)]
Next == UNCHANGED <<I, img>>
Spec == Init /\ [][Next]_<<I, img>>
Kept == (Idx \ I) \cup {Min(I)}
OntoPrefix == {img[o] : o \in Idx} = 0..(Cardinality(Kept) - 1)
TiedToMin == \A o \in I : img[o] = Min(I)
OrderPreserving == \A a, b \in Kept : a < b => img[a] < img[b]
RankOfKept == \A a \in Kept : img[a] = Cardinality({k \in Kept : k < a})
=============================================================================
