"""C19 — coordinate conversions and Euler rotations are mutually consistent.

spec/Coords.tla is a state-merging model: conversions never change the point, adding full turns
or sliding alpha into gamma (beta = 0) never changes the rotation, translations compose.  TLC
enumerates all paths within the bounds; the harness walks every edge of the dumped graph with
the real functions and requires the value carried along the path to equal the canonical value
of the abstract state (and an independent oracle).
"""
import math
import os
import random
import sys

sys.path.insert(0, os.path.join(os.path.dirname(os.path.abspath(__file__)), "..", "lib"))
import boot  # noqa
import harness
import tlc as tlcmod
from graph import Graph

import numpy as np

PID = "C19"

from holopy.core.math import (find_transformation_function, rotation_matrix, rotate_points)
from holopy.scattering import Sphere, Spheres, RigidCluster, Ellipsoid
from holopy.scattering.scatterer import Scatterers

TWO_PI = 2 * math.pi
MAG = {"tiny": 1e-140, "unit": 1.0, "huge": 1e150}   # tiny x skew 1e-6: squares stay normal numbers


def load(ctx, mode, consts=None):
    r = ctx.tlc("Coords", "Coords_%s.cfg" % mode, constants=consts, workers=8, dump=True, timeout=1800)
    g = Graph.load(r.dump)
    tlcmod.cleanup(r)
    return g


def concretise(pc, rng, n=4):
    m = MAG[pc["mag"]]
    def coord(s):
        return np.array([s * m * rng.uniform(0.5, 2.0) for _ in range(n)])
    x, y = coord(pc["sx"]), coord(pc["sy"])
    if pc["zkind"] == "scalar":
        z = pc["sz"] * m * rng.uniform(0.5, 2.0)
    else:
        z = coord(pc["sz"])
    sk = pc.get("skew", "none")
    if sk == "x_small":
        x = x * 1e-6
    elif sk == "y_small":
        y = y * 1e-6
    elif sk == "z_small":
        z = z * 1e-6
    return x, y, z


def ang_close(a, b, tol=1e-12):
    d = np.abs((np.asarray(a) - np.asarray(b) + math.pi) % TWO_PI - math.pi)
    return bool(np.all(d <= tol))


def rel_close(a, b, scale, tol=1e-12):
    return bool(np.all(np.abs(np.asarray(a, dtype=float) - np.asarray(b, dtype=float)) <= tol * scale))


def same_point(system, got, want, pc, scale):
    """compare two coordinate triples in `system`, only where defined"""
    phi_def = pc["sx"] != 0 or pc["sy"] != 0
    th_def = phi_def or pc["sz"] != 0
    g = [np.broadcast_to(np.asarray(c, dtype=float), np.shape(want[0]) or (1,)) for c in got]
    w = [np.broadcast_to(np.asarray(c, dtype=float), np.shape(want[0]) or (1,)) for c in want]
    if system == "cartesian":
        return all(rel_close(a, b, scale) for a, b in zip(g, w))
    if system == "spherical":
        ok = rel_close(g[0], w[0], scale)
        if th_def:
            ok = ok and ang_close(g[1], w[1])
        if phi_def:
            ok = ok and ang_close(g[2], w[2])
        return ok
    ok = rel_close(g[0], w[0], scale) and rel_close(g[2], w[2], scale)
    if phi_def:
        ok = ok and ang_close(g[1], w[1])
    return ok


def oracle(system, x, y, z):
    """independent formulas (math module, elementwise)"""
    xs, ys = np.atleast_1d(x), np.atleast_1d(y)
    zs = np.broadcast_to(np.asarray(z, dtype=float), xs.shape)
    if system == "cartesian":
        return xs, ys, zs
    phi = np.array([math.atan2(b, a) % TWO_PI for a, b in zip(xs, ys)])
    if system == "cylindrical":
        return np.array([math.hypot(a, b) for a, b in zip(xs, ys)]), phi, zs
    r = np.array([math.sqrt(a * a + b * b + c * c) for a, b, c in zip(xs, ys, zs)])
    th = np.array([math.atan2(math.hypot(a, b), c) for a, b, c in zip(xs, ys, zs)])
    return r, th, phi


def Rz(t):
    c, s = math.cos(t), math.sin(t)
    return np.array([[c, -s, 0], [s, c, 0], [0, 0, 1.0]])


def Ry(t):
    c, s = math.cos(t), math.sin(t)
    return np.array([[c, 0, s], [0, 1.0, 0], [-s, 0, c]])


def run(ctx):
    quick = ctx.tier == "quick"
    rng = random.Random(ctx.seed)
    ctx.rule = ("TLC enumerates 648 point classes (sign pattern x magnitude x scalar/array z x one coordinate 1e-6 of the others) x all "
                "conversion paths <= MaxSteps; Euler representatives in -24..47 (15 degree units) "
                "under +-full turns and alpha/gamma slide; composites of 1-6 members under lattice "
                "translations; every edge is executed on the real functions; distinct = edge; "
                "non-trivial = point not at a singularity / rotation not identity")
    ctx.assumptions = ["angles compared modulo 2 pi at 1e-12; lengths at 1e-12 of the vector norm"]
    steps = 3 if quick else 4

    # ------------------ conversions -------------------------------------------------
    g = load(ctx, "convert", {"MaxSteps": steps})
    nedges = 0
    for init in g.init:
        pc = g.states[init]["pt"]
        x, y, z = concretise(pc, rng)
        orig = [x, y, z]
        scale = max(float(np.max(np.abs(x))), float(np.max(np.abs(y))), float(np.max(np.abs(z))), 1e-300)
        canon = {}
        canon["cartesian"] = orig      # the six ordered pairs of *distinct* systems are in scope
        for s in ("spherical", "cylindrical"):
            try:
                canon[s] = find_transformation_function("cartesian", s)(orig)
            except Exception as e:
                ctx.violation("convert/direct/exception", {"class": pc, "to": s, "exc": repr(e)})
                canon[s] = None
        nontriv = pc["sx"] != 0 or pc["sy"] != 0
        # direct conversions against the independent oracle + range facts decided by the spec
        for s in ("spherical", "cylindrical"):
            if canon[s] is None:
                continue
            ctx.case(("direct", tuple(sorted(pc.items())), s), nontrivial=nontriv)
            want = oracle(s, x, y, z)
            ok = same_point(s, canon[s], want, pc, scale)
            c = [np.atleast_1d(np.asarray(v, dtype=float)) for v in canon[s]]
            phi = c[2] if s == "spherical" else c[1]
            if not (np.all(phi >= 0) and np.all(phi <= TWO_PI)):
                ok = False
            if s == "spherical":
                if not (np.all(c[1] >= 0) and np.all(c[1] <= math.pi)):
                    ok = False
                rr = np.array([math.sqrt(a * a + b * b + cc * cc) for a, b, cc in
                               zip(x, y, np.broadcast_to(np.asarray(z, dtype=float), x.shape))])
                if not rel_close(c[0], rr, scale):
                    ok = False
            if not ok or any(not np.all(np.isfinite(v)) for v in c):
                ctx.violation("convert/direct/%s" % s, {"class": pc, "got": [v.tolist() for v in c],
                                                        "oracle": [np.asarray(v).tolist() for v in want]})
            else:
                ctx.trace_ok()
        # walk every path
        stack = [(init, orig)]
        while stack:
            sid, val = stack.pop()
            cur_sys = g.states[sid]["sys"]
            for e in g.out.get(sid, []):
                if e[1] != "Convert":
                    continue
                to = e[2][0]
                nedges += 1
                ctx.case(("edge", tuple(sorted(pc.items())), cur_sys, to, g.states[sid]["steps"]),
                         nontrivial=nontriv)
                try:
                    val2 = find_transformation_function(cur_sys, to)(val)
                except Exception as ex:
                    ctx.violation("convert/%s->%s/exception" % (cur_sys, to), {"class": pc, "exc": repr(ex)})
                    continue
                if canon[to] is not None and not same_point(to, val2, canon[to], pc, scale):
                    ctx.violation("convert/%s->%s" % (cur_sys, to),
                                  {"class": pc, "path_len": g.states[sid]["steps"] + 1,
                                   "got": [np.asarray(v, dtype=float).tolist() for v in val2],
                                   "canonical": [np.asarray(v, dtype=float).tolist() for v in canon[to]]})
                else:
                    ctx.trace_ok()
                stack.append((e[3], val2))
    ctx.sample({"mode": "convert", "class": pc, "cartesian": [np.asarray(v).tolist() for v in orig]})
    ctx.notes["conversion_edges"] = nedges
    # the number type of the input is not part of the point: pixel indices (integer arrays) with a height that
    # is not a whole number convert like the same values written as floats, along every ordered pair of systems
    for zval in (2.5, -0.75, np.array([2.5, -0.75, 0.3, 7.25])):
        xi = np.array([3, -2, 5, 1]); yi = np.array([1, 4, -6, 2])
        for dt in (np.int64, np.int32):   # (NumPy promotes narrower integers to single precision)
            pin = [xi.astype(dt), yi.astype(dt), zval]
            pfl = [xi.astype(float), yi.astype(float), zval]
            for a_ in ("cartesian",):
                for b_ in ("spherical", "cylindrical"):
                    ctx.case(("dtype", str(np.dtype(dt)), np.ndim(zval), b_), nontrivial=True)
                    try:
                        got = find_transformation_function(a_, b_)(pin)
                        want = find_transformation_function(a_, b_)(pfl)
                        back = find_transformation_function(b_, a_)(got)
                        ok = all(rel_close(g_, w_, 10.0) for g_, w_ in zip(got, want)) and \
                            all(rel_close(g_, w_, 10.0) for g_, w_ in zip(back, oracle("cartesian", xi.astype(float), yi.astype(float), zval)))
                    except Exception as ex:
                        ctx.violation("convert/dtype/exception", {"dtype": str(np.dtype(dt)), "to": b_, "exc": repr(ex)})
                        continue
                    if not ok:
                        ctx.violation("convert/dtype/%s" % b_, {"dtype": str(np.dtype(dt)), "z": np.asarray(zval).tolist(),
                                                                 "got": [np.asarray(v, float).tolist() for v in got],
                                                                 "as_floats": [np.asarray(v, float).tolist() for v in want]})
                    else:
                        ctx.trace_ok()

    # ------------------ Euler rotations -----------------------------------------------------
    g = load(ctx, "euler", {"MaxSteps": 2 if quick else 3})
    unit = math.pi / 12
    pts = np.array([[1.0, 2.0, 3.0], [-0.5, 0.25, 4.0], [0.0, 0.0, 1.0], [7.0, -3.0, 0.5]])
    for sid, st in g.states.items():
        k = st["pt"]
        rad = st["sys"] == "rad"
        ang = [kk * unit for kk in k]
        args = ang if rad else [kk * 15.0 for kk in k]
        ctx.case(("euler", k, st["sys"]), nontrivial=any(kk % 24 for kk in k))
        try:
            M = rotation_matrix(args[0], args[1], args[2], radians=rad)
        except Exception as e:
            ctx.violation("euler/exception", {"k": k, "exc": repr(e)})
            continue
        nf = [kk % 24 for kk in k]
        want = Rz(nf[2] * unit) @ Ry(nf[1] * unit) @ Rz(nf[0] * unit)
        d = float(np.max(np.abs(M - want)))
        orth = float(np.max(np.abs(M @ M.T - np.eye(3))))
        det = abs(float(np.linalg.det(M)) - 1.0)
        bad = d > 1e-12 or orth > 1e-12 or det > 1e-12
        if rad:
            rp = rotate_points(pts, *ang)
            dd = np.linalg.norm(pts[:, None] - pts[None], axis=-1)
            dr = np.linalg.norm(rp[:, None] - rp[None], axis=-1)
            if float(np.max(np.abs(dd - dr))) > 1e-12 or float(np.max(np.abs(rp - pts @ want.T))) > 1e-12:
                bad = True
        if bad:
            ctx.violation("euler/%s" % st["sys"], {"k": k, "max_abs_diff_vs_RzRyRz": d,
                                                   "orthogonality": orth, "det-1": det})
        else:
            ctx.trace_ok()
    # arbitrary (seeded, irrational) angles incl. negative and > 2 pi
    for t in range(300 if quick else 3000):
        a, b, c = (rng.uniform(-7, 7) for _ in range(3))
        M = rotation_matrix(a, b, c)
        want = Rz(c) @ Ry(b) @ Rz(a)
        Md = rotation_matrix(math.degrees(a), math.degrees(b), math.degrees(c), radians=False)
        ctx.case(("euler-real", t))
        if max(float(np.max(np.abs(M - want))), float(np.max(np.abs(Md - want)))) > 1e-12:
            ctx.violation("euler/arbitrary", {"angles": [a, b, c]})
        else:
            ctx.trace_ok()
    ctx.sample({"mode": "euler", "representatives": k, "units": st["sys"]})

    # the same three numbers read as degrees and as radians, in turn, in one process: each reading is its own matrix
    for trip in ((90.0, 45.0, 30.0), (1.0, 2.0, 3.0), (0.5, 0.0, 7.0)):
        for order in (("rad", "deg", "rad"), ("deg", "rad", "deg")):
            ctx.case(("units_in_turn", trip, order), nontrivial=True)
            okm = True
            for unit_ in order:
                Rm = np.asarray(rotation_matrix(*trip, radians=(unit_ == "rad")))
                f_ = 1.0 if unit_ == "rad" else math.pi / 180
                okm = okm and float(np.max(np.abs(Rm - Rz(trip[2] * f_) @ Ry(trip[1] * f_) @ Rz(trip[0] * f_)))) < 1e-12
            if not okm:
                ctx.violation("euler/units_in_turn", {"angles": trip, "order": order})
            else:
                ctx.trace_ok()
    # ------------------ composites ---------------------------------------------------------------
    g = load(ctx, "composite", {"MaxSteps": steps})
    # every length in microns, and again in metres (coordinates of 1e-5: nothing may depend on an absolute scale)
    for U_ in (1.0, 1e-6):
      TOL = 1e-11 * U_
      for init in g.init:
          n = g.states[init]["pt"]
          centers = [U_ * np.array([10.0 * i + rng.uniform(-1, 1), rng.uniform(-3, 3), rng.uniform(5, 9)])
                     for i in range(n)]
          for kind in ("Spheres", "Scatterers"):
              if kind == "Spheres":
                  comp = Spheres([Sphere(n=1.5, r=0.5 * U_, center=tuple(c)) for c in centers], warn=False)
              else:
                  comp = Scatterers([Sphere(n=1.5, r=0.5 * U_, center=tuple(c)) if i % 2 == 0 else
                                     Ellipsoid(n=1.5, r=(0.3 * U_, 0.4 * U_, 0.5 * U_), center=tuple(c))
                                     for i, c in enumerate(centers)])
              base = np.array(centers)
              stack = [(init, comp)]
              while stack:
                  sid, obj = stack.pop()
                  net = U_ * np.array(g.states[sid]["sys"], dtype=float)
                  # rotation at every reached state: rigid, centroid fixed, equals the oracle
                  ang = [rng.uniform(-4, 4) for _ in range(3)]
                  try:
                      rot = obj.rotated(*ang) if rng.random() < 0.5 else obj.rotated(tuple(ang))
                      cs = np.array([s.center for s in obj.scatterers], dtype=float)
                      cr = np.array([s.center for s in rot.scatterers], dtype=float)
                      com = cs.mean(0)
                      want = com + (cs - com) @ (Rz(ang[2]) @ Ry(ang[1]) @ Rz(ang[0])).T
                      dd = np.linalg.norm(cs[:, None] - cs[None], axis=-1)
                      dr = np.linalg.norm(cr[:, None] - cr[None], axis=-1)
                      ctx.case(("rotate", kind, n, U_, tuple(net)), nontrivial=n > 1)
                      if (np.max(np.abs(dd - dr)) > TOL or np.max(np.abs(cr.mean(0) - com)) > TOL
                              or np.max(np.abs(cr - want)) > TOL or len(rot.scatterers) != n):
                          ctx.violation("composite/rotated/%s" % kind, {"n": n, "angles": ang})
                      else:
                          ctx.trace_ok()
                          # the result of a turn (or of a turn and a shift) turned again: still rigid, about its centroid
                          ang2 = [rng.uniform(-4, 4) for _ in range(3)]
                          shift = U_ * np.array([rng.uniform(-2, 2) for _ in range(3)])
                          for label, mid, cmid in (("turn_turn", rot, cr), ("turn_shift_turn", rot.translated(shift), cr + shift)):
                              rot2 = mid.rotated(*ang2)
                              c2 = np.array([s_.center for s_ in rot2.scatterers], dtype=float)
                              com2 = cmid.mean(0)
                              want2 = com2 + (cmid - com2) @ (Rz(ang2[2]) @ Ry(ang2[1]) @ Rz(ang2[0])).T
                              ctx.case(("rotate_again", label, kind, n, U_, tuple(net)), nontrivial=n > 1)
                              if np.max(np.abs(c2 - want2)) > TOL:
                                  ctx.violation("composite/rotated_again/%s" % label, {"n": n, "kind": kind, "defect": float(np.max(np.abs(c2 - want2)))})
                              else:
                                  ctx.trace_ok()
                  except AttributeError as ex:
                      if kind == "Scatterers" and n > 1 and "rotated" in str(ex):
                          ctx.violation("composite/rotated/non_sphere_member",
                                        {"exc": repr(ex), "n": n})
                      else:
                          ctx.violation("composite/rotated/exception", {"exc": repr(ex), "kind": kind})
                  except Exception as ex:
                      ctx.violation("composite/rotated/exception", {"exc": repr(ex), "kind": kind})
                  for e in g.out.get(sid, []):
                      if e[1] != "Translate":
                          continue
                      v = [U_ * float(a) for a in e[2][0]]
                      ctx.case(("translate", kind, n, U_, tuple(net), tuple(v)))
                      try:
                          o1 = obj.translated(v[0], v[1], v[2])
                          o2 = obj.translated(np.array(v))
                      except Exception as ex:
                          ctx.violation("composite/translated/exception", {"exc": repr(ex), "v": v})
                          continue
                      want = base + net + np.array(v)
                      ok = True
                      for o in (o1, o2):
                          c = np.array([s.center for s in o.scatterers], dtype=float)
                          if c.shape != want.shape or np.max(np.abs(c - want)) > TOL:
                              ok = False
                      # the original is not modified
                      c0 = np.array([s.center for s in obj.scatterers], dtype=float)
                      if np.max(np.abs(c0 - (base + net))) > TOL:
                          ok = False
                      if not ok:
                          ctx.violation("composite/translated/%s" % kind,
                                        {"n": n, "net_before": net.tolist(), "v": v})
                      else:
                          ctx.trace_ok()
                      stack.append((e[3], o1))
          # rigid cluster = rotate then translate
          if n >= 2:
              sp = Spheres([Sphere(n=1.5, r=0.5 * U_, center=tuple(c)) for c in centers], warn=False)
              com = base.mean(0)
              a_, t_ = [rng.uniform(-3, 3) for _ in range(3)], [U_ * rng.uniform(-5, 5) for _ in range(3)]
              # generic motions, and motions along / about single axes (components that are exactly zero)
              for ang, tr in ((tuple(a_), tuple(t_)), ((a_[0], 0.0, 0.0), (0.0, 0.0, t_[2])), ((0.0, a_[1], 0.0), (t_[0], 0.0, 0.0)),
                              ((0.0, 0.0, a_[2]), (0.0, t_[1], t_[2])), ((0.0, 0.0, 0.0), (t_[0], t_[1], 0.0)),
                              ((a_[0], a_[1], 0.0), (0.0, 0.0, 0.0))):
                  rc = RigidCluster(sp, rotation=ang, translation=tr)
                  got = np.array([s.center for s in rc.scatterers], dtype=float)
                  want = com + (base - com) @ (Rz(ang[2]) @ Ry(ang[1]) @ Rz(ang[0])).T + np.array(tr)
                  ctx.case(("rigid", n, U_, tuple(v == 0 for v in ang + tr)))
                  if np.max(np.abs(got - want)) > TOL:
                      ctx.violation("composite/rigidcluster", {"n": n, "rotation": ang, "translation": tr})
                  else:
                      ctx.trace_ok()
          # a union / difference / intersection of two spheres turns about its first member's centre
          if n == 2:
              from holopy.scattering.scatterer import Union, Difference, Intersection
              for cls in (Union, Difference, Intersection):
                  s1_ = Sphere(n=1.5, r=0.5 * U_, center=tuple(centers[0]))
                  s2_ = Sphere(n=1.5, r=0.4 * U_, center=tuple(centers[0] + U_ * np.array([0.3, -0.2, 0.25])))
                  cur, c1, c2 = cls(s1_, s2_), np.array(s1_.center, float), np.array(s2_.center, float)
                  for turn in range(2):
                      ang = [rng.uniform(-4, 4) for _ in range(3)]
                      ctx.case(("csg_rotate", cls.__name__, U_, turn), nontrivial=True)
                      try:
                          cur = cur.rotated(*ang)
                      except Exception as ex:
                          ctx.violation("composite/csg_rotated/exception", {"exc": repr(ex), "class": cls.__name__})
                          break
                      c2 = c1 + (Rz(ang[2]) @ Ry(ang[1]) @ Rz(ang[0])) @ (c2 - c1)
                      g1, g2 = np.array(cur.s1.center, float), np.array(cur.s2.center, float)
                      if np.max(np.abs(g1 - c1)) > TOL or np.max(np.abs(g2 - c2)) > TOL:
                          ctx.violation("composite/csg_rotated/%s" % cls.__name__,
                                        {"turn": turn, "unit": U_, "member_distance": float(np.linalg.norm(g2 - g1)),
                                         "expected_distance": float(np.linalg.norm(c2 - c1))})
                          break
                      ctx.trace_ok()
    ctx.sample({"mode": "composite", "members": n, "net_translation": net.tolist()})
    ctx.exhaustive = not quick


if __name__ == "__main__":
    sys.exit(harness.main(PID, run))
