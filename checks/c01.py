"""C01 — hologram = |scaling * scattered field + unit reference wave|^2 on the detector; purity;
history independence.

spec/Holo.tla: (request) the staged hologram pipeline over the catalogue of compatible requests
(scatterer kind x detector kind x polarisation x scaling x where each optics value comes from);
TLC checks precedence and the scaling-0 law; every sampled behaviour is replayed: value against
the expression evaluated on the real calc_field output, exact 1 for scaling 0, finiteness,
coordinates, dims, name, merged metadata, the named missing parameter.  (history) all call
sequences of length <= 3 over a stale-state catalogue are executed in ONE interpreter and each
result must be byte-identical to the same request computed in a fresh process.
"""
import hashlib
import math
import os
import random
import sys
import warnings

sys.path.insert(0, os.path.join(os.path.dirname(os.path.abspath(__file__)), "..", "lib"))
import boot  # noqa
import harness
import quant
import fp
import isolate

import numpy as np
import xarray as xr

PID = "C01"

import holopy as hp
from holopy.scattering import (Sphere, Spheres, Spheroid, Cylinder, calc_holo, calc_field, calc_intensity,
                               Mie, Multisphere, Tmatrix, MieLens)
from holopy.scattering.errors import MissingParameter
from holopy.core.metadata import detector_grid, detector_points, update_metadata

WL, NMED = 0.66, 1.33
POL = {"x": (1, 0), "z24_3": (math.cos(math.pi / 4), math.sin(math.pi / 4)),
       "z24_8": (math.cos(2 * math.pi / 3), math.sin(2 * math.pi / 3)), "unnormalised": (2.0, 1.0),
       "unnormalised3": (3.0, -4.0, 0.0)}
ALPHA = {"zero": 0, "one": 1.0, "fraction": 0.7, "negative": -0.5}
DET_WL, DET_MI, DET_PO = 0.52, 1.41, (0.0, 1.0)       # what the detector itself carries


def scatterer(kind):
    c = (0.7, 0.9, 6.0)
    if kind == "sphere_lens":
        from holopy.scattering.theory import Lens
        return Sphere(n=1.59, r=0.5, center=c), Lens(0.8, Mie(False, False), 16, 16)
    if kind in ("sphere", "sphere_mielens"):
        return Sphere(n=1.59, r=0.5, center=c), (MieLens(lens_angle=0.8) if kind == "sphere_mielens" else None)
    if kind == "layered":
        return Sphere(n=[1.59, 1.42], r=[0.3, 0.5], center=c), None
    if kind == "metal_coated_large":
        return Sphere(n=[1.59, 0.14 + 3.7j], r=[15.0, 15.05], center=(0.7, 0.9, 40.0)), None
    if kind.startswith("spheres"):
        s = Spheres([Sphere(n=1.59, r=0.4, center=c), Sphere(n=1.5, r=0.3, center=(1.6, 1.1, 6.5))])
        return s, (Mie() if kind == "spheres_mie" else Multisphere())
    if kind == "spheroid":
        return Spheroid(n=1.59, r=(0.3, 0.55), rotation=(0, 0.5, 0.3), center=c), None
    return Cylinder(n=1.59, d=0.5, h=0.8, rotation=(0, 0.9, 1.1), center=c), None


def detector(kind, pol_for_attrs=None, raise_by=1.7):
    if kind == "square":
        d = detector_grid(5, 0.3, name="sq")
    elif kind == "rect_aniso":
        d = detector_grid((3, 6), (0.4, 0.17), name="rect")
    elif kind == "shifted_origin":
        d = detector_grid((4, 3), 0.3, name="shifted")
        d = d.assign_coords(x=d.x.values + 7.3, y=d.y.values - 2.6)
    elif kind == "one_by_n":
        d = detector_grid((1, 7), 0.25, name="line")
    elif kind == "points":
        d = detector_points(x=np.array([0.1, 1.9, -0.6, 3.0]), y=np.array([0.4, 0.2, 2.2, -1.0]), z=0.0, name="pts")
    elif kind == "points_spherical":
        d = detector_points(r=np.array([11.0, 12.5, 14.0]), theta=np.array([0.2, 0.5, 0.9]), phi=np.array([0.3, 2.0, 4.4]), name="sph")
    elif kind == "pixel_subset":
        from holopy.core.metadata import make_subset_data
        d = make_subset_data(detector_grid((5, 4), 0.3, name="sub"), pixels=7, seed=3)
    elif kind == "raised_plane":
        d = detector_grid((4, 3), 0.3, name="raised")
        d = d.assign_coords(z=d.z.values + raise_by)
    else:
        d = detector_grid(4, 0.3, name="two_colour", extra_dims={"illumination": ["green", "red"]})
    return d


def permuted_request(ctx, rq, fin, sc, th, alpha):
    """two channels, every per-channel quantity a dictionary in its own key order; each channel of the result
    must be the single-channel hologram of that channel's own wavelength, polarisation and scaling"""
    det = detector("multichannel")
    src = fin["attrs"]
    wl_kw = {"red": 0.66, "green": 0.52}                      # (red, green): not the detector's order
    wl_det = {"red": 0.63, "green": 0.5}
    pol_kw = {"green": (0.0, 1.0), "red": (0.6, 0.8)}          # (green, red), different polarisations
    pol_det = {"green": (1.0, 0.0), "red": (0.0, 1.0)}
    scaling = {"red": alpha, "green": 0.0}                     # (red, green); the green channel is switched off
    dm, kw = {}, {}
    if rq["wl"] in ("det", "both"):
        dm["illum_wavelen"] = wl_det
    if rq["mi"] in ("det", "both"):
        dm["medium_index"] = DET_MI
    if rq["po"] in ("det", "both"):
        dm["illum_polarization"] = pol_det
    if rq["wl"] in ("kw", "both"):
        kw["illum_wavelen"] = wl_kw
    if rq["mi"] in ("kw", "both"):
        kw["medium_index"] = NMED
    if rq["po"] in ("kw", "both"):
        kw["illum_polarization"] = pol_kw
    if th is not None:
        kw["theory"] = th
    try:
        with warnings.catch_warnings():
            warnings.simplefilter("ignore")
            det = update_metadata(det, **dm) if dm else det
            h = calc_holo(det, sc, scaling=scaling, **kw)
    except Exception as e:
        ctx.violation("request/per_channel/exception", {"req": rq, "exc": repr(e)[:300]})
        return
    wl = wl_kw if src["illum_wavelen"] == "kw" else wl_det
    po = pol_kw if src["illum_polarization"] == "kw" else pol_det
    mi = NMED if src["medium_index"] == "kw" else DET_MI
    single = detector_grid(4, 0.3)
    for ch in ("red", "green"):
        skw = dict(medium_index=mi, illum_wavelen=wl[ch], illum_polarization=po[ch])
        if th is not None:
            skw["theory"] = th
        with warnings.catch_warnings():
            warnings.simplefilter("ignore")
            hs = calc_holo(single, sc, scaling=scaling[ch], **skw)
        a = np.asarray(h.sel(illumination=ch).transpose("x", "y", ...).values).ravel()
        b = np.asarray(hs.transpose("x", "y", ...).values).ravel()
        d = float(np.max(np.abs(a - b))) if a.shape == b.shape else float("inf")
        if d > 1e-12 or (ch == "green" and not np.all(np.abs(a - 1.0) <= 4 * np.finfo(float).eps)):
            ctx.violation("request/per_channel/%s" % ("switched_off_channel_not_one" if ch == "green" and d <= 1e-12 else "channel_value"),
                          {"req": rq, "channel": ch, "defect": d})
            return
        if abs(float(h.illum_wavelen.sel(illumination=ch)) - wl[ch]) > 1e-15:
            ctx.violation("request/per_channel/attrs_wavelength", {"req": rq, "channel": ch, "impl": float(h.illum_wavelen.sel(illumination=ch))})
            return
    ctx.trace_ok()


def expected_holo(E, pvec, alpha):
    """|alpha E + p|^2 summed over x, y, as an expression on the calc_field output"""
    e = E.sel(vector=["x", "y"])
    p = pvec.sel(vector=["x", "y"])
    return (np.abs(alpha * e + p) ** 2).sum(dim="vector")


def job_baseline(idx):
    """executed in a fresh interpreter: sha1 of the result bytes of catalogue entry idx"""
    return run_catalogue(idx)


def catalogue():
    det = detector_grid(6, 0.35)
    pts = detector_points(x=np.array([0.1, 1.9, -0.6]), y=np.array([0.4, 0.2, 2.2]), z=0.0)
    kw = dict(medium_index=NMED, illum_wavelen=WL, illum_polarization=(1, 0))
    big_sph = Spheroid(n=1.59, r=(0.9, 1.4), rotation=(0, 0.7, 0.4), center=(1.0, 1.0, 9.0))
    small_sph = Spheroid(n=1.5, r=(0.15, 0.25), rotation=(0, 1.2, 2.0), center=(1.0, 1.0, 9.0))
    tri = Spheres([Sphere(n=1.59, r=0.5, center=(1.0, 1.0, 8.0)), Sphere(n=1.59, r=0.5, center=(2.1, 1.2, 8.3)),
                   Sphere(n=1.5, r=0.5, center=(0.7, 2.2, 7.6))])
    duo = Spheres([Sphere(n=1.45, r=0.2, center=(1.0, 1.0, 8.0)), Sphere(n=1.45, r=0.2, center=(1.5, 1.0, 8.0))])
    return [
        lambda: calc_holo(det, Sphere(n=1.59, r=1.2, center=(1.0, 1.0, 9.0)), **kw),           # large Mie
        lambda: calc_holo(pts, Sphere(n=1.4 + 0.05j, r=0.1, center=(1.0, 1.0, 9.0)), **kw),     # small absorbing Mie
        lambda: calc_holo(det, tri, theory=Multisphere(), **kw),                                # 3-sphere cluster
        lambda: calc_field(det, duo, theory=Multisphere(), **kw),                               # 2-sphere cluster
        lambda: calc_holo(det, big_sph, **kw),                                                  # large T-matrix
        lambda: calc_intensity(pts, small_sph, **kw),                                           # small T-matrix
        lambda: calc_holo(det, Sphere(n=1.59, r=0.5, center=(1.0, 1.0, 3.0)), theory=MieLens(lens_angle=0.8), **kw),
        # default theory decided per call: a close pair (multi-sphere) and a distant pair (superposition)
        lambda: calc_holo(det, Spheres([Sphere(n=1.59, r=0.3, center=(1.0, 1.0, 8.0)),
                                        Sphere(n=1.59, r=0.3, center=(1.7, 1.0, 8.0))]), **kw),
        lambda: calc_holo(det, Spheres([Sphere(n=1.59, r=0.05, center=(0.2, 1.0, 8.0)),
                                        Sphere(n=1.59, r=0.05, center=(1.9, 1.0, 8.0))]), **kw),
        # two T-matrix particles that differ in the absorption only
        lambda: calc_holo(det, Spheroid(n=1.5, r=(0.3, 0.5), rotation=(0, 0.6, 0.2), center=(1.0, 1.0, 9.0)), **kw),
        lambda: calc_holo(det, Spheroid(n=1.5 + 0.1j, r=(0.3, 0.5), rotation=(0, 0.6, 0.2), center=(1.0, 1.0, 9.0)), **kw),
        # the same solver with another option set: no radial field component (entry 1 computes it)
        lambda: calc_holo(det, Sphere(n=1.59, r=1.2, center=(1.0, 1.0, 2.5)), theory=Mie(False, True), **kw),
    ]


def run_catalogue(idx):
    with warnings.catch_warnings():
        warnings.simplefilter("ignore")
        r = catalogue()[idx - 1]()
    return hashlib.sha1(np.ascontiguousarray(r.values).tobytes()).hexdigest()


def run(ctx):
    quick = ctx.tier == "quick"
    rng = random.Random(ctx.seed)
    ctx.rule = ("request: TLC enumerates ~27k compatible requests (7 scatterer/theory kinds x 6 detector "
                "kinds x 5 polarisations x 4 scalings x 4^3 sources of the optics values) with the staged "
                "outcome; a seeded sample covering every factor value is replayed (quick 260, thorough 4000); "
                "history: all call sequences of length <= 3 over 12 stale-state configurations (1884); distinct = "
                "request or sequence; non-trivial = request that reaches the field stage / sequence of >= 2")
    ctx.assumptions = ["fresh-process baselines are computed in child interpreters (lib/isolate.py)",
                       "byte identity is the oracle for history independence"]
    g = ctx.tlc_graph("Holo", "Holo_request.cfg", workers=16, heap="8g", timeout=1800)
    inits = list(g.init)
    rng.shuffle(inits)
    n = 260 if quick else 4000
    chosen, seen = [], set()
    nperm = 0
    # the per-channel dictionary requests are rare in the product: always take a batch of them
    perm = [s_ for s_ in inits if g.states[s_]["req"]["det"] == "multichannel_permuted"
            and g.states[s_]["req"]["alpha"] != "zero" and g.states[s_]["req"]["wl"] != "none"
            and g.states[s_]["req"]["mi"] != "none" and g.states[s_]["req"]["po"] != "none"]
    chosen += perm[:24] if quick else perm
    # likewise the rarer detector kinds and the lens wrapper: a batch of complete requests each
    for fld, val in (("det", "points_spherical"), ("det", "pixel_subset"), ("det", "raised_plane"), ("scat", "sphere_lens"),
                     ("scat", "metal_coated_large")):
        batch = [s_ for s_ in inits if g.states[s_]["req"][fld] == val and g.states[s_]["req"]["alpha"] != "zero"
                 and all(g.states[s_]["req"][k_] != "none" for k_ in ("wl", "mi", "po"))]
        chosen += batch[:10] if quick else batch[:150]
    for sid in inits:
        rq = g.states[sid]["req"]
        vals = {(k, v) for k, v in rq.items()}
        if not vals <= seen:
            chosen.append(sid)
            seen |= vals
        if len(chosen) >= n:
            break
    for sid in inits:
        if len(chosen) >= n:
            break
        chosen.append(sid)
    for sid in chosen:
        rq = g.states[sid]["req"]
        cur = sid
        while g.out.get(cur):
            cur = g.out[cur][0][3]
        fin = g.states[cur]
        want = fin["outcome"]
        ctx.case(tuple(sorted(rq.items())), nontrivial=want[0] == "hologram")
        sc, th = scatterer(rq["scat"])
        if rq["det"] == "multichannel_permuted":
            if want[0] == "hologram" and ALPHA[rq["alpha"]] != 0:
                permuted_request(ctx, rq, fin, sc, th, ALPHA[rq["alpha"]])
                nperm += 1
            else:
                ctx.trace_ok()
            continue
        # the raised plane sits a whole number of medium wavelengths above z = 0: HoloPy's reference wave has
        # its phase fixed at z = 0, so only then is "plane up" the same picture as "particle down"
        RAISE = 1.7
        if rq["det"] == "raised_plane" and want[0] == "hologram":
            src_ = fin["attrs"]
            RAISE = 3 * (WL if src_["illum_wavelen"] == "kw" else DET_WL) / (NMED if src_["medium_index"] == "kw" else DET_MI)
        det = detector(rq["det"], raise_by=RAISE)
        multi = rq["det"] == "multichannel"
        polv = POL[rq["pol"]]
        alpha = ALPHA[rq["alpha"]]
        kw_wl = {"green": 0.52, "red": 0.66} if multi else WL
        det_wl = {"green": 0.5, "red": 0.63} if multi else DET_WL
        # detector-carried values
        dm = {}
        if rq["wl"] in ("det", "both"):
            dm["illum_wavelen"] = det_wl
        if rq["mi"] in ("det", "both"):
            dm["medium_index"] = DET_MI
        if rq["po"] in ("det", "both"):
            dm["illum_polarization"] = DET_PO if rq["scat"] not in ("spheroid", "cylinder") else (1, 0)
        det = update_metadata(det, **dm) if dm else det
        # the detector's own annotations (anything besides the four optics fields) are metadata too
        det.attrs["experiment"] = "run 7, chamber B"
        det.attrs["exposure_ms"] = 12.5
        kw = {}
        if rq["wl"] in ("kw", "both"):
            kw["illum_wavelen"] = kw_wl
        if rq["mi"] in ("kw", "both"):
            kw["medium_index"] = NMED
        if rq["po"] in ("kw", "both"):
            kw["illum_polarization"] = polv
        if th is not None:
            kw["theory"] = th
        before = fp.fingerprint(det)
        try:
            with warnings.catch_warnings():
                warnings.simplefilter("ignore")
                h = calc_holo(det, sc, scaling=alpha, **kw)
            outcome = "hologram"
        except MissingParameter as e:
            outcome, h = "MissingParameter", str(e)
        except Exception as e:
            ctx.violation("request/exception", {"req": rq, "exc": repr(e)[:300]})
            continue
        if outcome != want[0]:
            ctx.violation("request/%s_instead_of_%s" % (outcome, want[0]), {"req": rq, "detail": str(h)[:200]})
            continue
        if outcome == "MissingParameter":
            if want[1] not in h:
                ctx.violation("request/missing_parameter_name", {"req": rq, "message": h, "spec": want[1]})
            else:
                ctx.trace_ok()
            continue
        bad = None
        vals = np.asarray(h.values)
        if not np.all(np.isfinite(vals)):
            bad = ("not_finite", {})
        # coordinates, dims, name
        if bad is None:
            for cname in ("x", "y", "z"):
                if cname in det.coords and cname in det.dims:
                    if cname not in h.coords or not np.array_equal(h[cname].values, det[cname].values):
                        bad = ("coordinates", {"coord": cname})
            if rq["det"] == "points_spherical":
                for cname in ("r", "theta", "phi"):
                    if cname not in h.coords or not np.array_equal(np.asarray(h[cname].values, dtype=float), np.asarray(det[cname].values, dtype=float)):
                        bad = ("point_coordinates_changed", {"coord": cname, "impl": np.asarray(h[cname].values).tolist() if cname in h.coords else None})
            if rq["det"] == "pixel_subset":
                if h.dims != det.dims or h.shape != det.shape or not all(
                        np.array_equal(np.asarray(h[c].values, dtype=float), np.asarray(det[c].values, dtype=float)) for c in ("x", "y", "z")):
                    bad = ("subset_layout", {"impl_dims": list(h.dims), "impl_shape": list(h.shape), "det_shape": list(det.shape)})
            elif rq["det"] == "points":
                if h.shape != det.shape:
                    bad = ("shape", {"impl": h.shape, "det": det.shape})
                elif not all(c in h.coords and np.array_equal(h[c].values, det[c].values) for c in ("x", "y", "z")):
                    bad = ("point_coordinates_dropped", {"coords": list(h.coords)})
            elif not multi and set(h.dims) != set(det.dims):
                bad = ("dims", {"impl": h.dims, "det": det.dims})
            if bad is None and h.name != det.name:
                bad = ("name", {"impl": h.name, "det": det.name})
        # merged metadata
        if bad is None:
            src = fin["attrs"]
            exp_mi = NMED if src["medium_index"] == "kw" else DET_MI
            if h.medium_index != exp_mi:
                bad = ("attrs/medium_index", {"impl": h.medium_index, "spec": exp_mi})
            exp_wl = kw_wl if src["illum_wavelen"] == "kw" else det_wl
            if multi:
                if not all(abs(float(h.illum_wavelen.sel(illumination=c)) - v) < 1e-15 for c, v in exp_wl.items()):
                    bad = ("attrs/illum_wavelen", {"impl": repr(h.illum_wavelen)})
            elif h.illum_wavelen != exp_wl:
                bad = ("attrs/illum_wavelen", {"impl": h.illum_wavelen, "spec": exp_wl})
            pv = polv if src["illum_polarization"] == "kw" else dm.get("illum_polarization")
            pe = np.array((list(pv) + [0.0])[:3], dtype=float)
            pe = pe / np.sqrt((pe ** 2).sum())
            pi = np.asarray(h.illum_polarization.values, dtype=float)
            if pi.shape[-1] != 3 or np.max(np.abs(pi.reshape(-1, 3) - pe)) > 1e-15:
                bad = ("attrs/illum_polarization", {"impl": pi.tolist(), "spec": pe.tolist()})
            elif h.attrs.get("experiment") != "run 7, chamber B" or h.attrs.get("exposure_ms") != 12.5:
                bad = ("attrs/detector_annotations_lost", {"impl": sorted(h.attrs)})
        # value
        if bad is None:
            if want[1] == "exactly_one":
                # |p|^2 of a normalised floating-point vector is 1 up to rounding: "exactly 1" is
                # asserted to 4 ulp, i.e. no trace of the scattered field
                if not np.all(np.abs(vals - 1.0) <= 4 * np.finfo(float).eps):
                    bad = ("scaling_zero_not_one", {"max_dev": float(np.max(np.abs(vals - 1)))})
            else:
                fkw = {k: v for k, v in kw.items()}
                with warnings.catch_warnings():
                    warnings.simplefilter("ignore")
                    E = calc_field(det, sc, **fkw)
                    inten = calc_intensity(det, sc, **fkw)
                pol_da = h.illum_polarization
                want_h = expected_holo(E, pol_da, alpha)
                got = h
                if "flat" in want_h.dims and "flat" not in h.dims:
                    want_h = want_h.unstack("flat") if hasattr(want_h, "unstack") else want_h
                try:
                    a = np.asarray(got.transpose(*[d for d in ("illumination", "z", "x", "y", "point", "flat") if d in got.dims]).values).ravel()
                    b = np.asarray(want_h.transpose(*[d for d in ("illumination", "z", "x", "y", "point", "flat") if d in want_h.dims]).values).ravel()
                    d1 = float(np.max(np.abs(a - b))) if a.shape == b.shape else float("inf")
                    wi = (np.abs(E.sel(vector=["x", "y"])) ** 2).sum(dim="vector")
                    wi = wi.unstack("flat") if ("flat" in wi.dims and "flat" not in inten.dims) else wi
                    ai = np.asarray(inten.transpose(*[d for d in ("illumination", "z", "x", "y", "point", "flat") if d in inten.dims]).values).ravel()
                    bi = np.asarray(wi.transpose(*[d for d in ("illumination", "z", "x", "y", "point", "flat") if d in wi.dims]).values).ravel()
                    d2 = float(np.max(np.abs(ai - bi))) / max(1e-300, float(np.max(np.abs(bi)))) if ai.shape == bi.shape else float("inf")
                except Exception as e:
                    ctx.violation("request/compare_exception", {"req": rq, "exc": repr(e)[:300]})
                    continue
                if not (np.all(np.isfinite(np.asarray(E.values))) and np.all(np.isfinite(ai)) and np.all(np.isfinite(a))):
                    bad = ("not_finite", {"field_finite": bool(np.all(np.isfinite(np.asarray(E.values))))})
                elif not (d1 <= 1e-12 and d2 <= 1e-12):
                    bad = ("value", {"holo_defect": d1, "intensity_defect": d2})
                elif any(not fp.same(r_.attrs.get(k_), h.attrs.get(k_)) for r_ in (E, inten)
                         for k_ in ("medium_index", "illum_wavelen", "illum_polarization", "experiment", "exposure_ms")) \
                        or inten.name != h.name or E.name != h.name:
                    # the field and the intensity carry the same merged metadata as the hologram
                    bad = ("attrs/field_or_intensity_metadata", {
                        "intensity": {k_: repr(inten.attrs.get(k_))[:60] for k_ in ("medium_index", "illum_wavelen", "experiment")},
                        "field": {k_: repr(E.attrs.get(k_))[:60] for k_ in ("medium_index", "illum_wavelen", "experiment")}})
                elif "illum_polarization" in kw and not multi and rq["scat"] in ("sphere_lens", "sphere_mielens", "sphere", "layered"):
                    # the field is odd in the polarisation vector, the hologram even: p and -p give one picture
                    kwm = dict(kw, illum_polarization=tuple(-float(v) for v in kw["illum_polarization"]))
                    with warnings.catch_warnings():
                        warnings.simplefilter("ignore")
                        hm = calc_holo(det, sc, scaling=alpha, **kwm)
                    d4 = float(np.max(np.abs(np.asarray(hm.values) - np.asarray(h.values))))
                    if d4 > 1e-12:
                        bad = ("hologram_changes_with_sign_of_polarisation", {"defect": d4})
                if bad is None and rq["det"] == "raised_plane":
                    # only distances matter: the plane at height 0 and the particle lowered by as much
                    det0 = det.assign_coords(z=det.z.values - RAISE)
                    with warnings.catch_warnings():
                        warnings.simplefilter("ignore")
                        h0 = calc_holo(det0, sc.translated(0.0, 0.0, -RAISE), scaling=alpha, **kw)
                    d3 = float(np.max(np.abs(np.asarray(h0.values) - np.asarray(h.values))))
                    if d3 > 1e-9:
                        bad = ("raised_plane_differs_from_lowered_particle", {"defect": d3})
        if bad is None and fp.fingerprint(det) != before:
            bad = ("detector_modified", {})
        if bad:
            key = "request/%s" % bad[0]
            if bad[0] == "point_coordinates_dropped":
                key = "request/point_detector/coordinates_dropped"
            ctx.violation(key, dict(bad[1], req=rq))
        else:
            ctx.trace_ok()
    ctx.sample({"request": dict(rq), "spec_outcome": list(want), "spec_attrs_source": dict(fin["attrs"]) if fin["attrs"] else None})
    ctx.notes["per_channel_dictionary_requests"] = nperm
    if nperm == 0:
        raise harness.MachineryError("no per-channel dictionary request was replayed")

    # ---------------- history independence -------------------------------------------------------
    gh = ctx.tlc_graph("Holo", "Holo_history.cfg")
    ncat = len(catalogue())
    # one FRESH interpreter per baseline (a shared child would itself have a history)
    from concurrent.futures import ThreadPoolExecutor
    with ThreadPoolExecutor(min(12, ncat)) as ex:
        base = [r[0] for r in ex.map(lambda i: isolate.run_jobs([("c01:job_baseline", {"idx": i})]),
                                     range(1, ncat + 1))]
    fresh = {}
    for i, r in enumerate(base):
        if r is None or r["outcome"] != "returned":
            raise harness.MachineryError("fresh-process baseline %d failed: %r" % (i + 1, r))
        fresh[i + 1] = r["result"]
    seqs = [gh.states[s]["log"] for s in gh.states if len(gh.states[s]["log"]) >= 1]
    if quick:
        keep = [s for s in seqs if len(s) <= 2] + rng.sample([s for s in seqs if len(s) == 3], 90)
        seqs = keep
    ncalls = 0
    for seq in seqs:
        ctx.case(("history", tuple(seq)), nontrivial=len(seq) >= 2)
        ok = True
        for c in seq:
            ncalls += 1
            try:
                hsh = run_catalogue(c)
            except Exception as e:
                ctx.violation("history/exception", {"sequence": list(seq), "call": c, "exc": repr(e)[:200]})
                ok = False
                break
            if hsh != fresh[c]:
                ctx.violation("history/result_depends_on_history",
                              {"sequence": list(seq), "call": c, "note": "differs from the fresh-process result"})
                ok = False
                break
        if ok:
            ctx.trace_ok()
    ctx.notes["history_calls"] = ncalls
    ctx.sample({"history_sequence": list(seqs[-1]), "catalogue": "1 large Mie, 2 small absorbing Mie (points), "
                "3 three-sphere cluster, 4 two-sphere cluster (field), 5 large T-matrix, 6 small T-matrix "
                "(intensity, points), 7 MieLens, 8 close pair theory=auto, 9 distant pair theory=auto, "
                "10/11 T-matrix spheroid without/with absorption, 12 Mie without the radial component (near field)"})
    if not quick:
        # the repository's own test-suite under the recorder: Frame and Deterministic on every
        # public call those tests make (spec/Session.tla)
        import session
        session.validate(ctx)
    ctx.exhaustive = not quick


if __name__ == "__main__":
    sys.exit(harness.main(PID, run))
