"""X08 (extension, not one of the listed properties) — the Janus spheres and the capsule: which domain a point is
in, decided exactly by spec/Shapes.tla from integer body-frame coordinates, for four orientations and under
translations of the body (the point moving with it); the bounding box contains every interior point; the
index reported at the point is that domain's."""
import math
import os
import random
import sys
import warnings

sys.path.insert(0, os.path.join(os.path.dirname(os.path.abspath(__file__)), "..", "lib"))
import boot  # noqa
import harness

import numpy as np

PID = "X08"

from holopy.scattering.scatterer import JanusSphere_Uniform, JanusSphere_Tapered, Capsule

HALF = 0.05                      # one half unit of the specification, in microns
ORIENT = {"as_built": (0.0, 0.0, 0.0), "flipped": (0.0, math.pi, 0.0), "along_x": (0.0, math.pi / 2, 0.0),
          "tilted": (0.7, 1.1, -0.4)}
N_CORE, N_COAT = 1.59, 1.33 + 2.0j
CENTER = np.array([1.3, -0.7, 4.2])


def Rz(t):
    c, s = math.cos(t), math.sin(t)
    return np.array([[c, -s, 0], [s, c, 0], [0, 0, 1.0]])


def Ry(t):
    c, s = math.cos(t), math.sin(t)
    return np.array([[c, 0, s], [0, 1.0, 0], [-s, 0, c]])


def build(kind, rot):
    if kind == "janus_uniform":
        return JanusSphere_Uniform(n=(N_CORE, N_COAT), r=(12 * HALF, 16 * HALF), rotation=rot, center=tuple(CENTER))
    if kind == "janus_tapered":
        return JanusSphere_Tapered(n=(N_CORE, N_COAT), r=(12 * HALF, 16 * HALF), rotation=rot, center=tuple(CENTER))
    return Capsule(n=N_CORE, h=2 * 10 * HALF, d=2 * 8 * HALF, center=tuple(CENTER), rotation=rot)


def run(ctx):
    rng = random.Random(ctx.seed)
    ctx.rule = ("TLC enumerates 3 bodies x 4 orientations x the body-frame points (a, t) on an odd half-unit grid that "
                "are not on a surface, and every sequence of <= 2 lattice translations; every edge is executed; distinct "
                "= (body, orientation, point, net shift)")
    ctx.assumptions = ["Euler angles act as Rz(gamma) Ry(beta) Rz(alpha) on the body's +z axis (the convention C19 "
                       "establishes for rotation_matrix)",
                       "the capsule's indicator accepts grids of points only: points are handed over as an N x 1 x 1 x 3 array"]
    g = ctx.tlc_graph("Shapes", "Shapes.cfg")
    psis = (0.3, 2.0, 4.4)
    seen = {}
    nin = 0
    with warnings.catch_warnings():
        warnings.simplefilter("ignore")
        for sid in g.init:
            st0 = g.states[sid]
            kind, orient = st0["body"]["kind"], st0["body"]["orient"]
            a, t = st0["pt"]
            rot = ORIENT[orient]
            R = Rz(rot[2]) @ Ry(rot[1]) @ Rz(rot[0])
            body_pts = np.array([[a * HALF * math.cos(p), a * HALF * math.sin(p), t * HALF] for p in psis])
            lab0 = CENTER + body_pts @ R.T
            try:
                sc0 = build(kind, rot)
            except Exception as e:
                ctx.violation("shapes/constructor", {"kind": kind, "exc": repr(e)[:200]})
                continue
            stack = [(sid, sc0, np.zeros(3), [])]
            while stack:
                s, sc, net, path = stack.pop()
                st = g.states[s]
                dom = st["where"]
                seen[(kind, dom)] = seen.get((kind, dom), 0) + 1
                pts = lab0 + net
                ctx.case((kind, orient, a, t, tuple(st["shift"])), nontrivial=True)
                bad = None
                try:
                    got = np.asarray(sc.in_domain(pts.reshape(-1, 1, 1, 3) if kind == "capsule" else pts)).ravel()
                    inside = np.asarray(sc.contains(pts.reshape(-1, 1, 1, 3) if kind == "capsule" else pts)).ravel()
                    if kind == "capsule":
                        ok = bool(np.all((got > 0) == (dom > 0)))
                    else:
                        ok = bool(np.all(got == dom))
                    if not ok or not np.all(inside == (dom > 0)):
                        bad = ("domain", {"impl": got.tolist(), "spec": dom})
                    elif dom > 0:
                        nin += 1
                        b = sc.bounds
                        if not all(b[i][0] <= p[i] <= b[i][1] for p in pts for i in range(3)):
                            bad = ("bounds_miss_an_interior_point", {"bounds": [list(map(float, x)) for x in b], "points": pts.tolist()})
                    if bad is None and kind != "capsule":
                        idx = np.asarray(sc.index_at(pts, background=1.0)).ravel()
                        wanted = {0: 1.0, 1: N_CORE, 2: N_COAT}[dom]
                        if not np.all(idx == wanted):
                            bad = ("index", {"impl": [complex(v).__repr__() for v in idx], "spec": repr(wanted)})
                except Exception as e:
                    bad = ("exception", {"exc": repr(e)[:200]})
                if bad:
                    ctx.violation("shapes/%s/%s" % (kind, bad[0]), dict(bad[1], orientation=orient, a=a, t=t, path=path))
                else:
                    ctx.trace_ok()
                for e in g.out.get(s, []):
                    v = np.array([float(c) for c in e[2][0]]) * 0.37
                    try:
                        nxt = sc.translated(*v) if rng.random() < 0.5 else sc.translated(v)
                    except Exception as ex:
                        ctx.violation("shapes/%s/translated_exception" % kind, {"exc": repr(ex)[:200]})
                        continue
                    if not np.allclose(np.asarray(sc.center, float), CENTER + net, atol=1e-12):
                        ctx.violation("shapes/%s/translated_moved_the_original" % kind, {"path": path})
                    stack.append((e[3], nxt, net + v, path + [list(map(float, v))]))
    for kind in ("janus_uniform", "janus_tapered", "capsule"):
        for d in ((0, 1) if kind == "capsule" else (0, 1, 2)):
            if not seen.get((kind, d)):
                raise harness.MachineryError("no point of domain %d of %s was replayed" % (d, kind))
    ctx.notes["visits_per_body_and_domain"] = {"%s/%d" % k: v for k, v in sorted(seen.items())}
    ctx.notes["interior_points_against_bounds"] = nin
    ctx.sample({"body": kind, "orientation": orient, "a_half_units": a, "t_half_units": t})
    ctx.exhaustive = True


if __name__ == "__main__":
    sys.exit(harness.main(PID, run))
