"""C12 — posterior = prior x Gaussian likelihood, exactly as documented.

spec/Posterior.tla models the control flow of Model.lnposterior over abstract input classes
(3456 combinations); TLC checks the flow properties (no forward calculation when the prior is
-inf, noise/optics precedence, named missing parameters) and every behaviour is replayed on a
real model: outcome class, number of forward calculations, and the numerical value against an
independent Gaussian log-density evaluated on the *public* calc_holo.
"""
import math
import os
import random
import sys

sys.path.insert(0, os.path.join(os.path.dirname(os.path.abspath(__file__)), "..", "lib"))
import boot  # noqa
import harness
import fp

import numpy as np

PID = "C12"

import holopy as hp
from holopy.scattering import Sphere, Spheres, Mie, calc_holo
from holopy.scattering.errors import MissingParameter
from holopy.inference import prior, AlphaModel, ExactModel
from holopy.inference.model import LimitOverlaps
from holopy.core.metadata import make_subset_data, update_metadata
import holopy.inference.model as model_module

COUNT = {"n": 0}
VARIANT = {"n": 0}
_orig_calc_holo = model_module.calc_holo


def counting_calc_holo(*a, **k):
    COUNT["n"] += 1
    return _orig_calc_holo(*a, **k)


def build(inp, rng):
    """-> model, pars(dict by name), data, expectations"""
    uniform = inp["uniform"]
    if uniform:
        pn = prior.Uniform(1.4, 1.7)
    else:
        pn = prior.BoundedGaussian(1.55, 0.1, 1.4, 1.7)
    vn = 1.52 if inp["sup"] else 1.9
    vals = {}
    if inp["cons"] != "none":
        px = prior.Uniform(1.0, 6.0)
        variant = VARIANT["n"] % 3
        VARIANT["n"] += 1
        members = [Sphere(n=pn, r=0.5, center=(1.5, 1.5, 5.0))]
        if variant == 1:        # the moving sphere is listed third: the critical pair is (0, 2)
            members.append(Sphere(n=1.59, r=0.5, center=(1.5, 4.5, 5.0)))
        members.append(Sphere(n=1.59, r=0.5, center=(px, 1.5, 5.0)))
        if variant == 2:        # critical pair (0, 1), a bystander listed last
            members.append(Sphere(n=1.59, r=0.5, center=(1.5, 4.5, 5.0)))
        scat = Spheres(members, warn=False)
        vx = 3.5 if inp["cons"] == "ok" else 2.1
        constraints = [LimitOverlaps(fraction=0.1)]
        theory = Mie()
    else:
        pr = prior.Uniform(0.3, 0.9) if inp["scat"] else prior.Uniform(-1.0, 1.0)
        scat = Sphere(n=pn, r=pr, center=(1.5, 1.5, 5.0))
        constraints = []
        theory = Mie()
    mnoise = {"none": None, "scalar": 0.07, "prior": prior.Uniform(0.01, 0.2)}[inp["mnoise"]]
    on_model = inp["mi"] in ("model", "both")
    kw = dict(noise_sd=mnoise, medium_index=1.33 if on_model else None,
              illum_wavelen=0.66 if inp["mi"] != "data" else None,
              illum_polarization=(1, 0) if inp["mi"] != "data" else None,
              theory=theory, constraints=constraints)
    if inp["kind"] == "exact":
        model = ExactModel(scat, calc_func=counting_calc_holo, **kw)
        alpha = None
    else:
        a = 0.8 if inp["kind"] == "alpha_fixed" else prior.Uniform(0.5, 1.0)
        model = AlphaModel(scat, alpha=a, **kw)
        alpha = 0.8 if inp["kind"] == "alpha_fixed" else 0.7
    # parameter values by name
    for name, p in model.parameters.items():
        if p is pn or (p == pn and "n" in name):
            vals[name] = vn
        elif "center" in name:
            vals[name] = vx
        elif name.endswith("r") or ":r" in name or name == "r":
            vals[name] = 0.5 if inp["scat"] else -0.5
        elif "alpha" in name:
            vals[name] = 0.7
        elif "noise" in name:
            vals[name] = 0.05
        else:
            raise harness.MachineryError("unexpected parameter %s" % name)
    # data
    det = hp.detector_grid(6, 0.5)
    truth = Sphere(n=1.5, r=0.5, center=(1.5, 1.5, 5.0))
    data = calc_holo(det, truth, medium_index=1.33, illum_wavelen=0.66, illum_polarization=(1, 0))
    data = data + 0.02 * np.sin(np.arange(data.size)).reshape(data.shape)
    dmi = {"model": None, "data": 1.33, "both": 1.40, "neither": None}[inp["mi"]]
    data = update_metadata(data, medium_index=1.33, illum_wavelen=0.66, illum_polarization=(1, 0),
                           noise_sd=0.11 if inp["dnoise"] == "scalar" else None)
    data.attrs["medium_index"] = dmi
    if inp["dnoise"] == "absent":
        del data.attrs["noise_sd"]
    return model, vals, data, alpha


def run(ctx):
    quick = ctx.tier == "quick"
    rng = random.Random(ctx.seed)
    ctx.rule = ("TLC enumerates all 3456 combinations of input classes (support, valid scatterer, "
                "constraint, model/data noise, all-uniform, medium_index location, pixel subset, "
                "model kind) and the staged control flow; every behaviour is replayed on a real "
                "model; distinct = input combination; non-trivial = reaches the likelihood or "
                "tests a precedence / missing-parameter rule")
    ctx.assumptions = ["forward calculations counted by wrapping holopy.inference.model.calc_holo "
                       "(AlphaModel) or the calc_func argument (ExactModel)",
                       "Gaussian log-density oracle evaluated on the public calc_holo"]
    g = ctx.tlc_graph("Posterior", "Posterior.cfg", coverage=True)
    for a, n in ctx.actions_cov.items():
        if n == 0:
            raise harness.MachineryError("spec action %s never taken" % a)
    if not hasattr(model_module, "calc_holo"):
        raise harness.MachineryError("holopy.inference.model.calc_holo not found: cannot count forward calls")
    model_module.calc_holo = counting_calc_holo
    inits = list(g.init)
    if quick:
        inits = rng.sample(inits, 900)
    classes = {}
    try:
        for sid in inits:
            st = g.states[sid]
            inp = st["inp"]
            cur = sid
            while g.out.get(cur):
                cur = g.out[cur][0][3]
            fin = g.states[cur]
            want = fin["result"]
            key = tuple(sorted(inp.items()))
            ctx.case(key, nontrivial=fin["lnprior"] == "finite")
            classes[want] = classes.get(want, 0) + 1
            try:
                model, vals, data, alpha = build(inp, rng)
            except harness.MachineryError:
                raise
            except Exception as e:
                ctx.violation("build/exception", {"inp": inp, "exc": repr(e)})
                continue
            keep = data.copy(deep=True)
            pixels = 12 if inp["pixels"] else None
            COUNT["n"] = 0
            seed = rng.randrange(2**31)
            np.random.seed(seed)
            outcome, value = None, None
            try:
                value = model.lnposterior(dict(vals), data, pixels)
                outcome = "neginf" if value == -np.inf else ("finite" if np.isfinite(value) else "nan")
            except MissingParameter as e:
                outcome = "missing:" + ("noise_sd" if "noise_sd" in str(e) else
                                        "medium_index" if "medium_index" in str(e) else str(e))
            except Exception as e:
                ctx.violation("lnposterior/exception", {"inp": inp, "exc": repr(e)})
                continue
            both_missing = want.startswith("missing") and inp["mi"] == "neither" and \
                fin["noiseFrom"] == "missing"
            if outcome != want and not (both_missing and outcome.startswith("missing:")):
                ctx.violation("outcome/%s_instead_of_%s" % (outcome, want),
                              {"inp": inp, "impl": outcome, "spec": want, "value": repr(value)})
                continue
            if COUNT["n"] != fin["forwardCalls"]:
                ctx.violation("forward_calls/%d_instead_of_%d" % (COUNT["n"], fin["forwardCalls"]),
                              {"inp": inp, "outcome": outcome})
                continue
            if not fp.same(data, keep):
                ctx.violation("data_mutated", {"inp": inp})
                continue
            if want == "finite":
                # independent evaluation
                lnprior = sum(p.lnprob(vals[name]) for name, p in model.parameters.items())
                sigma = {"model": 0.07 if inp["mnoise"] == "scalar" else 0.05, "data": 0.11,
                         "unit": 1.0}[fin["noiseFrom"]]
                mi = 1.33 if fin["miFrom"] == "model" else data.attrs["medium_index"]
                d = data
                if pixels:
                    np.random.seed(seed)
                    d = make_subset_data(data, pixels=pixels)
                scat = model.scatterer_from_parameters(vals)
                kw = dict(medium_index=mi, illum_wavelen=0.66, illum_polarization=(1, 0), theory=Mie())
                if alpha is not None:
                    kw["scaling"] = alpha
                f = _orig_calc_holo(d, scat, **kw)
                resid = (np.asarray(f.values, dtype=float) - np.asarray(d.values, dtype=float)).ravel()
                N = resid.size
                lnlike = -N / 2 * math.log(2 * math.pi) - N * math.log(sigma) - 0.5 * float(np.sum((resid / sigma) ** 2))
                expect = lnprior + lnlike
                err = abs(value - expect) / max(1.0, abs(expect))
                # forward model equals the public calculation
                fm = model.forward(vals, d)
                ferr = float(np.max(np.abs(np.asarray(fm.values).ravel() - np.asarray(f.values).ravel())))
                lp = model.lnprior(vals)
                ll = model.lnlike(vals, d)
                if err > 1e-10 or ferr > 1e-12 or abs(lp - lnprior) > 1e-12 or \
                        abs(lp + ll - value) > 1e-9 * max(1, abs(value)):
                    ctx.violation("value/%s" % ("forward" if ferr > 1e-12 else "posterior"),
                                  {"inp": inp, "impl": float(value), "oracle": expect, "rel_err": err,
                                   "forward_err": ferr, "lnprior": [float(lp), float(lnprior)]})
                    continue
            ctx.trace_ok()
    finally:
        model_module.calc_holo = _orig_calc_holo
    ctx.notes["outcome_classes_replayed"] = classes
    ctx.sample({"inputs": dict(inp), "spec_final": {k: fin[k] for k in
                                                    ("result", "forwardCalls", "noiseFrom", "miFrom", "lnprior")}})
    # per-channel noise (two illumination channels): Gaussian density with channel-wise sigma
    try:
        import xarray as xr
        det = hp.detector_grid(5, 0.5, extra_dims={"illumination": ["red", "green"]})
        s = Sphere(n=prior.Uniform(1.4, 1.7), r=0.5, center=(1.2, 1.2, 5.0))
        wl = {"red": 0.66, "green": 0.52}
        truth = Sphere(n=1.5, r=0.5, center=(1.2, 1.2, 5.0))
        data = calc_holo(det, truth, medium_index=1.33, illum_wavelen=wl, illum_polarization=(1, 0))
        data = data + 0.03 * np.cos(np.arange(data.size)).reshape(data.shape)
        noise = {"green": 0.1, "red": 0.05}
        data = update_metadata(data, noise_sd=noise)
        m = AlphaModel(s, alpha=0.9, medium_index=1.33, illum_wavelen=wl, illum_polarization=(1, 0),
                       theory=Mie())
        v = m.lnlike({"n": 1.55}, data)
        f = calc_holo(data, Sphere(n=1.55, r=0.5, center=(1.2, 1.2, 5.0)), medium_index=1.33,
                      illum_wavelen=wl, illum_polarization=(1, 0), scaling=0.9, theory=Mie())
        tot = 0.0
        for ch, sg in noise.items():
            r = (f.sel(illumination=ch) - data.sel(illumination=ch)).values.ravel()
            tot += -r.size / 2 * math.log(2 * math.pi) - r.size * math.log(sg) - 0.5 * float(np.sum((r / sg) ** 2))
        ctx.case(("per-channel-noise",))
        if abs(v - tot) > 1e-9 * abs(tot):
            ctx.violation("value/per_channel_noise", {"impl": float(v), "oracle": tot})
        else:
            ctx.trace_ok()
    except Exception as e:
        ctx.violation("per_channel_noise/exception", {"exc": repr(e)})
    ctx.exhaustive = not quick


if __name__ == "__main__":
    sys.exit(harness.main(PID, run))
