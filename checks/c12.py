"""C12 — posterior = prior x Gaussian likelihood, exactly as documented.

spec/Posterior.tla models the control flow of Model.lnposterior over abstract input classes
(3456 combinations); TLC checks the flow properties (no forward calculation when the prior is
-inf, noise/optics precedence, named missing parameters) and every behaviour is replayed on a
real model: outcome class, number of forward calculations, and the numerical value against an
independent Gaussian log-density evaluated on the *public* calc_holo.
"""
import math
import os
import random
import sys

sys.path.insert(0, os.path.join(os.path.dirname(os.path.abspath(__file__)), "..", "lib"))
import boot  # noqa
import harness
import fp

import numpy as np

PID = "C12"

import holopy as hp
from holopy.scattering import Sphere, Spheres, Mie, calc_holo
from holopy.scattering.errors import MissingParameter
from holopy.inference import prior, AlphaModel, ExactModel
from holopy.inference.model import LimitOverlaps
from holopy.core.metadata import make_subset_data, update_metadata
import holopy.inference.model as model_module

COUNT = {"n": 0}
VARIANT = {"n": 0}
_orig_calc_holo = model_module.calc_holo


def counting_calc_holo(*a, **k):
    COUNT["n"] += 1
    return _orig_calc_holo(*a, **k)


class AlwaysSatisfied:
    """a user-defined constraint (anything with a check method)"""
    def check(self, scatterer):
        return True


def build(inp, rng):
    """-> model, pars(dict by name), data, expectations"""
    uniform = inp["uniform"]
    if uniform:
        pn = prior.Uniform(1.4, 1.7)
    else:
        pn = prior.BoundedGaussian(1.55, 0.1, 1.4, 1.7)
    vn = 1.52 if inp["sup"] else 1.9
    if inp.get("edge"):
        vn = 1.7            # exactly the upper bound of both index priors: inside the (closed) support
    vals = {}
    if inp["cons"] != "none":
        px = prior.Uniform(1.0, 6.0)
        variant = VARIANT["n"] % 3
        VARIANT["n"] += 1
        members = [Sphere(n=pn, r=0.5, center=(1.5, 1.5, 5.0))]
        if variant == 1:        # the moving sphere is listed third: the critical pair is (0, 2)
            members.append(Sphere(n=1.59, r=0.5, center=(1.5, 4.5, 5.0)))
        members.append(Sphere(n=1.59, r=0.5, center=(px, 1.5, 5.0)))
        if variant == 2:        # critical pair (0, 1), a bystander listed last
            members.append(Sphere(n=1.59, r=0.5, center=(1.5, 4.5, 5.0)))
        scat = Spheres(members, warn=False)
        vx = 3.5 if inp["cons"] == "ok" else 2.1
        # a second, user-written constraint that is always satisfied, listed last: the first one still decides
        constraints = [LimitOverlaps(fraction=0.1), AlwaysSatisfied()]
        theory = Mie()
    else:
        pr = prior.Uniform(0.3, 0.9) if inp["scat"] else prior.Uniform(-1.0, 1.0)
        if inp.get("layered"):
            # core radius free: invalid = the core radius negative while the shell's is positive
            pr = prior.Uniform(0.1, 0.45) if inp["scat"] else prior.Uniform(-1.0, 1.0)
            scat = Sphere(n=[pn, 1.45], r=[pr, 0.55], center=(1.5, 1.5, 5.0))
        else:
            scat = Sphere(n=pn, r=pr, center=(1.5, 1.5, 5.0))
        constraints = []
        theory = Mie()
    mnoise = {"none": None, "scalar": 0.07, "prior": prior.Uniform(0.01, 0.2)}[inp["mnoise"]]
    on_model = inp["mi"] in ("model", "both")
    kw = dict(noise_sd=mnoise, medium_index=1.33 if on_model else None,
              illum_wavelen=0.66 if inp["mi"] != "data" else None,
              illum_polarization=(1, 0) if inp["mi"] != "data" else None,
              theory=theory, constraints=constraints)
    if inp["kind"] == "exact":
        model = ExactModel(scat, calc_func=counting_calc_holo, **kw)
        alpha = None
    else:
        a = 0.8 if inp["kind"] == "alpha_fixed" else prior.Uniform(0.5, 1.0)
        alpha = 0.8 if inp["kind"] == "alpha_fixed" else 0.7
        if inp.get("edge"):
            # the scaling exactly 0, the lower end of the customary Uniform(0, 1): inside the support; the model image is 1
            a = 0.0 if inp["kind"] == "alpha_fixed" else prior.Uniform(0.0, 1.0)
            alpha = 0.0
        model = AlphaModel(scat, alpha=a, **kw)
    # parameter values by name
    for name, p in model.parameters.items():
        if p is pn or (p == pn and "n" in name):
            vals[name] = vn
        elif "center" in name:
            vals[name] = vx
        elif name.split(":")[-1].split(".")[0] == "r":
            if inp.get("layered"):
                vals[name] = 0.3 if inp["scat"] else -0.03
            else:
                vals[name] = 0.5 if inp["scat"] else -0.5
        elif "alpha" in name:
            vals[name] = 0.0 if inp.get("edge") else 0.7
        elif "noise" in name:
            vals[name] = 0.05
        else:
            raise harness.MachineryError("unexpected parameter %s" % name)
    # data
    det = hp.detector_grid(6, 0.5)
    truth = Sphere(n=1.5, r=0.5, center=(1.5, 1.5, 5.0))
    data = calc_holo(det, truth, medium_index=1.33, illum_wavelen=0.66, illum_polarization=(1, 0))
    data = data + 0.02 * np.sin(np.arange(data.size)).reshape(data.shape)
    dmi = {"model": None, "data": 1.33, "both": 1.40, "neither": None}[inp["mi"]]
    data = update_metadata(data, medium_index=1.33, illum_wavelen=0.66, illum_polarization=(1, 0),
                           noise_sd=0.11 if inp["dnoise"] == "scalar" else None)
    data.attrs["medium_index"] = dmi
    if inp["dnoise"] == "absent":
        del data.attrs["noise_sd"]
    return model, vals, data, alpha


def many_parameters(ctx, rng):
    """more parameters than one digit counts: three spheres with everything free, alpha and the noise too
    (17 parameters); posterior against the density written out on a scatterer built by hand"""
    det = hp.detector_grid(6, 0.5)
    lo = dict(n=1.4, r=0.3, x=0.0, y=0.0, z=4.0)
    hi = dict(n=1.7, r=0.7, x=6.0, y=6.0, z=9.0)
    base = [(1.0, 1.2, 5.0), (3.4, 1.1, 6.0), (2.0, 3.6, 7.0)]
    for trial in range(3):
        members, truth = [], {}
        for i, c in enumerate(base):
            pri = {k: (prior.Uniform(lo[k], hi[k]) if (k != "r" or trial != 1) else prior.Gaussian(0.5, 0.1)) for k in lo}
            members.append(Sphere(n=pri["n"], r=pri["r"], center=(pri["x"], pri["y"], pri["z"])))
            truth[i] = dict(n=rng.uniform(1.45, 1.65), r=rng.uniform(0.35, 0.6), x=c[0] + rng.uniform(-0.2, 0.2),
                            y=c[1] + rng.uniform(-0.2, 0.2), z=c[2] + rng.uniform(-0.3, 0.3))
        model = AlphaModel(Spheres(members, warn=False), alpha=prior.Uniform(0.5, 1.0), noise_sd=prior.Uniform(0.01, 0.2),
                           medium_index=1.33, illum_wavelen=0.66, illum_polarization=(1, 0), theory=Mie())
        names = list(model.parameters)
        ctx.case(("many_parameters", trial, len(names)), nontrivial=True)
        if len(names) != 17:
            ctx.violation("many_parameters/names", {"names": names})
            continue
        vals, lnprior = {}, 0.0
        for nm, p in model.parameters.items():
            if nm == "alpha":
                v = 0.83
            elif nm == "noise_sd":
                v = 0.06
            else:
                i, k = nm.split(":")
                k = k.replace("center.0", "x").replace("center.1", "y").replace("center.2", "z")
                v = truth[int(i)][k]
            vals[nm] = v
            lnprior += p.lnprob(v)
        hand = Spheres([Sphere(n=truth[i]["n"], r=truth[i]["r"], center=(truth[i]["x"], truth[i]["y"], truth[i]["z"]))
                        for i in range(3)], warn=False)
        data = _orig_calc_holo(det, Spheres([Sphere(n=1.5, r=0.5, center=c) for c in base], warn=False), medium_index=1.33,
                               illum_wavelen=0.66, illum_polarization=(1, 0), theory=Mie())
        data = data + 0.02 * np.sin(np.arange(data.size)).reshape(data.shape)
        f = _orig_calc_holo(data, hand, medium_index=1.33, illum_wavelen=0.66, illum_polarization=(1, 0), theory=Mie(), scaling=0.83)
        resid = (np.asarray(f.values, dtype=float) - np.asarray(data.values, dtype=float)).ravel()
        N, sigma = resid.size, 0.06
        expect = lnprior - N / 2 * math.log(2 * math.pi) - N * math.log(sigma) - 0.5 * float(np.sum((resid / sigma) ** 2))
        try:
            got_d = model.lnposterior(dict(vals), data)
            got_l = model.lnposterior([vals[nm] for nm in names], data)
            built = model.scatterer_from_parameters(vals)
        except Exception as e:
            ctx.violation("many_parameters/exception", {"trial": trial, "exc": repr(e)[:200]})
            continue
        same = len(built.scatterers) == 3 and all(
            b_.n == h_.n and b_.r == h_.r and tuple(float(c_) for c_ in b_.center) == tuple(h_.center)
            for b_, h_ in zip(built.scatterers, hand.scatterers))
        if not same or abs(got_d - expect) > 1e-9 * max(1, abs(expect)) or abs(got_l - expect) > 1e-9 * max(1, abs(expect)):
            ctx.violation("many_parameters/%s" % ("scatterer" if not same else "posterior"),
                          {"trial": trial, "impl_dict": float(got_d), "impl_list": float(got_l), "oracle": expect, "names": names})
        else:
            ctx.trace_ok()


def reuse_rounds(ctx, rng):
    """Posterior_reuse.cfg: the same model evaluated twice, the second time with a fresh container or
    with the first container changed in place; round 2 must be what a new model gives for those values."""
    g = ctx.tlc_graph("Posterior", "Posterior_reuse.cfg")
    again = [e for e in g.edges if e[1] == "Again"]
    if not again:
        raise harness.MachineryError("no Again edge in the reuse graph")

    def final(sid):
        cur = sid
        while g.states[cur]["stage"] != "done":
            cur = g.out[cur][0][3]
        return cur

    def values_for(model, inp, shift):
        v = []
        for name in model._parameter_names:
            base = name.split(":")[-1].split(".")[0]
            if base == "n":
                v.append((1.52 if inp["sup"] else 1.9) + (0.01 * shift if inp["sup"] else 0.0))
            elif base == "r":
                good = (0.3 if inp["layered"] else 0.5) + 0.02 * shift
                v.append(good if inp["scat"] else (-0.03 if inp["layered"] else -0.5))
            elif base == "alpha":
                v.append(0.7 + 0.03 * shift)
            else:
                raise harness.MachineryError("unexpected parameter %s" % name)
        return v

    def classify(fn):
        try:
            val = fn()
        except Exception as e:
            return "exception:" + type(e).__name__, None
        return ("neginf" if val == -np.inf else ("finite" if np.isfinite(val) else "nan")), val

    model_module.calc_holo = counting_calc_holo
    try:
        for e in again:
            inp1 = g.states[e[0]]["inp"]
            inp2 = g.states[e[3]]["inp"]
            how = g.states[e[3]]["reuse"]
            change = e[2][0]
            want1 = g.states[e[0]]["result"]
            fin2 = g.states[final(e[3])]
            for container in (list, np.array):
                ctx.case(("reuse", tuple(sorted(inp1.items())), change, how, container.__name__), nontrivial=how == "in_place")
                # a model whose priors admit both rounds' values
                model, _, data, _ = build(dict(inp1, scat=False, sup=True), rng)
                v1 = values_for(model, inp1, 0)
                v2 = values_for(model, inp2, 1 if change != "to_invalid" or True else 0)
                p = container(v1)
                COUNT["n"] = 0
                c1, val1 = classify(lambda: model.lnposterior(p, data, None))
                n1 = COUNT["n"]
                if how == "in_place":
                    for i, x in enumerate(v2):
                        p[i] = x
                    q = p
                else:
                    q = container(v2)
                COUNT["n"] = 0
                c2, val2 = classify(lambda: model.lnposterior(q, data, None))
                n2 = COUNT["n"]
                fresh_model, _, _, _ = build(dict(inp1, scat=False, sup=True), rng)
                COUNT["n"] = 0
                cf, valf = classify(lambda: fresh_model.lnposterior(container(v2), data, None))
                key = "%s/%s/%s" % (change, how, "layered" if inp1["layered"] else "sphere")
                if c1 != want1:
                    ctx.violation("reuse/round1/%s_instead_of_%s" % (c1, want1), {"inp": inp1})
                elif c2 != fin2["result"] or n2 != fin2["forwardCalls"]:
                    ctx.violation("reuse/round2_class/" + key, {"inp1": inp1, "inp2": inp2, "impl": c2, "spec": fin2["result"],
                                                                "forward_calls": n2, "spec_calls": fin2["forwardCalls"]})
                elif c2 != cf or (c2 == "finite" and abs(val2 - valf) > 1e-9 * max(1.0, abs(valf))):
                    ctx.violation("reuse/round2_differs_from_new_model/" + key,
                                  {"inp1": inp1, "inp2": inp2, "impl": repr(val2), "new_model": repr(valf)})
                else:
                    ctx.trace_ok()
    finally:
        model_module.calc_holo = _orig_calc_holo


def run(ctx):
    quick = ctx.tier == "quick"
    rng = random.Random(ctx.seed)
    ctx.rule = ("TLC enumerates all 3456 combinations of input classes (support, valid scatterer, "
                "constraint, model/data noise, all-uniform, medium_index location, pixel subset, "
                "model kind) and the staged control flow; every behaviour is replayed on a real "
                "model; distinct = input combination; non-trivial = reaches the likelihood or "
                "tests a precedence / missing-parameter rule")
    ctx.assumptions = ["forward calculations counted by wrapping holopy.inference.model.calc_holo "
                       "(AlphaModel) or the calc_func argument (ExactModel)",
                       "Gaussian log-density oracle evaluated on the public calc_holo"]
    g = ctx.tlc_graph("Posterior", "Posterior.cfg", coverage=True)
    for a, n in ctx.actions_cov.items():
        if n == 0 and not a.endswith("Again"):           # Again needs Rounds = 2 (Posterior_reuse.cfg, below)
            raise harness.MachineryError("spec action %s never taken" % a)
    if not hasattr(model_module, "calc_holo"):
        raise harness.MachineryError("holopy.inference.model.calc_holo not found: cannot count forward calls")
    model_module.calc_holo = counting_calc_holo
    inits = list(g.init)
    if quick:
        edge = [s_ for s_ in inits if g.states[s_]["inp"].get("edge")]
        inits = rng.sample([s_ for s_ in inits if s_ not in set(edge)], 820) + rng.sample(edge, min(80, len(edge)))
    classes = {}
    try:
        for sid in inits:
            st = g.states[sid]
            inp = st["inp"]
            cur = sid
            while g.out.get(cur) and g.states[cur]["stage"] != "done":
                cur = g.out[cur][0][3]
            fin = g.states[cur]
            want = fin["result"]
            key = tuple(sorted(inp.items()))
            ctx.case(key, nontrivial=fin["lnprior"] == "finite")
            classes[want] = classes.get(want, 0) + 1
            try:
                model, vals, data, alpha = build(inp, rng)
            except harness.MachineryError:
                raise
            except Exception as e:
                ctx.violation("build/exception", {"inp": inp, "exc": repr(e)})
                continue
            # the model exposes the parameters of ITS priors and nothing else (whatever was built before it)
            names = list(model.parameters)
            n_expected = 2 + (inp["kind"] == "alpha_prior") + (inp["mnoise"] == "prior")
            if len(names) != n_expected or (("alpha" in names) != (inp["kind"] == "alpha_prior")):
                ctx.violation("parameters/names", {"inp": inp, "names": names, "expected_count": n_expected})
                continue
            keep = data.copy(deep=True)
            pixels = 12 if inp["pixels"] else None
            COUNT["n"] = 0
            seed = rng.randrange(2**31)
            np.random.seed(seed)
            outcome, value = None, None
            try:
                value = model.lnposterior(dict(vals), data, pixels)
                outcome = "neginf" if value == -np.inf else ("finite" if np.isfinite(value) else "nan")
            except MissingParameter as e:
                outcome = "missing:" + ("noise_sd" if "noise_sd" in str(e) else
                                        "medium_index" if "medium_index" in str(e) else str(e))
            except Exception as e:
                ctx.violation("lnposterior/exception", {"inp": inp, "exc": repr(e)})
                continue
            both_missing = want.startswith("missing") and inp["mi"] == "neither" and \
                fin["noiseFrom"] == "missing"
            if outcome != want and not (both_missing and outcome.startswith("missing:")):
                ctx.violation("outcome/%s_instead_of_%s" % (outcome, want),
                              {"inp": inp, "impl": outcome, "spec": want, "value": repr(value)})
                continue
            if COUNT["n"] != fin["forwardCalls"]:
                ctx.violation("forward_calls/%d_instead_of_%d" % (COUNT["n"], fin["forwardCalls"]),
                              {"inp": inp, "outcome": outcome})
                continue
            if not fp.same(data, keep):
                ctx.violation("data_mutated", {"inp": inp})
                continue
            if want == "finite":
                # independent evaluation
                lnprior = sum(p.lnprob(vals[name]) for name, p in model.parameters.items())
                sigma = {"model": 0.07 if inp["mnoise"] == "scalar" else 0.05, "data": 0.11,
                         "unit": 1.0}[fin["noiseFrom"]]
                mi = 1.33 if fin["miFrom"] == "model" else data.attrs["medium_index"]
                d = data
                if pixels:
                    np.random.seed(seed)
                    d = make_subset_data(data, pixels=pixels)
                scat = model.scatterer_from_parameters(vals)
                kw = dict(medium_index=mi, illum_wavelen=0.66, illum_polarization=(1, 0), theory=Mie())
                if alpha is not None:
                    kw["scaling"] = alpha
                f = _orig_calc_holo(d, scat, **kw)
                resid = (np.asarray(f.values, dtype=float) - np.asarray(d.values, dtype=float)).ravel()
                N = resid.size
                lnlike = -N / 2 * math.log(2 * math.pi) - N * math.log(sigma) - 0.5 * float(np.sum((resid / sigma) ** 2))
                expect = lnprior + lnlike
                err = abs(value - expect) / max(1.0, abs(expect))
                # forward model equals the public calculation
                fm = model.forward(vals, d)
                ferr = float(np.max(np.abs(np.asarray(fm.values).ravel() - np.asarray(f.values).ravel())))
                lp = model.lnprior(vals)
                ll = model.lnlike(vals, d)
                if err > 1e-10 or ferr > 1e-12 or abs(lp - lnprior) > 1e-12 or \
                        abs(lp + ll - value) > 1e-9 * max(1, abs(value)):
                    ctx.violation("value/%s" % ("forward" if ferr > 1e-12 else "posterior"),
                                  {"inp": inp, "impl": float(value), "oracle": expect, "rel_err": err,
                                   "forward_err": ferr, "lnprior": [float(lp), float(lnprior)]})
                    continue
            ctx.trace_ok()
    finally:
        model_module.calc_holo = _orig_calc_holo
    ctx.notes["outcome_classes_replayed"] = classes
    reuse_rounds(ctx, rng)
    many_parameters(ctx, rng)
    ctx.sample({"inputs": dict(inp), "spec_final": {k: fin[k] for k in
                                                    ("result", "forwardCalls", "noiseFrom", "miFrom", "lnprior")}})
    # per-channel noise (two illumination channels): Gaussian density with channel-wise sigma
    try:
        import xarray as xr
        det = hp.detector_grid(5, 0.5, extra_dims={"illumination": ["red", "green"]})
        s = Sphere(n=prior.Uniform(1.4, 1.7), r=0.5, center=(1.2, 1.2, 5.0))
        wl = {"red": 0.66, "green": 0.52}
        truth = Sphere(n=1.5, r=0.5, center=(1.2, 1.2, 5.0))
        data = calc_holo(det, truth, medium_index=1.33, illum_wavelen=wl, illum_polarization=(1, 0))
        data = data + 0.03 * np.cos(np.arange(data.size)).reshape(data.shape)
        noise = {"green": 0.1, "red": 0.05}
        data = update_metadata(data, noise_sd=noise)
        m = AlphaModel(s, alpha=0.9, medium_index=1.33, illum_wavelen=wl, illum_polarization=(1, 0),
                       theory=Mie())
        v = m.lnlike({"n": 1.55}, data)
        f = calc_holo(data, Sphere(n=1.55, r=0.5, center=(1.2, 1.2, 5.0)), medium_index=1.33,
                      illum_wavelen=wl, illum_polarization=(1, 0), scaling=0.9, theory=Mie())
        tot = 0.0
        for ch, sg in noise.items():
            r = (f.sel(illumination=ch) - data.sel(illumination=ch)).values.ravel()
            tot += -r.size / 2 * math.log(2 * math.pi) - r.size * math.log(sg) - 0.5 * float(np.sum((r / sg) ** 2))
        ctx.case(("per-channel-noise",))
        if abs(v - tot) > 1e-9 * abs(tot):
            ctx.violation("value/per_channel_noise", {"impl": float(v), "oracle": tot})
        else:
            ctx.trace_ok()
        # the same noise given to the MODEL (its noise wins over the data's, which says something else here),
        # keys in either order
        for nd in (dict(noise), dict(reversed(list(noise.items())))):
            ctx.case(("per-channel-noise", "model", tuple(nd)))
            m2 = AlphaModel(s, alpha=0.9, noise_sd=nd, medium_index=1.33, illum_wavelen=wl, illum_polarization=(1, 0),
                            theory=Mie())
            try:
                v2 = m2.lnlike({"n": 1.55}, update_metadata(data, noise_sd={"green": 0.5, "red": 0.5}))
            except Exception as e:
                ctx.violation("per_channel_noise/model_noise_exception", {"exc": repr(e)[:200]})
                continue
            if abs(v2 - tot) > 1e-9 * abs(tot):
                ctx.violation("value/per_channel_noise_from_model", {"impl": float(v2), "oracle": tot})
            else:
                ctx.trace_ok()
    except Exception as e:
        ctx.violation("per_channel_noise/exception", {"exc": repr(e)})
    ctx.exhaustive = not quick


if __name__ == "__main__":
    sys.exit(harness.main(PID, run))
