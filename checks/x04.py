"""X04 (extension, not one of the listed properties) — composite scatterers as trees: parameter keys,
from_parameters edits exactly the given keys on a new tree, handed-out dictionaries are copies,
add / get_component_list.  spec/ScattererTree.tla; every edge executed on real objects."""
import copy
import io as _io
import os
import random
import sys
import warnings

sys.path.insert(0, os.path.join(os.path.dirname(os.path.abspath(__file__)), "..", "lib"))
import boot  # noqa
import harness

import numpy as np

PID = "X04"

from holopy.scattering import Sphere, Ellipsoid, Scatterers
from holopy.core.io import serialize


def text(o):
    b = _io.BytesIO()
    serialize.save(b, o)
    return b.getvalue()


def leaf(kind, k):
    c = [1.0 + k, 2.0, 3.0 + 0.5 * k]
    if kind == "sphere":
        return Sphere(n=1.5 + 0.01 * k, r=0.4 + 0.01 * k, center=c)
    if kind == "layered":
        return Sphere(n=[1.5, 1.4 + 0.01 * k], r=[0.2, 0.5], center=c)
    return Ellipsoid(n=1.45 + 0.01 * k, r=[0.3, 0.4, 0.5 + 0.01 * k], rotation=[0.1, 0.2, 0.3], center=c)


def build(tree):
    top = Scatterers([])
    k = 0
    for m in tree:
        if m[0] == "leaf":
            top.add(leaf(m[1], k))
            k += 1
        else:
            inner = Scatterers([])
            for kind in m[1]:
                inner.add(leaf(kind, k))
                k += 1
            top.add(inner)
    return top


def new_value(key, rng):
    f = key.split(":")[-1]
    if f == "n":
        return 1.6 + rng.random() * 0.1
    if f == "r":
        return None          # decided from the old value's shape
    if f == "rotation":
        return [0.7, 0.8, 0.9]
    return [9.0 + rng.random(), 8.0, 7.0]


def norm(v):
    if isinstance(v, (list, tuple, np.ndarray)):
        return tuple(norm(x) for x in v)
    return float(v) if not isinstance(v, complex) else complex(v)


def run(ctx):
    quick = ctx.tier == "quick"
    rng = random.Random(ctx.seed)
    ctx.rule = ("TLC enumerates every tree of <= MaxMembers members (sphere / layered sphere / ellipsoid leaves, nested "
                "composites of 1-2 leaves) and every edit of 1-2 keys; every state and edit edge executed on real "
                "objects; distinct = (tree, edited keys)")
    ctx.assumptions = ["values compared after normalising containers"]
    g = ctx.tlc_graph("ScattererTree", "ScattererTree.cfg", constants={"MaxMembers": 2 if quick else 3})
    nedit = ntree = 0
    with warnings.catch_warnings():
        warnings.simplefilter("ignore")
        edges = [e for e in g.edges if e[1] == "Edit"]
        if quick and len(edges) > 1500:
            edges = rng.sample(edges, 1500)
        trees = {}
        for sid, st in g.states.items():
            if st["nedits"] == 0:
                trees[sid] = st
        for sid, st in trees.items():
            tree = st["tree"]
            ntree += 1
            ctx.case(("tree", str(tree)), nontrivial=len(tree) > 0)
            try:
                obj = build(tree)
                keys = set(obj.parameters.keys())
                leaves = obj.get_component_list()
            except Exception as ex:
                ctx.violation("tree/exception", {"tree": str(tree), "exc": repr(ex)[:200]})
                continue
            # spec keys: recomputed here from the abstract tree exactly as KeysOf does
            want = set()
            flat = []
            for i, m in enumerate(tree):
                if m[0] == "leaf":
                    flat.append(m[1])
                    want |= {"%d:%s" % (i, f) for f in (("n", "r", "rotation", "center") if m[1] == "ellipsoid" else ("n", "r", "center"))}
                else:
                    for j, kind in enumerate(m[1]):
                        flat.append(kind)
                        want |= {"%d:%d:%s" % (i, j, f) for f in (("n", "r", "rotation", "center") if kind == "ellipsoid" else ("n", "r", "center"))}
            kinds = ["ellipsoid" if isinstance(l, Ellipsoid) else ("layered" if isinstance(l.n, (list, tuple, np.ndarray)) else "sphere")
                     for l in leaves]
            bad = None
            if keys != want:
                bad = ("keys", {"impl": sorted(keys), "spec": sorted(want)})
            elif kinds != flat:
                bad = ("component_list", {"impl": kinds, "spec": flat})
            else:
                # the dictionary handed out is a copy: wrecking it leaves the object as it was
                before = text(obj)
                d = obj.parameters
                for k in list(d):
                    if isinstance(d[k], list):
                        d[k][0] = -99.0
                    d[k] = "wrecked"
                if text(obj) != before:
                    bad = ("parameters_not_a_copy", {})
            if bad:
                ctx.violation("tree/" + bad[0], dict(bad[1], tree=str(tree)))
            else:
                ctx.trace_ok()
        for e in edges:
            st0, st1 = g.states[e[0]], g.states[e[3]]
            K = sorted(e[2][0])
            nedit += 1
            ctx.case(("edit", str(st0["tree"]), str(K)), nontrivial=True)
            try:
                obj = build(st0["tree"])
                before = text(obj)
                old = obj.parameters
                newvals = {}
                for k in K:
                    v = new_value(k, rng)
                    if v is None:
                        v = [x * 1.25 for x in old[k]] if isinstance(old[k], (list, tuple, np.ndarray)) else old[k] * 1.25
                    newvals[k] = v
                new = obj.from_parameters(dict(newvals))
                got = new.parameters
            except Exception as ex:
                ctx.violation("edit/exception", {"tree": str(st0["tree"]), "keys": K, "exc": repr(ex)[:200]})
                continue
            bad = None
            if set(got) != set(old):
                bad = ("keys_changed", {"impl": sorted(got)})
            else:
                for k in old:
                    exp = newvals[k] if k in newvals else old[k]
                    if norm(got[k]) != norm(exp):
                        bad = ("value", {"key": k, "impl": repr(got[k]), "want": repr(exp)})
                        break
            if bad is None and text(obj) != before:
                bad = ("original_changed", {})
            if bad is None and (new is obj or any(a is b for a, b in zip(new.get_component_list(), obj.get_component_list()))):
                bad = ("shares_members_with_original", {})
            if bad:
                ctx.violation("edit/" + bad[0], dict(bad[1], tree=str(st0["tree"]), keys=K))
            else:
                ctx.trace_ok()
    if not nedit or not ntree:
        raise harness.MachineryError("nothing replayed")
    ctx.notes["trees"] = ntree
    ctx.notes["edits"] = nedit
    ctx.sample({"trees": ntree, "edits": nedit})
    ctx.exhaustive = not quick


if __name__ == "__main__":
    sys.exit(harness.main(PID, run))
