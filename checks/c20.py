"""C20 — scatterer containment, layers and overlaps match the analytic shapes.

spec/Geometry.tla decides containment, layers, CSG, translation and overlaps exactly on the
integer lattice; TLC enumerates the shapes, checks the geometric laws on the model and the
dumped states/edges are replayed into real scatterer objects (spec -> code).  Numeric clauses
(voxel volumes, points 1e-9 off the surface, largest_overlap) are recorded and validated by
spec/GeometryTrace.tla (code -> spec).
"""
import itertools
import math
import os
import random
import sys
import warnings

sys.path.insert(0, os.path.join(os.path.dirname(os.path.abspath(__file__)), "..", "lib"))
import boot  # noqa
import harness
import quant
import tlc as tlcmod
import trace as tracemod
from graph import Graph

import numpy as np

PID = "C20"

from holopy.scattering import Sphere, Spheres, Ellipsoid, LayeredSphere
from holopy.scattering.scatterer import Union, Difference, Intersection
from holopy.scattering.errors import InvalidScatterer

L = 4
PTS = np.array(list(itertools.product(range(-L, L + 1), repeat=3)), dtype=float)
PT_KEYS = [tuple(int(x) for x in p) for p in PTS]
NS = [1.33, 1.45, 1.59, 1.7]


def load(ctx, mode, consts=None, **kw):
    r = ctx.tlc("Geometry", "Geometry_%s.cfg" % mode, constants=consts, workers=8, dump=True,
                timeout=1800, **kw)
    g = Graph.load(r.dump)
    tlcmod.cleanup(r)
    return g


def build(mode, shape, center, variant=0):
    c = tuple(float(x) for x in center)
    if mode == "sphere":
        radii = [float(r) for r in shape["radii"]]
        if len(radii) == 1:
            return Sphere(n=NS[0], r=radii[0], center=c)
        if variant % 2 == 1:
            t = [radii[0]] + [b - a for a, b in zip(radii, radii[1:])]
            return LayeredSphere(n=NS[:len(radii)], t=t, center=c)
        return Sphere(n=NS[:len(radii)], r=radii, center=c)
    if mode == "ellipsoid":
        return Ellipsoid(n=1.5, r=tuple(float(a) for a in shape["axes"]), center=c)
    if mode == "csg":
        c2 = tuple(float(a + b) for a, b in zip(center, shape["c2"]))
        op = {"Union": Union, "Difference": Difference, "Intersection": Intersection}[shape["op"]]
        return op(Sphere(n=1.5, r=float(shape["r1"]), center=c),
                  Sphere(n=1.5, r=float(shape["r2"]), center=c2))
    raise ValueError(mode)


def compare_region(ctx, mode, obj, st, what):
    """in_domain / contains / index_at / bounds of the real object vs the spec's obs"""
    inside = st["obs"]["inside"]          # tuple (1-based layers) of frozensets of points
    exp = np.zeros(len(PTS), dtype=int)
    for i, pts in enumerate(inside):
        for k, key in enumerate(PT_KEYS):
            if key in pts:
                exp[k] = i + 1
    try:
        dom = np.asarray(obj.in_domain(PTS.copy())).astype(int).ravel()
        cont = np.asarray(obj.contains(PTS.copy())).ravel()
    except Exception as e:
        ctx.violation("%s/%s/exception" % (mode, what), {"shape": st["shape"], "center": st["center"],
                                                        "exc": repr(e)})
        return False
    ok = True
    if not np.array_equal(dom, exp):
        k = int(np.nonzero(dom != exp)[0][0])
        ctx.violation("%s/%s/in_domain" % (mode, what),
                      {"shape": st["shape"], "center": st["center"], "point": PT_KEYS[k],
                       "impl": int(dom[k]), "spec": int(exp[k]),
                       "n_mismatch": int((dom != exp).sum())})
        ok = False
    if not np.array_equal(cont, exp > 0):
        ctx.violation("%s/%s/contains" % (mode, what), {"shape": st["shape"], "center": st["center"]})
        ok = False
    if mode == "sphere":
        try:
            idx = np.asarray(obj.index_at(PTS.copy(), background=1.0)).ravel()
            n = np.atleast_1d(obj.n)
            want = np.where(exp > 0, np.array([n[max(e, 1) - 1] for e in exp]), 1.0)
            if not np.allclose(idx, want, rtol=0, atol=0):
                ctx.violation("%s/%s/index_at" % (mode, what), {"shape": st["shape"],
                                                              "center": st["center"]})
                ok = False
        except Exception as e:
            ctx.violation("%s/%s/index_at" % (mode, what), {"exc": repr(e), "shape": st["shape"]})
            ok = False
    # bounding box contains every interior point
    try:
        b = obj.bounds
        interior = PTS[exp > 0]
        if len(interior):
            for ax in range(3):
                if interior[:, ax].min() < b[ax][0] or interior[:, ax].max() > b[ax][1]:
                    ctx.violation("%s/%s/bounds" % (mode, what),
                                  {"shape": st["shape"], "center": st["center"],
                                   "bounds": [list(map(float, x)) for x in b]})
                    ok = False
                    break
    except Exception as e:
        ctx.violation("%s/%s/bounds" % (mode, what), {"exc": repr(e), "shape": st["shape"]})
        ok = False
    return ok


def run(ctx):
    quick = ctx.tier == "quick"
    rng = random.Random(ctx.seed)
    ctx.rule = ("TLC enumerates layered spheres (all increasing radius sequences), ellipsoids "
                "(all semi-axis triples), CSG pairs x 3 operations, sphere collections (all "
                "second spheres on a 7^3 lattice x radii x optional third x warn) and all "
                "translation paths; every state is compared on all 729 lattice points; "
                "distinct = (mode, shape, centre); non-trivial = has interior lattice points / "
                "overlap decided on or next to the boundary")
    ctx.assumptions = ["lattice points and power-of-two semi-axes are exact in floating point",
                       "largest_overlap for separated spheres may be 0 or the (negative) maximum"]
    rmax = 3 if quick else 4
    traces = []

    for mode in ("sphere", "ellipsoid", "csg"):
        g = load(ctx, mode, {"RMax": rmax})
        nst = 0
        for init in g.init:
            st0 = g.states[init]
            variant = nst
            nst += 1
            try:
                obj0 = build(mode, st0["shape"], st0["center"], variant)
            except Exception as e:
                ctx.violation("%s/build" % mode, {"shape": st0["shape"], "exc": repr(e)})
                continue
            ctx.case((mode, st0["shape"], st0["center"]),
                     nontrivial=any(len(x) for x in st0["obs"]["inside"]))
            ok = compare_region(ctx, mode, obj0, st0, "init")
            # surface points: 1e-9 inside / outside along the normal
            surf = sorted(st0["obs"]["surface"])
            if surf and mode in ("sphere", "ellipsoid"):
                c = np.array(st0["center"], dtype=float)
                s = np.array(surf, dtype=float)
                pin = c + (s - c) * (1 - 1e-9)
                pout = c + (s - c) * (1 + 1e-9)
                traces.append([{"event": "Surface",
                                "inside_ok": bool(np.all(obj0.contains(pin))),
                                "outside_ok": bool(not np.any(obj0.contains(pout))),
                                "n": len(surf)}])
            # all translation paths from this initial state (DFS over labelled edges)
            stack = [(init, obj0, 0)]
            while stack:
                sid, obj, depth = stack.pop()
                for e in g.out.get(sid, []):
                    if e[1] != "Translate":
                        continue
                    v = e[2][0]
                    try:
                        obj2 = obj.translated(*[float(x) for x in v]) if depth % 2 == 0 else \
                            obj.translated(np.array(v, dtype=float))
                    except Exception as ex:
                        ctx.violation("%s/translated/exception" % mode, {"exc": repr(ex)})
                        continue
                    st2 = g.states[e[3]]
                    ctx.case((mode, st2["shape"], st2["center"], "translated", depth))
                    if compare_region(ctx, mode, obj2, st2, "translated") and ok:
                        ctx.trace_ok()
                    stack.append((e[3], obj2, depth + 1))
            if ok:
                ctx.trace_ok()
        ctx.sample({"mode": mode, "shape": st0["shape"], "center": st0["center"],
                    "n_interior_lattice_points": [len(x) for x in st0["obs"]["inside"]]})
    # CSG with an Ellipsoid operand (the property quantifies over all pairs of primitives)
    try:
        u = Union(Ellipsoid(n=1.5, r=(1.0, 2.0, 4.0), center=(0.0, 0.0, 0.0)),
                  Sphere(n=1.5, r=2.0, center=(1.0, 0.0, 0.0)))
        a = np.asarray(u.contains(PTS.copy())).ravel()
        e1 = ((PTS / np.array([1.0, 2.0, 4.0])) ** 2).sum(-1) < 1
        e2 = ((PTS - np.array([1.0, 0, 0])) ** 2).sum(-1) < 4
        ctx.case(("csg", "ellipsoid-operand"))
        if not np.array_equal(a, e1 | e2):
            ctx.violation("csg/ellipsoid_operand/contains", {})
        else:
            ctx.trace_ok()
    except Exception as e:
        ctx.violation("csg/ellipsoid_operand/build", {"exc": repr(e)})

    # ---------------- constructor table ---------------------------------------------------
    g = load(ctx, "ctor")
    for st in g.states.values():
        sh = st["shape"]
        r = {-1: -0.5, 0: 0.0, 1: 0.5}[sh["rsign"]]
        nidx = 1.5
        rf = sh.get("rform", "scalar")
        if rf != "scalar":
            # two layers; the signed radius is the inner or the outer one
            kind, where = rf.split("_")
            pair = [r * 0.6, 0.5] if where == "inner" else [0.3, r if r != 0.5 else 0.5]
            r = {"list": list, "tuple": tuple, "array": np.array}[kind](pair)
            nidx = [1.5, 1.4]
        cen = {0: 1.0, 2: (0.0, 1.0), 3: (0.0, 1.0, 2.0), 4: (0.0, 1.0, 2.0, 3.0), 13: [[0.0, 1.0, 2.0]],
               31: [[0.0], [1.0], [2.0]]}[sh["clen"]]
        ctx.case(("ctor", sh))
        with warnings.catch_warnings():
            warnings.simplefilter("ignore")
            try:
                if sh["what"] == "Sphere":
                    if sh["member"] != "sphere":
                        ctx.trace_ok()
                        continue        # member kind is irrelevant for a single sphere
                    Sphere(n=nidx, r=r, center=cen)
                else:
                    second = {"sphere": None, "number": 3.0,
                              "ellipsoid": Ellipsoid(n=1.5, r=(1.0, 1.0, 2.0), center=(9.0, 0, 0))}[sh["member"]]
                    if second is None:
                        second = Sphere(n=nidx, r=r, center=cen)
                    elif sh["rsign"] < 0 or sh["clen"] != 3:
                        ctx.trace_ok()
                        continue
                    Spheres([Sphere(n=1.5, r=0.5, center=(5.0, 5.0, 5.0)), second])
                outcome = True
            except InvalidScatterer:
                outcome = False
            except Exception as e:
                ctx.violation("ctor/unexpected_exception", {"shape": sh, "exc": repr(e)})
                continue
        want = st["obs"]["accept"]
        if sh["what"] == "Spheres" and sh["member"] != "sphere":
            want = False
        if outcome != want:
            ctx.violation("ctor/%s" % ("accepted_invalid" if outcome else "rejected_valid"),
                          {"shape": sh, "impl_accepts": outcome, "spec_accepts": want})
        else:
            ctx.trace_ok()

    # ---------------- sphere collections: overlaps, warning, largest overlap ------------------
    g = load(ctx, "cluster", {"RMax": 3})
    from holopy.scattering.errors import OverlapWarning
    states = list(g.states.values())
    if quick:
        states = rng.sample(states, 4000)
    for st in states:
        sh = st["shape"]
        members = [Sphere(n=1.5, r=float(sh["r1"]), center=(0.0, 0.0, 0.0)),
                   Sphere(n=1.5, r=float(sh["r2"]), center=tuple(float(x) for x in sh["c2"]))]
        if sh["third"]:
            # layered third member: outer radius counts
            r3 = float(sh["third"][0])
            members.append(Sphere(n=[1.4, 1.5], r=[r3 / 2, r3],
                                  center=tuple(float(x) for x in sh["third"][1])))
        with warnings.catch_warnings(record=True) as w:
            warnings.simplefilter("always")
            try:
                sc = Spheres(members, warn=bool(sh["warn"]))
            except Exception as e:
                ctx.violation("cluster/build", {"shape": sh, "exc": repr(e)})
                continue
        warned = any(issubclass(x.category, OverlapWarning) for x in w)
        exp_pairs = sorted((i - 1, j - 1) for i, j in st["obs"]["overlaps"])
        got_pairs = sorted(tuple(p) for p in sc.overlaps)
        boundary = any(abs(math.sqrt(d2) - rs) < 1.01 for _, _, rs, d2 in st["obs"]["pairs"])
        ctx.case(("cluster", sh), nontrivial=boundary)
        bad = None
        if got_pairs != exp_pairs:
            bad = ("overlaps", {"impl": got_pairs, "spec": exp_pairs})
        elif warned != bool(st["obs"]["warn"]):
            bad = ("warning", {"impl_warned": warned, "spec": st["obs"]["warn"]})
        else:
            want = max(rs - math.sqrt(d2) for _, _, rs, d2 in st["obs"]["pairs"])
            got = float(sc.largest_overlap())
            if want >= 0:
                d = abs(got - want)
            else:
                d = min(abs(got - want), abs(got - 0.0))
            if d > 1e-12:
                bad = ("largest_overlap", {"impl": got, "spec": want})
        if bad:
            ctx.violation("cluster/%s" % bad[0], dict(bad[1], shape=sh))
        else:
            ctx.trace_ok()
    ctx.sample({"mode": "cluster", "shape": sh, "spec_overlaps": exp_pairs,
                "spec_warn": st["obs"]["warn"]})
    # pairs that overlap, or miss each other, by a hair (1e-6 and 1e-9 of the sum of radii), in microns and in metres: the
    # pair is reported exactly when the distance is smaller than the sum of radii, and the warning goes with it
    for unit in (1.0, 1e-6):
        for depth in (1e-6, 1e-9, -1e-9, -1e-6):
            for (r1, r2) in ((0.5, 0.5), (1.25, 0.75), (0.5, 2.0)):
                R = (r1 + r2) * unit
                dist_ = R * (1 - depth)
                c2 = tuple(dist_ * v for v in (2 / 3.0, -1 / 3.0, 2 / 3.0))           # unit vector (2, -1, 2) / 3
                real_d = math.sqrt(sum(v * v for v in c2))
                if (real_d < R) != (depth > 0):
                    continue                                                          # (rounding ate the hair)
                ctx.case(("hair", unit, depth, r1, r2), nontrivial=True)
                with warnings.catch_warnings(record=True) as w:
                    warnings.simplefilter("always")
                    sc = Spheres([Sphere(n=1.5, r=r1 * unit, center=(0.0, 0.0, 0.0)), Sphere(n=1.5, r=r2 * unit, center=c2)])
                warned = any(issubclass(x.category, OverlapWarning) for x in w)
                got_pairs = sorted(tuple(p_) for p_ in sc.overlaps)
                want_pairs = [(0, 1)] if depth > 0 else []
                if got_pairs != want_pairs or warned != (depth > 0):
                    ctx.violation("cluster/overlaps/by_a_hair", {"unit": unit, "relative_depth": depth, "radii": [r1, r2],
                                                                 "impl_pairs": got_pairs, "warned": warned})
                else:
                    ctx.trace_ok()
    # larger collections (up to 8 members) by seeded generation, recorded as traces
    nbig = 30 if quick else 300
    for t in range(nbig):
        k = rng.randrange(2, 9)
        cs = [tuple(rng.randrange(-6, 7) for _ in range(3)) for _ in range(k)]
        rs = [rng.randrange(1, 4) for _ in range(k)]
        with warnings.catch_warnings():
            warnings.simplefilter("ignore")
            sc = Spheres([Sphere(n=1.5, r=float(r), center=tuple(map(float, c)))
                          for r, c in zip(rs, cs)])
        exp = sorted((i, j) for i in range(k) for j in range(i + 1, k)
                     if sum((a - b) ** 2 for a, b in zip(cs[i], cs[j])) < (rs[i] + rs[j]) ** 2)
        ctx.case(("bigcluster", t))
        if sorted(tuple(p) for p in sc.overlaps) != exp:
            ctx.violation("cluster/overlaps/large", {"centers": cs, "radii": rs})
        want = max(rs[i] + rs[j] - math.sqrt(sum((a - b) ** 2 for a, b in zip(cs[i], cs[j])))
                   for i in range(k) for j in range(i + 1, k))
        got = float(sc.largest_overlap())
        traces.append([{"event": "LargestOverlap",
                        "mb": quant.mb(abs(got - want) if want >= 0 else min(abs(got - want), abs(got)))}])

    # ---------------- voxelisation converges to the analytic volume -------------------------------
    shapes = [("sphere", 1.0), ("sphere", 2.5), ("ellipsoid", (1.0, 2.0, 4.0)), ("ellipsoid", (2.0, 2.0, 1.0))]
    for kind, par in shapes:
        if kind == "sphere":
            obj = Sphere(n=1.5, r=par, center=(0.3, -0.2, 0.1))
            vol = 4 / 3 * math.pi * par ** 3
            rmin = par
        else:
            obj = Ellipsoid(n=1.5, r=par, center=(0.3, -0.2, 0.1))
            vol = 4 / 3 * math.pi * par[0] * par[1] * par[2]
            rmin = min(par)
        errs = []
        for div in (5, 10, 20):
            sp = rmin / div
            vox = obj.voxelate(sp, 0)
            errs.append(abs(np.count_nonzero(vox) * sp ** 3 - vol) / vol)
        b = obj.bounds
        cloud = np.random.default_rng(ctx.seed).uniform(-5, 5, size=(4000, 3))
        ins = cloud[np.asarray(obj.contains(cloud)).ravel()]
        bc = all(ins[:, a].min() >= b[a][0] and ins[:, a].max() <= b[a][1] for a in range(3)) if len(ins) else True
        traces.append([{"event": "Voxel", "mb_coarse": quant.mb(errs[0]), "mb_mid": quant.mb(errs[1]),
                        "mb_fine": quant.mb(errs[2]), "bounds_contain": bool(bc), "kind": kind}])
        ctx.case(("voxel", kind, str(par)))
    verdicts = tracemod.validate(ctx, "GeometryTrace", traces)
    for tr, (acc, line, clauses) in zip(traces, verdicts):
        if acc:
            ctx.trace_ok()
        else:
            ev = tr[line - 1]
            bad = [k for k, v in (clauses or {}).items() if v is False]
            ctx.violation("trace/%s/%s" % (ev["event"], ",".join(bad)), {"event": ev})
    ctx.sample({"trace": traces[-1]})
    ctx.exhaustive = not quick


if __name__ == "__main__":
    sys.exit(harness.main(PID, run))
