"""C16 — images keep values, coordinates and metadata through I/O and metadata edits.

spec/ImageIO.tla enumerates abstract images (shape, dtype, 1-3 channels, named or not, each
metadata key None / scalar / per-channel dictionary / per-channel array) and the operations:
HDF5 save/load cycles (identity), TIFF export/import at three depths (quantised), metadata
updates over every subset of keys, averaging over every push order of file multisets, raster
loading with channel selection.  Every sampled behaviour is replayed on real files in a
scratch directory.
"""
import itertools
import math
import os
import random
import shutil
import sys
import tempfile
import warnings

sys.path.insert(0, os.path.join(os.path.dirname(os.path.abspath(__file__)), "..", "lib"))
import boot  # noqa
import harness
import fp

import numpy as np
import xarray as xr
from PIL import Image as pilimage

PID = "C16"

import holopy as hp
from holopy.core.metadata import data_grid, update_metadata, get_spacing

SHAPES = {"1x1": (1, 1), "2x3": (2, 3), "4x5": (4, 5), "5x4": (5, 4), "1x6": (1, 6)}
LABELS = {2: ["red", "green"], 3: ["red", "green", "blue"]}      # deliberately not alphabetical


LABEL_ORDERS = {"rg": ["red", "green"], "gb": ["green", "blue"], "br": ["blue", "red"], "ab": ["a", "b"],
                "rgb": ["red", "green", "blue"], "grb": ["green", "red", "blue"]}


def attr_value(key, kind, nch, labs=None):
    labs = labs or LABELS.get(nch, [])
    if kind == "none":
        return None
    if kind == "scalar_zero":
        return 0.0
    if kind == "scalar":
        return {"medium_index": 1.33, "illum_wavelen": 0.66, "illum_polarization": (0.6, 0.8), "noise_sd": 0.05}[key]
    per = {"illum_wavelen": {"red": 0.66, "green": 0.52, "blue": 0.445, "a": 0.7, "b": 0.5},
           "noise_sd": {"red": 0.05, "green": 0.1, "blue": 0.02, "a": 0.03, "b": 0.07},
           "illum_polarization": {"red": (1, 0), "green": (0, 1), "blue": (1, 1), "a": (1, 0), "b": (0.6, 0.8)}}[key]
    if kind == "per_channel_dict":
        return {l: per[l] for l in labs}
    return xr.DataArray([per[l] for l in labs], dims=["illumination"], coords={"illumination": labs})


def make_image(im, nprng, labels=None):
    shape = SHAPES[im["shape"]]
    nch = im["channels"]
    one_label_axis = nch == 1 and any(str(v).startswith("per_channel") for v in im["attrs"].values())
    full = shape + ((nch,) if nch > 1 or one_label_axis else ())
    if im["dtype"].startswith("uint"):
        arr = nprng.integers(0, 200 if im["dtype"] == "uint8" else 60000, size=full).astype(im["dtype"])
    else:
        arr = (nprng.normal(size=full) * 10).astype(im["dtype"])
    labs = labels or (["red"] if one_label_axis else LABELS.get(nch))
    extra = {"illumination": labs} if nch > 1 or one_label_axis else None
    kw = {k: attr_value(k, v, nch, labs) for k, v in im["attrs"].items()}
    from holopy.core.metadata import detector_grid
    img = detector_grid(shape, (0.1, 0.25), name="holo" if im["named"] else None, extra_dims=extra)
    img = img.astype(arr.dtype)
    img.values[...] = arr.reshape(img.shape)
    img = update_metadata(img, **kw)
    return img, arr


def attrs_equal(a, b):
    ka = {k for k in a if not k.startswith("_")}
    kb = {k for k in b if not k.startswith("_")}
    if ka != kb:
        return False, "keys %s vs %s" % (sorted(ka), sorted(kb))
    for k in ka:
        va, vb = a[k], b[k]
        if isinstance(va, xr.DataArray) or isinstance(vb, xr.DataArray):
            if not (isinstance(va, xr.DataArray) and isinstance(vb, xr.DataArray)):
                return False, k
            try:
                va2, vb2 = xr.align(va, vb, join="exact")
                if not np.array_equal(va2.values, vb2.sel({d: va2[d] for d in va2.dims}).values):
                    return False, k
            except Exception:
                # compare by label
                try:
                    if set(va.dims) != set(vb.dims):
                        return False, k
                    vb3 = vb.sel({d: va[d].values for d in va.dims}).transpose(*va.dims)
                    if not np.array_equal(va.values, vb3.values):
                        return False, k
                except Exception:
                    return False, k
        elif va is None or vb is None:
            if not (va is None and vb is None):
                return False, k
        elif not np.array_equal(np.asarray(va), np.asarray(vb)):
            return False, k
    return True, ""


def same_image(a, b, check_dtype=True):
    if a.name != b.name:
        return "name %r vs %r" % (a.name, b.name)
    if set(a.dims) != set(b.dims):
        return "dims %s vs %s" % (a.dims, b.dims)
    bt = b.transpose(*a.dims)
    for d in a.dims:
        if d in a.coords:
            if d not in bt.coords or not np.array_equal(a[d].values, bt[d].values):
                return "coord %s" % d
    if not np.array_equal(a.values, bt.values):
        return "values"
    if check_dtype and a.dtype != bt.dtype:
        return "dtype %s vs %s" % (a.dtype, bt.dtype)
    ok, why = attrs_equal(dict(a.attrs), dict(b.attrs))
    return None if ok else "attrs: " + why


def run(ctx):
    quick = ctx.tier == "quick"
    rng = random.Random(ctx.seed)
    nprng = np.random.default_rng(ctx.seed)
    tmp = tempfile.mkdtemp(prefix="c16_")
    ctx.rule = ("TLC enumerates 8320 abstract images x HDF5 cycles, single-channel images x TIFF depths, "
                "metadata updates over all 15 key subsets, all push orders of file multisets of size <= 4, "
                "raster layouts; quick replays a seeded factor-covering sample; distinct = (image, operation "
                "path); non-trivial = multi-channel or per-channel metadata or >= 2 cycles / files")
    ctx.assumptions = ["scratch files under a mkdtemp directory that is removed at the end"]
    try:
        # ------------------------ HDF5 cycles ---------------------------------------------------
        g = ctx.tlc_graph("ImageIO", "ImageIO_h5.cfg", workers=16, heap="8g")
        inits = list(g.init)
        rng.shuffle(inits)
        chosen, seen = [], set()
        for sid in inits:
            im = g.states[sid]["img"]
            vals = {("shape", im["shape"]), ("dtype", im["dtype"]), ("ch", im["channels"]), ("named", im["named"])} | \
                   {(k, v) for k, v in im["attrs"].items()}
            if not vals <= seen:
                chosen.append(sid)
                seen |= vals
        chosen += inits[:(150 if quick else 3000)]
        for n, sid in enumerate(chosen):
            im = g.states[sid]["img"]
            ctx.case(("h5", str(sorted(im.items()))), nontrivial=im["channels"] > 1)
            try:
                img, arr = make_image(im, nprng)
            except Exception as e:
                ctx.violation("h5/build", {"img": im, "exc": repr(e)[:300]})
                continue
            keep = fp.fingerprint(img)
            cur = img
            bad = None
            # the metadata as stored must carry each per-channel value under its own label
            for k, kind in im["attrs"].items():
                if kind.startswith("per_channel"):
                    want = attr_value(k, "per_channel_dict", im["channels"])
                    for lab, v in want.items():
                        got = img.attrs[k].sel(illumination=lab).values
                        if k == "illum_polarization":
                            pv = np.array(list(v) + [0.0], dtype=float)
                            v = pv / np.sqrt((pv ** 2).sum())
                        if not np.allclose(np.asarray(got, dtype=float), np.asarray(v, dtype=float), atol=1e-15):
                            bad = "metadata_label: %s[%s] = %r, given %r" % (k, lab, np.asarray(got).tolist(), v)
            try:
                for cyc in range(1, 4):
                    if bad:
                        break
                    path = os.path.join(tmp, "im_%d_%d" % (n, cyc))
                    with warnings.catch_warnings():
                        warnings.simplefilter("ignore")
                        hp.save(path, cur)
                        cur = hp.load(path)
                    why = same_image(img, cur)
                    if why:
                        bad = ("cycle%d: %s" % (cyc, why))
                        break
                    os.remove(path + ".h5") if os.path.exists(path + ".h5") else None
            except Exception as e:
                bad = "exception: " + repr(e)[:300]
            if bad is None and fp.fingerprint(img) != keep:
                bad = "original modified by save"
            if bad:
                ctx.violation("h5/%s" % bad.split(":")[0].split(" ")[0], {"img": im, "why": bad})
            else:
                ctx.trace_ok()
        ctx.sample({"mode": "h5", "image": {k: (dict(v) if isinstance(v, dict) else v) for k, v in im.items()}, "cycles": 3})

        # ------------------------ TIFF ------------------------------------------------------------
        g = ctx.tlc_graph("ImageIO", "ImageIO_tiff.cfg")
        edges = [e for e in g.edges if e[1] == "SaveLoadTiff"]
        if quick:
            edges = rng.sample(edges, 200)
        for n, e in enumerate(edges):
            im = g.states[e[0]]["img"]
            depth, sc = e[2][0], e[2][1]
            bits, rng_class = g.states[e[3]]["hist"][-1][2], g.states[e[3]]["hist"][-1][3]
            ctx.case(("tiff", str(sorted(im.items())), depth, sc))
            try:
                img, arr = make_image(im, nprng)
                a0 = np.asarray(img.values, dtype=float)
                if sc == "none_unit" and a0.max() > a0.min():     # the same picture with values inside [0, 1]
                    img = img.copy(data=(0.1 + 0.8 * (a0 - a0.min()) / (a0.max() - a0.min())).astype(img.values.dtype))
                    a0 = np.asarray(img.values, dtype=float)
                w0 = float(a0.max() - a0.min())
                scaling = {"auto": "auto", "pair_tight": (float(a0.min()), float(a0.max())),
                           "pair_wide": (float(a0.min()) - 0.3 * w0 - 0.25, float(a0.max()) + 0.7 * w0 + 0.5),
                           "none_unit": None}[sc]
                path = os.path.join(tmp, "t_%d.tif" % n)
                with warnings.catch_warnings():
                    warnings.simplefilter("ignore")
                    if n % 3 == 0:      # the same writer behind the plural form, a list of one picture
                        from holopy.core.io import save_images
                        save_images([path], [img], scaling=scaling, depth=depth)
                    else:
                        hp.save_image(path, img, scaling=scaling, depth=depth)
                    back = hp.load(path)
            except Exception as ex:
                ctx.violation("tiff/exception/%s" % ("constant_image" if arr.max() == arr.min() else "depth%d" % depth),
                              {"img": im, "depth": depth, "exc": repr(ex)[:300]})
                continue
            a = np.asarray(img.values, dtype=float).squeeze()
            b = np.asarray(back.values, dtype=float).squeeze()
            lo, hi = a.min(), a.max()
            spread = {"image": hi - lo, "pair": (scaling[1] - scaling[0]) if rng_class == "pair" else 0.0, "unit": 1.0}[rng_class]
            step = spread / (2 ** bits - 1) if hi > lo else 0.0
            # the rescaling is done in the image's own dtype: a float32 image carries its own rounding
            # (a few ulp of the value range) on top of the stated half quantisation step
            vt = np.asarray(img.values).dtype
            in_eps = 8 * float(np.finfo(vt).eps) * max(abs(lo), abs(hi)) if vt.kind == "f" else 0.0
            bad = None
            if a.shape != b.shape:
                bad = ("shape", {"impl": b.shape})
            elif hi > lo and not np.max(np.abs(a - b)) <= 0.5 * step * (1 + 1e-6) + 1e-9 * max(1, abs(hi)) + in_eps:
                bad = ("quantisation", {"max_err": float(np.max(np.abs(a - b))), "half_step": 0.5 * step})
            elif hi == lo and not np.all(np.isfinite(b)):
                bad = ("constant_image", {"loaded": b.tolist()})
            else:
                sp_a, sp_b = np.asarray(get_spacing(img)), np.asarray(get_spacing(back))
                ok, why = attrs_equal(dict(img.attrs), dict(back.attrs))
                if img.shape[1] > 1 and img.shape[2] > 1 and not np.allclose(sp_a, sp_b, rtol=1e-12):
                    bad = ("spacing", {"impl": sp_b.tolist(), "orig": sp_a.tolist()})
                elif not ok:
                    bad = ("attrs", {"why": why})
                elif im["named"] and back.name != img.name:
                    bad = ("name", {"impl": back.name})
            if bad:
                ctx.violation("tiff/%s%s" % (bad[0], "" if sc == "auto" else "/" + sc), dict(bad[1], img=im, depth=depth, scaling=sc))
            else:
                ctx.trace_ok()
            os.remove(path)
        # ---- colour TIFF: two- and three-channel images, every channel layout, per-channel metadata
        g = ctx.tlc_graph("ImageIO", "ImageIO_tiffcolour.cfg")
        edges = [e for e in g.edges if e[1] == "SaveLoadTiff"]
        if quick:
            edges = rng.sample(edges, 70)
        seen_layouts = set()
        for n, e in enumerate(edges):
            st = g.states[e[0]]["img"]
            im, lab = st["base"], st["labels"]
            labs = LABEL_ORDERS[lab]
            seen_layouts.add(lab)
            ctx.case(("tiffcolour", str(sorted(im.items())), lab))
            try:
                img, arr = make_image(im, nprng, labels=labs)
                path = os.path.join(tmp, "c_%d.tif" % n)
                with warnings.catch_warnings():
                    warnings.simplefilter("ignore")
                    hp.save_image(path, img, depth=8)
                    back = hp.load(path)
            except Exception as ex:
                ctx.violation("tiffcolour/exception/%s" % lab, {"img": im, "labels": labs, "exc": repr(ex)[:300]})
                continue
            bad = None
            a_all = np.asarray(img.values, dtype=float)
            lo, hi = a_all.min(), a_all.max()
            step = (hi - lo) / 255.0 if hi > lo else 0.0
            if "illumination" not in back.dims or len(back.illumination) != len(labs):
                bad = ("channels", {"loaded": list(map(str, back.illumination.values)) if "illumination" in back.dims else None})
            else:
                for k, l in enumerate(labs):
                    a = np.asarray(img.sel(illumination=l).values, dtype=float).squeeze()
                    # colour names come back under their own label (in R, G, B order); others by position
                    b = back.sel(illumination=l) if lab != "ab" else back.isel(illumination=k)
                    b = np.asarray(b.values, dtype=float).squeeze()
                    if a.shape != b.shape or (hi > lo and not np.max(np.abs(a - b)) <= 0.5 * step * (1 + 1e-6) + 1e-9 * max(1, abs(hi))):
                        bad = ("quantisation", {"channel": l, "max_err": float(np.max(np.abs(a - b))) if a.shape == b.shape else None,
                                                "half_step": 0.5 * step})
                        break
            if bad is None:
                ok, why = attrs_equal(dict(img.attrs), dict(back.attrs))
                sp_a, sp_b = np.asarray(get_spacing(img)), np.asarray(get_spacing(back))
                if not ok:
                    bad = ("attrs", {"why": why})
                elif not np.allclose(sp_a, sp_b, rtol=1e-12):
                    bad = ("spacing", {"impl": sp_b.tolist(), "orig": sp_a.tolist()})
            if bad:
                ctx.violation("tiffcolour/%s/%s" % (bad[0], lab), dict(bad[1], img=im, labels=labs))
            else:
                ctx.trace_ok()
            os.remove(path)
        ctx.notes["colour_layouts_replayed"] = sorted(seen_layouts)
        ctx.uncovered("16-bit colour TIFF: the imaging library cannot write 16-bit RGB; colour export is replayed at depth 8")
        ctx.sample({"mode": "tiff", "image": str(im), "depth": depth, "usable_bits": bits})

        # ------------------------ update_metadata ---------------------------------------------------
        g = ctx.tlc_graph("ImageIO", "ImageIO_update.cfg")
        edges = [e for e in g.edges if e[1] == "UpdateMetadata"]
        if quick:
            edges = rng.sample(edges, 250)
        newvals = {"medium_index": 1.5, "illum_wavelen": 0.405, "illum_polarization": (3.0, 4.0), "noise_sd": 0.2}
        for e in edges:
            im = g.states[e[0]]["img"]
            K = sorted(e[2][0])
            form = e[2][1]
            ctx.case(("update", str(sorted(im["attrs"].items())), im["channels"], tuple(K), form))
            try:
                img, arr = make_image(im, nprng)
                keep = fp.fingerprint(img)
                nv = dict(newvals)
                if form == "three_components":
                    nv["illum_polarization"] = (3.0, 4.0, 0.0)
                new = update_metadata(img, **{k: nv[k] for k in K})
            except Exception as ex:
                ctx.violation("update/exception", {"img": im, "keys": K, "exc": repr(ex)[:300]})
                continue
            bad = None
            if fp.fingerprint(img) != keep:
                bad = "original_modified"
            elif new is img:
                bad = "same_object_returned"
            elif not np.array_equal(new.values, img.values) or new.name != img.name or \
                    not all(np.array_equal(new[d].values, img[d].values) for d in img.dims):
                bad = "values_or_coords_changed"
            else:
                for k in ("medium_index", "illum_wavelen", "illum_polarization", "noise_sd"):
                    if k in K:
                        want = newvals[k]
                        got = new.attrs[k]
                        if k == "illum_polarization":
                            gv = np.asarray(got.values, dtype=float)
                            if not np.allclose(gv, [0.6, 0.8, 0.0], atol=1e-15):
                                bad = "named_key_not_set/illum_polarization"
                        elif got != want:
                            bad = "named_key_not_set/%s" % k
                    else:
                        ok, why = attrs_equal({k: img.attrs.get(k)}, {k: new.attrs.get(k)})
                        if not ok:
                            bad = "unnamed_key_changed/%s" % k
            if bad is None:
                # the result is a new image: working on it in place (pixels, per-channel metadata arrays) must not
                # reach the original
                try:
                    new.values[...] = new.values + 1
                    for k_ in ("illum_wavelen", "noise_sd", "illum_polarization"):
                        v_ = new.attrs.get(k_)
                        if isinstance(v_, xr.DataArray) and v_.ndim >= 1:
                            v_.values[...] = v_.values * 2
                except Exception:
                    pass
                if fp.fingerprint(img) != keep:
                    bad = "original_shares_storage_with_result"
            if bad:
                ctx.violation("update/%s" % bad, {"img": im, "keys": K})
            else:
                ctx.trace_ok()
        ctx.sample({"mode": "update", "keys": K, "attrs_before": dict(im["attrs"])})

        # ------------------------ averaging: every push order -----------------------------------------
        g = ctx.tlc_graph("ImageIO", "ImageIO_average.cfg")
        files = []
        raw = []
        for f in range(4):
            a = nprng.integers(1, 250, size=(4, 6)).astype(np.uint8)
            p = os.path.join(tmp, "avg_%d.tif" % f)
            pilimage.fromarray(a).save(p)
            files.append(p)
            raw.append(a.astype(float))

        def walk(sid, order):
            yield sid, order
            for e in g.out.get(sid, []):
                if e[1] == "Push":
                    yield from walk(e[3], order + [e[2][0]])
        seen_orders = 0
        results = {}
        for sid, order in walk(g.init[0], []):
            if len(order) < 2:
                continue
            if quick and len(order) == 4 and rng.random() > 0.25:
                continue
            seen_orders += 1
            ms = tuple(sorted(order))
            ctx.case(("average", tuple(order)), nontrivial=len(set(order)) > 1)
            try:
                with warnings.catch_warnings():
                    warnings.simplefilter("ignore")
                    av = hp.core.io.load_average([files[f - 1] for f in order], spacing=(0.1, 0.25), medium_index=1.33,
                                         illum_wavelen=0.66, illum_polarization=(1, 0))
            except Exception as ex:
                ctx.violation("average/exception", {"order": order, "exc": repr(ex)[:300]})
                continue
            stack = np.array([raw[f - 1] for f in order])
            mean = stack.mean(0)
            noise = float((stack.std(0) / mean).mean())
            got = np.asarray(av.transpose("z", "x", "y").values[0])
            bad = None
            if got.shape != mean.shape or np.max(np.abs(got - mean)) > 1e-12 * 255:
                bad = "mean"
            elif abs(float(av.noise_sd) - noise) > 1e-12:
                bad = "relative_noise"
            elif not (np.allclose(av.x.values, np.arange(4) * 0.1) and np.allclose(av.y.values, np.arange(6) * 0.25)):
                bad = "coordinates"
            elif ms in results and (np.max(np.abs(results[ms][0] - got)) > 1e-12 * 255 or
                                    abs(results[ms][1] - float(av.noise_sd)) > 1e-12):
                bad = "order_dependent"
            if bad is None and ms not in results:
                # ... and it is an image like any other: one HDF5 cycle gives it back (values, noise level, optics)
                try:
                    ph5 = os.path.join(tmp, "avg_cycle.h5")
                    hp.save(ph5, av)
                    back = hp.load(ph5)
                    os.remove(ph5)
                    ok_, why_ = attrs_equal({k_: (float(v_) if k_ == "noise_sd" else v_) for k_, v_ in av.attrs.items()},
                                            {k_: (float(v_) if k_ == "noise_sd" and v_ is not None else v_) for k_, v_ in back.attrs.items()})
                    if not np.array_equal(back.values, av.values) or not ok_:
                        bad = "h5_cycle_of_average"
                except Exception as ex:
                    bad = "h5_cycle_of_average_exception"
            results.setdefault(ms, (got, float(av.noise_sd)))
            if bad:
                ctx.violation("average/%s" % bad, {"order": order})
            else:
                ctx.trace_ok()
        ctx.notes["average_orders"] = seen_orders
        # averaging cropped to a reference image with anisotropic pixels
        ref = data_grid(np.zeros((2, 3)), spacing=(0.1, 0.25), medium_index=1.33, illum_wavelen=0.66,
                        illum_polarization=(1, 0))
        ref = ref.assign_coords(x=ref.x.values + 0.1, y=ref.y.values + 0.5)
        for sp in ((0.1, 0.25), (0.25, 0.1)):
            refx = data_grid(np.zeros((2, 3)), spacing=sp, medium_index=1.33, illum_wavelen=0.66, illum_polarization=(1, 0))
            refx = refx.assign_coords(x=refx.x.values + sp[0], y=refx.y.values + 2 * sp[1])
            ctx.case(("average", "refimg", sp))
            try:
                with warnings.catch_warnings():
                    warnings.simplefilter("ignore")
                    av = hp.core.io.load_average(files[:3], refimg=refx)
                want = np.array(raw[:3]).mean(0)[1:3, 2:5]
                got = np.asarray(av.transpose("z", "x", "y").values[0])
                st_ = np.array(raw[:3])[:, 1:3, 2:5]
                want_noise = float((st_.std(0) / st_.mean(0)).mean())       # of the returned (cropped) average
                if got.shape != want.shape or np.max(np.abs(got - want)) > 1e-9:
                    ctx.violation("average/refimg_crop", {"spacing": sp, "got": got.tolist(), "want": want.tolist()})
                elif abs(float(av.noise_sd) - want_noise) > 1e-12:
                    ctx.violation("average/refimg_relative_noise", {"spacing": sp, "impl": float(av.noise_sd), "want": want_noise})
                else:
                    ctx.trace_ok()
            except Exception as ex:
                ctx.violation("average/refimg_exception", {"spacing": sp, "exc": repr(ex)[:300]})

        # ------------------------ raster loading ---------------------------------------------------------
        g = ctx.tlc_graph("ImageIO", "ImageIO_raster.cfg")
        for n, st in enumerate(g.states.values()):
            r = st["img"]
            shape = SHAPES[r["shape"]]
            ctx.case(("raster", str(sorted(r.items()))))
            if r["colour"]:
                a = nprng.integers(0, 255, size=shape + (3,)).astype(np.uint8)
            else:
                a = nprng.integers(0, 255, size=shape).astype(np.uint8)
            p = os.path.join(tmp, "r_%d.png" % n)
            pilimage.fromarray(a).save(p)
            spacing = (0.3, 0.7) if r["aniso"] else 0.3
            ch = {"none": None, "one": 1, "two": [0, 2], "all": "all"}[r["channel"]]
            try:
                with warnings.catch_warnings():
                    warnings.simplefilter("ignore")
                    im = hp.load_image(p, spacing=spacing, channel=ch)
                outcome = "ok"
            except Exception as ex:
                outcome = type(ex).__name__
            if r["colour"] and r["channel"] == "none":
                if outcome == "ok":
                    ctx.violation("raster/colour_without_channel_accepted", {"layout": r})
                else:
                    ctx.trace_ok()
                continue
            if outcome != "ok":
                ctx.violation("raster/exception", {"layout": r, "exc": outcome})
                continue
            sx, sy = (spacing if r["aniso"] else (spacing, spacing))
            bad = None
            if not (np.allclose(im.x.values, np.arange(shape[0]) * sx) and np.allclose(im.y.values, np.arange(shape[1]) * sy)):
                bad = "pixel_positions"
            else:
                if not r["colour"] or r["channel"] == "one":
                    want = a.astype(float) if not r["colour"] else a[:, :, 1].astype(float)
                    got = np.asarray(im.transpose("z", "x", "y").values[0])
                    if got.shape != want.shape or not np.array_equal(got, want):
                        bad = "values"
                else:
                    idx = [0, 2] if r["channel"] == "two" else [0, 1, 2]
                    labs = [["red", "green", "blue"][i] for i in idx]
                    if list(im.illumination.values) != labs:
                        bad = "channel_labels"
                    else:
                        for i, l in zip(idx, labs):
                            got = np.asarray(im.sel(illumination=l).transpose("z", "x", "y").values[0])
                            if not np.array_equal(got, a[:, :, i].astype(float)):
                                bad = "channel_values"
            if bad:
                ctx.violation("raster/%s" % bad, {"layout": r})
            else:
                ctx.trace_ok()
        ctx.sample({"mode": "raster", "layout": dict(r)})
    finally:
        shutil.rmtree(tmp, ignore_errors=True)
    ctx.exhaustive = not quick


if __name__ == "__main__":
    sys.exit(harness.main(PID, run))
