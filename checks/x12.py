"""X12 (extension, not one of the listed properties) — bodies much smaller than the wavelength scatter like dipoles:
forward amplitude = i k^3 alpha / (4 pi) with the electrostatic polarisability (closed form for spheres and
spheroids, bracketed for cylinders), and eight times more when every length is doubled.  spec/SmallBodies.tla
enumerates bodies, aspect classes, field directions and routes; every state is measured on the real theories."""
import math
import os
import sys
import warnings

sys.path.insert(0, os.path.join(os.path.dirname(os.path.abspath(__file__)), "..", "lib"))
import boot  # noqa
import harness

import numpy as np

PID = "X12"

from holopy.scattering import Sphere, Spheroid, Cylinder, calc_scat_matrix, Mie, Tmatrix
from holopy.core.metadata import detector_points

NMED, WL = 1.33, 0.66
K = 2 * math.pi * NMED / WL
N = 1.5
ASPECT = {"compact": 1.0, "prolate_2": 2.0, "oblate_2": 0.5}


def depol_axis(e):
    """depolarisation factor along the symmetry axis of a spheroid with (length along the axis) / (width) = e"""
    if abs(e - 1.0) < 1e-12:
        return 1.0 / 3
    if e > 1:                       # prolate
        ecc = math.sqrt(1 - 1 / e ** 2)
        return (1 - ecc ** 2) / ecc ** 2 * (math.log((1 + ecc) / (1 - ecc)) / (2 * ecc) - 1)
    ecc = math.sqrt(1 - e ** 2)     # oblate
    return (1 / ecc ** 2) * (1 - math.sqrt(1 - ecc ** 2) / ecc * math.asin(ecc))


def forward(sc, theory, pol_along_x=True):
    det = detector_points(theta=np.array([0.0]), phi=np.array([0.0]), r=1e4)
    S = calc_scat_matrix(det, sc, medium_index=NMED, illum_wavelen=WL, theory=theory).values[0]
    return S[0, 0] if pol_along_x else S[1, 1]


def run(ctx):
    ctx.rule = ("TLC enumerates sphere / spheroid / cylinder x aspect 1, 2, 1/2 x field along / across the axis x route; every "
                "state is measured at two sizes (volume-equivalent k a = 0.02 and 0.04)")
    ctx.assumptions = ["leading order in k a: relative corrections of order (k a)^2 <= 2e-3 are inside the 2 % asked of the exact law",
                       "the body's axis is put along x (field along the axis) or along y (field across), light along z, x polarised"]
    g = ctx.tlc_graph("SmallBodies", "SmallBodies.cfg")
    m2 = (N / NMED) ** 2
    seen = set()
    with warnings.catch_warnings():
        warnings.simplefilter("ignore")
        for sid in g.init:
            b = g.states[sid]["body"]
            e = ASPECT[b["aspect"]]
            seen.add(b["kind"])
            ctx.case(tuple(sorted(b.items())), nontrivial=True)
            vals = []
            try:
                for ka in (0.02, 0.04):
                    a_eq = ka / K                                   # radius of the sphere of equal volume
                    V = 4 / 3 * math.pi * a_eq ** 3
                    # axis along x (beta = pi/2, alpha = 0) or along y (alpha = pi/2): rotation = (alpha?, beta, gamma)
                    rot = (0.0, math.pi / 2, 0.0) if b["field"] == "along_axis" else (0.0, math.pi / 2, math.pi / 2)
                    if b["kind"] == "sphere":
                        sc = Sphere(n=N, r=a_eq, center=(0, 0, 0))
                    elif b["kind"] == "spheroid":
                        w = a_eq / e ** (1 / 3)                     # semi-width; semi-length = e w; V = 4/3 pi w^2 (e w)
                        sc = Spheroid(n=N, r=(w, e * w), rotation=rot, center=(0, 0, 0))
                    else:
                        rad = (V / (2 * math.pi * e)) ** (1 / 3)   # V = pi rad^2 h, h = 2 e rad
                        sc = Cylinder(n=N, d=2 * rad, h=2 * e * rad, rotation=rot, center=(0, 0, 0))
                    th = Mie(False, False) if b["route"] == "Mie" else Tmatrix()
                    L = depol_axis(e)
                    L = L if b["field"] == "along_axis" else (1 - L) / 2
                    alpha = V * (m2 - 1) / (1 + L * (m2 - 1))
                    want = K ** 3 * alpha / (4 * math.pi)
                    vals.append((abs(forward(sc, th)), want))
            except Exception as ex:
                ctx.violation("small_bodies/exception", {"body": b, "exc": repr(ex)[:200]})
                continue
            (g1, w1), (g2, w2) = vals
            law = "bracketed" if b["kind"] == "cylinder" else "exact"
            tol = 0.15 if law == "bracketed" else 0.02
            bad = None
            if abs(g1 / w1 - 1) > tol or abs(g2 / w2 - 1) > tol:
                bad = ("amplitude_vs_polarisability", {"ratio": [g1 / w1, g2 / w2], "law": law})
            elif abs(g2 / g1 / 8 - 1) > 0.01:
                bad = ("volume_law", {"ratio_on_doubling": g2 / g1})
            ctx.notes.setdefault("measured_over_expected", {})["/".join(str(b[k_]) for k_ in ("kind", "aspect", "field", "route"))] = [round(g1 / w1, 4), round(g2 / w2, 4)]
            if bad:
                ctx.violation("small_bodies/%s/%s" % (b["kind"], bad[0]), dict(bad[1], body=b))
            else:
                ctx.trace_ok()
    if seen != {"sphere", "spheroid", "cylinder"}:
        raise harness.MachineryError("bodies missing: %s" % seen)
    ctx.sample({"body": dict(b), "measured_over_expected": [g1 / w1, g2 / w2]})
    ctx.exhaustive = True


if __name__ == "__main__":
    sys.exit(harness.main(PID, run))
