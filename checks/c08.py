"""C08 — analytic sphere-through-lens theory equals the numerical lens wrapper.

spec/LensRoutes.tla enumerates the physical classes (index, size, k z above/below focus, lens
angle, polarisation in Z_24, radial range) and the routes that must all give the same field
(interpolation modes, accuracy knobs, zero-aberration variants, the numerical Lens(Mie) with a
quadrature ladder).  The harness computes every route on sampled classes and
spec/LensRoutesTrace.tla validates the recorded defects (code -> spec).
"""
import math
import warnings
import os
import random
import sys

sys.path.insert(0, os.path.join(os.path.dirname(os.path.abspath(__file__)), "..", "lib"))
import boot  # noqa
import harness
import quant
import trace as tracemod

import numpy as np

PID = "C08"

from holopy.scattering import Sphere, calc_field, Mie, MieLens, AberratedMieLens
from holopy.scattering.theory import Lens
from holopy.core.metadata import detector_points

NMED, WL = 1.33, 0.66
K = 2 * math.pi * NMED / WL
MV = {"m105": 1.05, "m120": 1.2, "m160": 1.6, "m250": 2.5}
XV = {"x01": 0.1, "x1": 1.0, "x5": 5.0, "x20": 20.0, "x50": 50.0}
KZ = {"kz_m150": -150.0, "kz_m20": -20.0, "kz_5": 5.0, "kz_60": 60.0, "kz_300": 300.0}
AV = {"a01": 0.1, "a06": 0.6, "a10": 1.0, "a14": 1.4}


def rel(a, b, scale):
    a, b = np.asarray(a), np.asarray(b)
    if not (np.all(np.isfinite(a)) and np.all(np.isfinite(b))):
        return float("inf")
    return float(np.max(np.abs(a - b))) / scale


def scan_catalogue():
    """one sphere, six lens requests (LensRoutes.tla, ScanCatalogue)"""
    det = detector_points(x=np.array([0.0, 0.7, -1.6, 2.4]), y=np.array([0.3, -0.9, 1.1, 0.2]), z=0.0)
    sc = Sphere(n=1.6 * NMED, r=5.0 / K, center=(0.0, 0.0, 60.0 / K))
    kw = dict(medium_index=NMED, illum_wavelen=WL, illum_polarization=(math.cos(math.pi / 6), math.sin(math.pi / 6)))
    f = lambda th: (lambda: calc_field(det, sc, theory=th(), **kw).values)
    return [f(lambda: MieLens(lens_angle=0.6)), f(lambda: MieLens(lens_angle=1.0)),
            f(lambda: AberratedMieLens(spherical_aberration=[0.0], lens_angle=0.6)),
            f(lambda: AberratedMieLens(spherical_aberration=0.0, lens_angle=1.0)),
            f(lambda: MieLens(lens_angle=0.6, calculator_accuracy_kwargs={"quad_npts": 200})),
            f(lambda: Lens(1.0, Mie(False, False), 40, 40))]


def run_scan_entry(idx):
    import hashlib
    with warnings.catch_warnings():
        warnings.simplefilter("ignore")
        v = scan_catalogue()[idx - 1]()
    return hashlib.sha1(np.ascontiguousarray(v).tobytes()).hexdigest()


def job_scan_baseline(idx):
    return run_scan_entry(idx)


def scan(ctx, rng, quick):
    """every sequence of <= MaxCalls requests in ONE interpreter; each answer must be the fresh-process one"""
    import isolate
    from concurrent.futures import ThreadPoolExecutor
    gs = ctx.tlc_graph("LensRoutes", "LensRoutes_scan.cfg", constants={"MaxCalls": 2 if quick else 3})
    n = len(scan_catalogue())
    with ThreadPoolExecutor(n) as ex:
        base = [r[0] for r in ex.map(lambda i: isolate.run_jobs([("c08:job_scan_baseline", {"idx": i})]), range(1, n + 1))]
    fresh = {}
    for i, r in enumerate(base):
        if r is None or r["outcome"] != "returned":
            raise harness.MachineryError("fresh-process lens baseline %d failed: %r" % (i + 1, r))
        fresh[i + 1] = r["result"]
    seqs = sorted({tuple(gs.states[s]["log"]) for s in gs.states if len(gs.states[s]["log"]) >= 1})
    if not any(len(q) >= 2 for q in seqs):
        raise harness.MachineryError("scan graph has no sequence of two requests")
    for seq in seqs:
        ctx.case(("scan", seq), nontrivial=len(seq) >= 2)
        ok = True
        for c in seq:
            try:
                h = run_scan_entry(c)
            except Exception as e:
                ctx.violation("scan/exception", {"sequence": list(seq), "call": c, "exc": repr(e)[:200]})
                ok = False
                break
            if h != fresh[c]:
                ctx.violation("scan/result_depends_on_history", {"sequence": list(seq), "call": c,
                                                                 "note": "differs from the fresh-process answer"})
                ok = False
                break
        if ok:
            ctx.trace_ok()
    ctx.notes["scan_sequences"] = len(seqs)


def run(ctx):
    quick = ctx.tier == "quick"
    rng = random.Random(ctx.seed)
    ctx.rule = ("TLC enumerates 4 index x 5 size x 5 k z x 4 lens angle x 5 polarisation x 3 radial-range "
                "classes (6000) and 14 routes; the harness executes all routes on a seeded sample of classes "
                "(quick 36, thorough 400) covering every value of every factor; distinct = class; non-trivial "
                "= polarisation index not 0/6 or particle below focus or radial range beyond the cutoff")
    ctx.assumptions = ["numexpr is not installed: the 'with acceleration' clause cannot be exercised",
                       "reference route: MieLens with direct evaluation of the radial integrals"]
    ctx.uncovered("optional acceleration library (numexpr) absent: 'with or without acceleration' clause")
    ctx.tlc("LensRoutes", "LensRoutes.cfg", workers=16)            # classes x routes, law checked
    g = ctx.tlc_graph("LensRoutes", "LensRoutes_classes.cfg", workers=8)
    classes = [g.states[s]["cls"] for s in g.init]
    classes.sort(key=lambda c: str(sorted(c.items())))
    rng.shuffle(classes)
    n = 20 if quick else 400
    chosen, seen = [], set()
    for c in classes:                   # cover every value of every factor first
        vals = {(k, v) for k, v in c.items()}
        if not vals <= seen:
            chosen.append(c)
            seen |= vals
    chosen += classes[:max(0, n - len(chosen))]
    traces = []
    worst = {}
    for c in chosen:
        m, x, kz, ang = MV[c["m"]], XV[c["x"]] * rng.uniform(0.9, 1.1), KZ[c["kz"]] * rng.uniform(0.9, 1.1), AV[c["angle"]]
        psi = c["pol"] * math.pi / 12
        pol = (math.cos(psi), math.sin(psi))
        r = x / K
        z = kz / K
        krho_max = {"inside": 60.0, "to_cutoff": 380.0, "beyond_cutoff": 520.0}[c["rho"]]
        # (not in increasing order: a call may list far points before near ones)
        krho = np.array([1.0, 0.13, 0.77, 0.0, 0.4]) * krho_max
        phis = np.array([0.3, 1.9, 3.1, 4.4, 5.9])
        # the detector plane is at height 0 or elsewhere; the particle keeps its distance from it (only distances
        # enter any of the routes)
        zdet = rng.choice([0.0, 0.0, 1.3, -0.9])
        det = detector_points(x=krho / K * np.cos(phis), y=krho / K * np.sin(phis), z=zdet)
        sc = Sphere(n=m * NMED, r=r, center=(0.0, 0.0, z + zdet))
        kw = dict(medium_index=NMED, illum_wavelen=WL, illum_polarization=pol)
        ctx.case(tuple(sorted(c.items())), nontrivial=c["pol"] not in (0, 6) or kz < 0 or c["rho"] != "inside")

        def field(theory):
            return calc_field(det, sc, theory=theory, **kw).values
        try:
            off = {"interpolate_integrals": False}
            # reference: the analytic theory with a refined radial quadrature (converged everywhere here)
            ref = field(MieLens(lens_angle=ang, calculator_accuracy_kwargs={"interpolate_integrals": False,
                                                                           "quad_npts": 400}))
            scale = float(np.max(np.abs(ref))) or 1.0
            inside = krho < 3.9 * 100          # beyond this the default theory returns 0 by design
            d_off = field(MieLens(lens_angle=ang, calculator_accuracy_kwargs=off))
            ev = {"event": "Routes", "cls": "/".join(str(c[k]) for k in ("m", "x", "kz", "angle", "pol", "rho")),
                  "angle": c["angle"], "rho": c["rho"]}
            ev["mb_default_vs_refined"] = quant.mb(rel(d_off[:, inside] if d_off.shape[1] == len(krho) else d_off[inside],
                                                       ref[:, inside] if ref.shape[1] == len(krho) else ref[inside], scale))
            ev["mb_check"] = quant.mb(rel(field(MieLens(lens_angle=ang)), d_off, scale))
            ev["mb_on"] = quant.mb(rel(field(MieLens(lens_angle=ang, calculator_accuracy_kwargs={
                "interpolate_integrals": True})), d_off, scale))
            ev["mb_window"] = quant.mb(rel(field(MieLens(lens_angle=ang, calculator_accuracy_kwargs={
                "interpolate_integrals": True, "interpolator_window_size": 17.0})), d_off, scale))
            ev["mb_degree"] = quant.mb(rel(field(MieLens(lens_angle=ang, calculator_accuracy_kwargs={
                "interpolate_integrals": True, "interpolator_degree": 40})), d_off, scale))
            ab = [rel(field(AberratedMieLens(spherical_aberration=0.0, lens_angle=ang,
                                             calculator_accuracy_kwargs=off)), d_off, scale),
                  # the documented order of the positional arguments: aberration first, then the lens angle
                  rel(field(AberratedMieLens(0.0, ang, off)), d_off, scale)]
            for k in range(1, 5):
                ab.append(rel(field(AberratedMieLens(spherical_aberration=[0.0] * k, lens_angle=ang,
                                                     calculator_accuracy_kwargs=off)), d_off, scale))
            ev["mb_aberrated"] = quant.mb(max(ab))
            # zero aberration under NON-default accuracy options = MieLens under the same options (exact)
            so = []
            for opts_ in ({"interpolate_integrals": True, "interpolator_degree": 6, "interpolator_window_size": 60.0},
                          {"interpolate_integrals": False, "quad_npts": 300}):
                a_ = field(AberratedMieLens(spherical_aberration=[0.0, 0.0], lens_angle=ang, calculator_accuracy_kwargs=dict(opts_)))
                m_ = field(MieLens(lens_angle=ang, calculator_accuracy_kwargs=dict(opts_)))
                so.append(rel(a_, m_, scale))
            ev["mb_same_options"] = quant.mb(max(so))
            # numerical wrapper: quadrature ladder sized from the phase variation over the pupil
            nt0 = int(30 + 1.2 * abs(kz) * (1 - math.cos(ang)) + 0.6 * krho_max * math.sin(ang) + 1.5 * x)
            np0 = int(30 + 0.9 * krho_max * math.sin(ang) + 1.5 * x)
            ladder = [(nt0, np0), (int(1.5 * nt0), int(1.3 * np0) + 1), (2 * nt0, 2 * np0)]
            vals = [field(Lens(ang, Mie(False, False), a, b)) for a, b in ladder]
            # a theory object made by from_parameters (what a fit over the lens angle does) is the theory
            # the constructor makes for that angle
            ang0 = 0.7 * ang + 0.1
            fp_l = field(Lens(ang0, Mie(False, False), *ladder[0]).from_parameters({"lens_angle": ang}))
            fp_m = field(MieLens(lens_angle=ang0, calculator_accuracy_kwargs=off).from_parameters({"lens_angle": ang}))
            ev["mb_from_parameters"] = quant.mb(max(rel(fp_l, vals[0], scale), rel(fp_m, d_off, scale)))
            ev["mb_step1"] = quant.mb(rel(vals[1], vals[0], scale))
            ev["mb_step2"] = quant.mb(rel(vals[2], vals[1], scale))
            ev["mb_lens_last"] = quant.mb(rel(vals[2], ref, scale))
            ev["finite"] = bool(all(np.all(np.isfinite(v)) for v in vals + [ref, d_off]))
            ev["ladder"] = str(ladder)
        except Exception as e:
            ctx.violation("routes/exception", {"class": c, "exc": repr(e)[:300]})
            continue
        for k, v in ev.items():
            if k.startswith("mb_"):
                worst[k] = max(worst.get(k, -20000), v)
        traces.append([ev])
    scan(ctx, rng, quick)
    # the agreement of the two routes is per point: it cannot depend on how many points one call asks for
    import holopy as hp
    for shape in ((17, 17), (20, 13)) if quick else ((17, 17), (20, 13), (16, 16), (23, 29), (1, 300)):
        ctx.case(("many_points", shape), nontrivial=True)
        try:
            # the farthest point stays within ~3 um of the axis, where 60 x 60 nodes are converged (a 1 x 300
            # line at 0.11 um pitch reached k*rho = 420: beyond the analytic theory's cutoff and the quadrature)
            det = hp.detector_grid(shape, min(0.11, 3.0 / max(shape)))
            sc = Sphere(n=1.2 * NMED, r=5.0 / K, center=(0.9, 0.7, 60.0 / K))
            kw = dict(medium_index=NMED, illum_wavelen=WL, illum_polarization=(math.cos(0.4), math.sin(0.4)))
            a = calc_field(det, sc, theory=MieLens(lens_angle=0.6, calculator_accuracy_kwargs={"interpolate_integrals": False}), **kw).values
            b = calc_field(det, sc, theory=Lens(0.6, Mie(False, False), 60, 60), **kw).values
            d = rel(a, b, float(np.max(np.abs(a))))
        except Exception as e:
            ctx.violation("many_points/exception", {"shape": shape, "exc": repr(e)[:200]})
            continue
        ctx.notes.setdefault("many_points_defect", {})[str(shape)] = d
        if d > 1e-6:
            ctx.violation("many_points/numeric_equals_analytic", {"shape": shape, "points": shape[0] * shape[1], "defect": d})
        else:
            ctx.trace_ok()
    verdicts = tracemod.validate(ctx, "LensRoutesTrace", traces)
    for tr, (acc, line, clauses) in zip(traces, verdicts):
        if acc:
            ctx.trace_ok()
        else:
            for k in sorted(k for k, v in (clauses or {}).items() if v is False):
                ctx.violation("relation/%s/%s/%s" % (k, tr[0]["angle"], tr[0]["rho"]), {"event": tr[0]})
    ctx.notes["worst_mb"] = worst
    ctx.sample({"class": chosen[-1], "event": traces[-1][0] if traces else None})
    ctx.exhaustive = False


if __name__ == "__main__":
    sys.exit(harness.main(PID, run))
