"""X02 (extension, not one of the listed properties) — sequential inference helpers:
prior.updated keeps support and name and takes centre and width from the posterior summary;
generate_guess scales offsets from the guesses.  spec/PriorUpdate.tla, every path replayed."""
import math
import os
import random
import sys
import warnings

sys.path.insert(0, os.path.join(os.path.dirname(os.path.abspath(__file__)), "..", "lib"))
import boot  # noqa
import harness

import numpy as np

PID = "X02"

from holopy.core import prior
from holopy.core.prior import updated, generate_guess
from holopy.inference.result import UncertainValue


def make(kind, bounds, named, rng):
    lo = 1.0 if bounds in ("lower", "both") else -np.inf
    hi = 3.0 if bounds in ("upper", "both") else np.inf
    name = "par" if named else None
    if kind == "Uniform":
        return prior.Uniform(lo, hi, name=name)
    if kind == "Gaussian":
        return prior.Gaussian(2.0, 0.4, name=name)
    return prior.BoundedGaussian(2.0, 0.4, lo, hi, name=name)


def run(ctx):
    rng = random.Random(ctx.seed)
    ctx.rule = ("TLC enumerates prior kind x which bounds are finite x named, and every sequence of <= 3 updates by "
                "which of plus / minus / floor dominates; every path replayed on real priors; distinct = path")
    ctx.assumptions = ["posterior values are drawn inside the support"]
    g = ctx.tlc_graph("PriorUpdate", "PriorUpdate.cfg")
    nupd = 0

    def walk(sid, p, path):
        nonlocal nupd
        for e in g.out.get(sid, []):
            st = g.states[e[3]]
            d = e[2][0]
            centre = rng.uniform(1.5, 2.5)
            big, small = rng.uniform(0.2, 0.3), rng.uniform(0.05, 0.1)
            plus, minus, extra = {"plus": (big, small, small / 2), "minus": (small, big, 0), "floor": (small, small / 2, big),
                                  "tie": (big, big, big)}[d]
            v = UncertainValue(centre, plus, minus)
            desc = path + [d]
            ctx.case(("update", str(sorted(g.states[sid].items())), str(desc)), nontrivial=True)
            nupd += 1
            try:
                before = repr(p)
                q = updated(p, v, extra_uncertainty=extra)
            except Exception as ex:
                ctx.violation("updated/exception", {"path": desc, "prior": repr(p), "exc": repr(ex)[:200]})
                continue
            bad = None
            if type(q).__name__ != st["kind"]:
                bad = ("kind", {"impl": type(q).__name__, "spec": st["kind"]})
            elif q.name != p.name:
                bad = ("name", {"impl": q.name, "was": p.name})
            elif (getattr(q, "lower_bound", -np.inf), getattr(q, "upper_bound", np.inf)) != \
                    (getattr(p, "lower_bound", -np.inf), getattr(p, "upper_bound", np.inf)):
                bad = ("support", {"impl": repr(q), "was": repr(p)})
            elif not (q.mu == centre and q.sd == max(plus, minus, extra) and q.guess == centre):
                bad = ("centre_or_width", {"impl": repr(q), "centre": centre, "width": max(plus, minus, extra)})
            elif repr(p) != before:
                bad = ("input_modified", {})
            elif not (np.isfinite(q.lnprob(centre)) and q.lnprob(centre) >= q.lnprob(centre + 0.4 * q.sd)):
                bad = ("density", {"impl": repr(q)})
            if bad:
                ctx.violation("updated/" + bad[0], dict(bad[1], path=desc))
            else:
                ctx.trace_ok()
                walk(e[3], q, desc)

    with warnings.catch_warnings():
        warnings.simplefilter("ignore")
        for sid in g.init:
            st = g.states[sid]
            walk(sid, make(st["kind"], st["bounds"], st["named"], rng), [])
        if nupd == 0:
            raise harness.MachineryError("no update was replayed")
        # generate_guess
        pars = [prior.Uniform(1.0, 3.0), prior.Gaussian(5.0, 0.5), prior.BoundedGaussian(0.5, 0.1, 0.0, 1.0),
                prior.Uniform(0.0, np.inf, guess=2.0)]
        guesses = np.array([p.guess for p in pars])
        for nguess in (1, 2, 7):
            for seed in (0, 3, 12345):
                ctx.case(("generate_guess", nguess, seed))
                try:
                    g1 = generate_guess(pars[:3], nguess, 1, seed)
                    g1b = generate_guess(pars[:3], nguess, 1, seed)
                    g0 = generate_guess(pars[:3], nguess, 0, seed)
                    gh = generate_guess(pars[:3], nguess, 0.25, seed)
                except Exception as ex:
                    ctx.violation("generate_guess/exception", {"nguess": nguess, "seed": seed, "exc": repr(ex)[:200]})
                    continue
                bad = None
                if g1.shape != (nguess, 3):
                    bad = ("shape", {"impl": list(g1.shape)})
                elif not np.array_equal(g1, g1b):
                    bad = ("not_reproducible", {})
                elif not np.array_equal(g0, np.tile(guesses[:3], (nguess, 1))):
                    bad = ("scaling_zero_is_not_the_guess", {"impl": g0.tolist()})
                elif not np.allclose(gh - guesses[:3], 0.25 * (g1 - guesses[:3]), rtol=0, atol=1e-14):
                    bad = ("offsets_not_proportional", {})
                elif not (np.all(g1[:, 0] >= 1.0) and np.all(g1[:, 0] <= 3.0) and np.all(g1[:, 2] >= 0) and np.all(g1[:, 2] <= 1)):
                    bad = ("outside_support", {"impl": g1.tolist()})
                if bad:
                    ctx.violation("generate_guess/" + bad[0], dict(bad[1], nguess=nguess, seed=seed))
                else:
                    ctx.trace_ok()
    ctx.notes["updates_replayed"] = nupd
    ctx.sample({"updates": nupd})
    ctx.exhaustive = True


if __name__ == "__main__":
    sys.exit(harness.main(PID, run))
