"""C10 — T-matrix scatterers: sphere limit, symmetry, never abort the interpreter.

spec/TmatrixProc.tla: (1) process-level model whose only forbidden outcome is "died"; every
enumerated call class runs in a child interpreter and the recorded outcomes are validated by
spec/TmatrixProcTrace.tla; (2) state-merging model of orientation representations (spin about
the own axis, axis reversal, negated beta, full turns) replayed edge by edge; plus the sphere
limit (fields, scattering matrix, inside the lens wrapper) and mirror symmetry as recorded
relations.
"""
import math
import os
import random
import sys

sys.path.insert(0, os.path.join(os.path.dirname(os.path.abspath(__file__)), "..", "lib"))
import boot  # noqa
import harness
import quant
import isolate
import trace as tracemod

import numpy as np

PID = "C10"

ANGLE = {1: -7.5, 2: -0.8, 3: 0.0, 4: 0.6, 5: math.pi / 2, 6: 2.2, 7: math.pi, 8: 4.0, 9: 7.0}
SIZE_X = {"tiny": 0.1, "small": 2.0, "medium": 8.0, "large": 40.0, "beyond_solver_limit": 150.0, "astronomical": 3e9}
WL, NMED = 0.66, 1.33
K = 2 * math.pi * NMED / WL


def angle_of(code):
    """angle representation codes of the orientation model -> radians (beta, gamma)"""
    return code


def make_scatterer(shape, size, absorbing, rot):
    from holopy.scattering import Sphere, Spheroid, Cylinder
    n = 1.59 + (0.05j if absorbing else 0)
    req = SIZE_X[size] / K           # equivalent-volume radius
    c = (0.0, 0.0, 0.0)
    if shape == "sphere":
        return Sphere(n=n, r=req, center=c)
    if shape.startswith("spheroid"):
        ratio = {"spheroid_oblate": 0.3, "spheroid_prolate": 3.0, "spheroid_equal": 1.0}[shape]  # rz / rxy
        rxy = req / ratio ** (1 / 3.0)
        return Spheroid(n=n, r=(rxy, rxy * ratio), rotation=rot, center=c)
    ratio = {"cylinder_flat": 0.5, "cylinder_long": 2.0}[shape]     # h / d
    d = (req ** 3 * 16 / (12 * ratio)) ** (1 / 3.0)                  # volume pi d^2 h / 4 = 4/3 pi req^3
    return Cylinder(n=n, d=d, h=d * ratio, rotation=rot, center=c)


def job_call(shape, size, absorbing, rot):
    """executed in the child: one public calculation; returns 'finite' / 'nonfinite'"""
    import holopy as hp
    from holopy.scattering import calc_holo, calc_scat_matrix, Tmatrix
    from holopy.core.metadata import detector_points
    sc = make_scatterer(shape, size, absorbing, tuple(rot))
    from holopy.scattering.theory import Lens
    d = detector_points(theta=np.array([0.1, 0.7, 1.0]), phi=np.array([0.3, 2.0, 5.0]), r=300.0)
    det = hp.detector_grid(4, 0.3)
    sc2 = sc.translated(0.6, 0.6, 8.0)
    okw = dict(medium_index=NMED, illum_wavelen=WL)
    # every public route on its own: a route may raise, none may hand back non-finite numbers
    routes = [lambda: calc_scat_matrix(d, sc, theory=Tmatrix(), **okw).values,
              lambda: calc_holo(det, sc2, illum_polarization=(1, 0), theory=Tmatrix(), **okw).values,
              lambda: calc_holo(hp.detector_grid(2, 0.4), sc2, illum_polarization=(1, 0),
                                theory=Lens(0.6, Tmatrix(), 6, 6), **okw).values]
    raised, last = 0, None
    for k, route in enumerate(routes):
        try:
            v = route()
        except Exception as e:          # a Python exception is an allowed answer
            raised += 1
            last = e
            continue
        if not np.all(np.isfinite(v)):
            return "nonfinite"
    if raised == len(routes):
        raise last
    return "finite" if raised == 0 else "finite_or_raised"


def rel(a, b):
    return quant.reldiff(np.asarray(a), np.asarray(b))


def run(ctx):
    quick = ctx.tier == "quick"
    rng = random.Random(ctx.seed)
    import holopy as hp
    from holopy.scattering import (Sphere, Spheroid, Cylinder, calc_holo, calc_field,
                                   calc_scat_matrix, Mie, Tmatrix)
    from holopy.scattering.theory import Lens
    from holopy.core.metadata import detector_points
    ctx.rule = ("TLC enumerates shape x size class x absorbing x 3x9x9 Euler-angle classes (negative, "
                "zero, quadrant, multiples of pi/2, beyond 2 pi); a covering sample (quick) or all small "
                "plus a sample of large (thorough) runs in child interpreters; orientation identities "
                "are replayed along every edge of the orientation model; distinct = call class or edge; "
                "non-trivial = some angle outside [0, pi] / [0, 2 pi] or size beyond the solver limit")
    ctx.assumptions = ["'died' = child exits without printing the sentinel of the running job",
                       "far-field comparisons at kr >= 3000"]
    traces = []
    # ---------------- (1) never kills the interpreter ------------------------------------------
    g = ctx.tlc_graph("TmatrixProc", "TmatrixProc_proc.cfg", workers=16, heap="8g", timeout=1800)
    cfgs = {}
    for sid in g.init:
        c = g.states[sid]["cfg"]
        cfgs[tuple(sorted(c.items()))] = c
    allc = list(cfgs.values())
    # covering sample: every (b, g) pair with a rotating choice of the rest
    chosen = []
    if quick:
        pool = [c for c in allc]
        rng.shuffle(pool)
        seen = set()
        for c in pool:
            k1 = (c["b"], c["g"])
            k2 = (c["shape"], c["size"], c["absorbing"])
            if k1 not in seen or k2 not in seen:
                chosen.append(c)
                seen.add(k1)
                seen.add(k2)
        chosen = chosen[:160]
    else:
        chosen = [c for c in allc if c["size"] in ("tiny", "small")][::3] + \
                 rng.sample([c for c in allc if c["size"] not in ("tiny", "small")], 900)
    jobs = [("c10:job_call", {"shape": c["shape"], "size": c["size"], "absorbing": c["absorbing"],
                              "rot": [ANGLE[c["a"]], ANGLE[c["b"]], ANGLE[c["g"]]]}) for c in chosen]
    # run in parallel batches
    from concurrent.futures import ThreadPoolExecutor
    nb = 14
    batches = [jobs[i::nb] for i in range(nb)]
    with ThreadPoolExecutor(nb) as ex:
        res_b = list(ex.map(lambda b: isolate.run_jobs(b, timeout_per_batch=3000), batches))
    results = [None] * len(jobs)
    for bi, rb in enumerate(res_b):
        for k, r in enumerate(rb):
            results[bi + k * nb] = r
    for c, r in zip(chosen, results):
        must = c["size"] in ("tiny", "small", "medium")
        if r is None:
            raise harness.MachineryError("child produced no record for %r" % (c,))
        if r["outcome"] == "returned":
            outcome = {"finite": "finite", "finite_or_raised": "exception"}.get(r["result"], "nonfinite")
        elif r["outcome"] == "exception":
            outcome = "exception"
        else:
            outcome = r["outcome"]          # died / timeout
        if outcome == "timeout":
            raise harness.MachineryError("child timed out on %r" % (c,))
        ctx.case(("call", tuple(sorted(c.items()))),
                 nontrivial=c["b"] not in (3, 4, 5, 6, 7) or c["g"] in (1, 2, 9) or c["size"] in ("beyond_solver_limit", "astronomical"))
        traces.append([{"event": "Call", "shape": c["shape"], "size": c["size"], "absorbing": bool(c["absorbing"]),
                        "a": c["a"], "b": c["b"], "g": c["g"], "outcome": outcome,
                        "must_be_finite": bool(must), "detail": str(r.get("exc", r.get("exit_status", "")))[:120]}])
    ctx.sample({"call_class": chosen[0], "angles_rad": [ANGLE[chosen[0][k]] for k in "abg"],
                "observed": traces[0][0]["outcome"]})

    ndied = sum(1 for tr in traces if tr[0]["outcome"] == "died")
    if ndied:
        # the in-process sections below would take the harness down with them
        ctx.notes["skipped_in_process_sections"] = "%d call classes killed their interpreter" % ndied
        verdicts = tracemod.validate(ctx, "TmatrixProcTrace", traces)
        for tr, (acc, line, clauses) in zip(traces, verdicts):
            if acc:
                ctx.trace_ok()
            else:
                ev = tr[line - 1]
                bad = [k for k, v in (clauses or {}).items() if v is False]
                ctx.violation("call/%s/%s" % (",".join(bad), ev["size"] if "finite_where_required" in bad
                                              else "beta_class_%d" % ev["b"]), {"event": ev})
        return
    # ---------------- (2) orientation identities (state merging) ----------------------------------
    go = ctx.tlc_graph("TmatrixProc", "TmatrixProc_orient.cfg", constants={"MaxSteps": 2 if quick else 3})
    det = hp.detector_grid(6, 0.35)
    # generic azimuths and the exact ones a pixel row or column through the particle produces
    dpts = detector_points(theta=np.array([0.15, 0.5, 0.9, 1.1, 0.8, 0.3, 0.6, 0.7, 1.0]),
                           phi=np.array([0.4, 1.9, 3.3, 5.6, math.pi, math.pi, 0.0, math.pi / 2, 3 * math.pi / 2]), r=500.0)
    kw = dict(medium_index=NMED, illum_wavelen=WL, illum_polarization=(1, 0), theory=Tmatrix())

    def rot_of(c):
        a = ANGLE[c["a"]]
        def dec(code, which):
            base = ANGLE[code % 100]
            rep = code // 100
            if which == "b":
                return {0: base, 1: math.pi - base, 2: -base, 3: base + 2 * math.pi}[rep]
            return {0: base, 1: base + math.pi, 2: base + math.pi, 3: base - 2 * math.pi}[rep]
        return (a, dec(c["b"], "b"), dec(c["g"], "g"))

    def observe(c):
        sc = make_scatterer(c["shape"], c["size"], c["absorbing"], rot_of(c)).translated(1.0, 1.1, 9.0)
        h = calc_holo(det, sc, **kw).values
        s = calc_scat_matrix(dpts, make_scatterer(c["shape"], c["size"], c["absorbing"], rot_of(c)),
                             medium_index=NMED, illum_wavelen=WL, theory=Tmatrix()).values
        return h, s

    canon = {}
    for init in go.init:
        c0 = go.states[init]["cfg"]
        try:
            canon[init] = observe(c0)
        except Exception as e:
            ctx.violation("orient/exception", {"cfg": c0, "exc": repr(e)})
            continue
        stack = [(init, init)]
        seen_e = set()
        while stack:
            sid, root = stack.pop()
            for e in go.out.get(sid, []):
                if (e[0], e[1], e[2], e[3]) in seen_e:
                    continue
                seen_e.add((e[0], e[1], e[2], e[3]))
                c = go.states[e[3]]["cfg"]
                ctx.case(("orient", tuple(sorted(c0.items())), e[1], str(e[2]), tuple(sorted(c.items()))))
                try:
                    h, s = observe(c)
                    d = max(rel(h, canon[root][0]), rel(s, canon[root][1]))
                except Exception as ex:
                    ctx.violation("orient/%s/exception" % e[1], {"cfg": c, "rot": rot_of(c), "exc": repr(ex)})
                    continue
                traces.append([{"event": "Relation", "name": "orient/" + e[1], "mb": quant.mb(d),
                                "tol_mb": quant.tol("Tol_tm_identity"), "rot": [round(x, 4) for x in rot_of(c)]}])
                stack.append((e[3], root))
    ctx.sample({"orientation_edge": [e[1], str(e[2])], "rotation_rad": rot_of(c)})

    # ---------------- whole-number angles (radians written as integers): the number type is not part of the angle
    from holopy.scattering import Spheroid as _Spheroid, Cylinder as _Cylinder
    d_int = detector_points(theta=np.array([0.2, 0.7, 1.0]), phi=np.array([0.3, 2.0, 4.4]), r=3000.0 / K)
    for rot_i in ((0, 1, 7), (0, -2, 3), (3, 5, -4), (0, 2, 1), (np.int64(1), np.int64(4), np.int64(9))):
        for mk_ in (lambda rot: _Spheroid(n=1.59, r=(0.3, 0.5), rotation=rot, center=(0, 0, 0)),
                    lambda rot: _Cylinder(n=1.59, d=0.5, h=0.8, rotation=rot, center=(0, 0, 0))):
            ctx.case(("integer_angles", tuple(int(v) for v in rot_i), mk_(rot_i).__class__.__name__), nontrivial=True)
            try:
                s_i = calc_scat_matrix(d_int, mk_(tuple(rot_i)), theory=Tmatrix(), medium_index=NMED, illum_wavelen=WL).values
                s_f = calc_scat_matrix(d_int, mk_(tuple(float(v) for v in rot_i)), theory=Tmatrix(), medium_index=NMED, illum_wavelen=WL).values
            except Exception as e:
                ctx.violation("relation/integer_angles/exception", {"rotation": [int(v) for v in rot_i], "exc": repr(e)[:200]})
                continue
            dd = float(np.max(np.abs(s_i - s_f))) / float(np.max(np.abs(s_f)))
            if not dd <= 1e-9:
                ctx.violation("relation/integer_angles", {"rotation": [int(v) for v in rot_i], "defect": dd})
            else:
                ctx.trace_ok()
    # ---------------- (3) sphere limit and mirror symmetry -----------------------------------------
    n_sph = 6 if quick else 40
    for t in range(n_sph):
        x = [0.1, 1.0, 5.0, 12.0, 20.0][t % 5] * rng.uniform(0.8, 1.2)
        n = rng.choice([1.4, 1.59, 1.7 + 0.02j, 2.0])
        r = x / K
        th = np.array([rng.uniform(0.01, 1.0) for _ in range(6)])
        # azimuths as a user may write them: a scan over (-pi, pi], or beyond a full turn
        ph = np.array([rng.uniform(0, 2 * math.pi) for _ in range(4)] + [rng.uniform(-math.pi, 0), rng.uniform(2 * math.pi, 3 * math.pi)])
        d = detector_points(theta=th, phi=ph, r=3000.0 / K)
        sph = Sphere(n=n, r=r, center=(0, 0, 0))
        okw = dict(medium_index=NMED, illum_wavelen=WL)
        ctx.case(("sphere_limit", t))
        try:
            f_t = calc_field(d, sph, illum_polarization=(1, 0), theory=Tmatrix(), **okw).values
            f_m = calc_field(d, sph, illum_polarization=(1, 0), theory=Mie(False, False), **okw).values
            s_t = calc_scat_matrix(d, sph, theory=Tmatrix(), **okw).values
            s_m = calc_scat_matrix(d, sph, theory=Mie(), **okw).values
            eq = Spheroid(n=n, r=(r, r), rotation=(0.3, 0.7, 1.9), center=(0, 0, 0))
            f_e = calc_field(d, eq, illum_polarization=(1, 0), theory=Tmatrix(), **okw).values
            eq_rev = Spheroid(n=n, r=(r, r), rotation=(0.3, math.pi, 1.9), center=(0, 0, 0))   # axis against the beam
            f_r = calc_field(d, eq_rev, illum_polarization=(1, 0), theory=Tmatrix(), **okw).values
            evs = [("equal_axes_spheroid_reversed_vs_sphere", rel(f_r, f_t), "Tol_tm_sphere"),
                   ("sphere_field_vs_mie", rel(f_t, f_m), "Tol_tm_sphere"),
                   ("sphere_smatrix_vs_mie", rel(s_t, s_m), "Tol_tm_sphere"),
                   ("equal_axes_spheroid_vs_sphere", rel(f_e, f_t), "Tol_tm_sphere")]
            if t % 3 == 0:
                dg = hp.detector_grid(5, 0.4)
                sp2 = Sphere(n=n, r=r, center=(0.9, 1.1, 4.0))
                l_t = calc_field(dg, sp2, illum_polarization=(1, 0), theory=Lens(0.8, Tmatrix(), 40, 40), **okw).values
                l_m = calc_field(dg, sp2, illum_polarization=(1, 0), theory=Lens(0.8, Mie(False, False), 40, 40), **okw).values
                evs.append(("sphere_in_lens", rel(l_t, l_m), "Tol_tm_sphere"))
            # call history: the very next call differs in exactly one argument (absorption, then
            # real index, then wavelength); each must still match Mie (no stale solver state)
            for what, sph2, okw2 in (
                    ("only_Im_n_changed", Sphere(n=complex(n) + 0.1j, r=r, center=(0, 0, 0)), okw),
                    ("only_Re_n_changed", Sphere(n=complex(n) + 0.1j + 0.07, r=r, center=(0, 0, 0)), okw),
                    ("only_wavelength_changed", Sphere(n=complex(n) + 0.1j + 0.07, r=r, center=(0, 0, 0)),
                     dict(medium_index=NMED, illum_wavelen=WL * 1.13))):
                d2 = detector_points(theta=th, phi=ph, r=3000.0 / K)
                a_t = calc_field(d2, sph2, illum_polarization=(1, 0), theory=Tmatrix(), **okw2).values
                a_m = calc_field(d2, sph2, illum_polarization=(1, 0), theory=Mie(False, False), **okw2).values
                evs.append(("history/" + what, rel(a_t, a_m), "Tol_tm_sphere"))
            for name, dd, tol in evs:
                traces.append([{"event": "Relation", "name": name, "mb": quant.mb(dd), "tol_mb": quant.tol(tol),
                                "x": round(x, 3), "n": str(n)}])
        except Exception as e:
            ctx.violation("sphere_limit/exception", {"x": x, "n": str(n), "exc": repr(e)})
    # mirror in the x-z plane (contains the optical axis and the x polarization)
    for t in range(4 if quick else 24):
        shape = ["spheroid_prolate", "cylinder_flat", "spheroid_oblate", "cylinder_long"][t % 4]
        be, ga = rng.uniform(0.2, 1.3), rng.uniform(0.2, 6.0)
        dg = hp.detector_grid(7, 0.3)
        cy = float(dg.y.values[3])
        ctx.case(("mirror", t, shape))
        try:
            s1 = make_scatterer(shape, "small", False, (0.0, be, ga)).translated(0.8, cy, 7.0)
            s2 = make_scatterer(shape, "small", False, (0.0, be, -ga)).translated(0.8, cy, 7.0)
            h1 = calc_holo(dg, s1, **kw).transpose("x", "y", "z").values
            h2 = calc_holo(dg, s2, **kw).transpose("x", "y", "z").values
            traces.append([{"event": "Relation", "name": "mirror_y", "mb": quant.mb(rel(h2, h1[:, ::-1])),
                            "tol_mb": quant.tol("Tol_tm_symmetry"), "shape": shape}])
        except Exception as e:
            ctx.violation("mirror/exception", {"shape": shape, "exc": repr(e)})
    verdicts = tracemod.validate(ctx, "TmatrixProcTrace", traces)
    for tr, (acc, line, clauses) in zip(traces, verdicts):
        if acc:
            ctx.trace_ok()
        else:
            ev = tr[line - 1]
            bad = [k for k, v in (clauses or {}).items() if v is False]
            if ev["event"] == "Call":
                key = "call/%s/%s" % (",".join(bad), ev["size"] if "finite_where_required" in bad else
                                      "beta_class_%d" % ev["b"])
            else:
                key = "relation/%s" % ev["name"]
            ctx.violation(key, {"event": ev})
    ctx.exhaustive = False


if __name__ == "__main__":
    sys.exit(harness.main(PID, run))
