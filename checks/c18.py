"""C18 — image-processing tools satisfy their defining identities.

spec/ImgProc.tla gives exact rational semantics for normalize / zero_filter / bg_correct /
subimage / detrend / Accumulator on small integer images; TLC enumerates every image within
the bounds, checks the algebraic laws on the model, and the dumped states (and, for the
accumulator and detrend, the labelled edges) are replayed into the real functions.
spec/ImgProcTrace.tla validates recorded observations on larger seeded inputs and of the
centre finder on computed single-sphere holograms (code -> spec).
"""
import os
import random
import sys
from fractions import Fraction

sys.path.insert(0, os.path.join(os.path.dirname(os.path.abspath(__file__)), "..", "lib"))
import boot  # noqa
import harness
import quant
import fp
import tlc as tlcmod
import trace as tracemod
from graph import Graph

import numpy as np

PID = "C18"

import holopy as hp
from holopy.core.metadata import data_grid
from holopy.core.errors import BadImage
from holopy.core.process import normalize, zero_filter, bg_correct, subimage, detrend, center_find
from holopy.core.io.io import Accumulator

META = dict(medium_index=1.33, illum_wavelen=0.66, illum_polarization=(1, 0), noise_sd=0.05)


def mk(arr, spacing=(0.1, 0.25), name="img", dtype=float, **kw):
    m = dict(META)
    m.update(kw)
    return data_grid(np.asarray(arr, dtype=dtype), spacing=spacing, name=name, **m)


def img_from_spec(f, nx, ny):
    a = np.zeros((nx, ny))
    for (i, j), v in f.items():
        a[i - 1, j - 1] = v
    return a


def rat(x):
    return Fraction(x[0], x[1])


def meta_kept(old, new):
    """attrs, name and (for same-shape results) coordinates preserved"""
    try:
        if new.name != old.name:
            return False
        for k in ("medium_index", "illum_wavelen", "noise_sd"):
            if getattr(new, k, None) != getattr(old, k, None):
                return False
        if not np.array_equal(np.asarray(new.illum_polarization), np.asarray(old.illum_polarization)):
            return False
        if new.shape == old.shape:
            if not (np.array_equal(new.x.values, old.x.values) and
                    np.array_equal(new.y.values, old.y.values)):
                return False
        return True
    except Exception:
        return False


def vals2d(im):
    im = im.transpose(*[d for d in ("z", "x", "y") if d in im.dims],
                      *[d for d in im.dims if d not in ("z", "x", "y")])
    v = im.values
    return v[0] if v.ndim == 3 else v


def compare_cells(out_spec, got, nx, ny):
    """max relative defect over constrained cells"""
    worst = 0.0
    for (i, j), r in out_spec.items():
        if len(r) != 2:
            continue
        e = float(rat(r))
        g = got[i - 1, j - 1]
        if not np.isfinite(g):
            return float("inf")
        worst = max(worst, abs(g - e) / max(1.0, abs(e)))
    return worst


def load_states(ctx, mode, consts, dump=True, workers=16):
    r = ctx.tlc("ImgProc", "ImgProc_%s.cfg" % mode, constants=consts, workers=workers, dump=dump,
                timeout=3000, heap="16g")
    g = Graph.load(r.dump)
    tlcmod.cleanup(r)
    return g


def run(ctx):
    quick = ctx.tier == "quick"
    rng = random.Random(ctx.seed)
    nprng = np.random.default_rng(ctx.seed)
    tol = quant.from_mb(quant.tol("Tol_exact_float"))
    ctx.rule = ("TLC enumerates every small integer image (and every accumulator push order, "
                "plane, crop window) within the bounds; each state's exact rational result is "
                "compared with the real function; distinct = (tool, input); non-trivial = input "
                "not constant / contains a zero / multiset of >= 2 pushes")
    ctx.assumptions = ["float results compared with exact rationals at 1e-12 relative",
                       "subimage window position is bound from the result's coordinates"]

    # ---------------- normalize ----------------------------------------------------
    nshape = (2, 2) if quick else (3, 3)
    g = load_states(ctx, "normalize", {"NX": nshape[0], "NY": nshape[1]})
    for st in g.states.values():
        a = img_from_spec(st["img"], *nshape)
        im = mk(a)
        before = im.copy(deep=True)
        res = normalize(im)
        d = compare_cells(st["out"], vals2d(res), *nshape)
        ctx.case(("normalize", a.tobytes()), nontrivial=len(set(a.ravel())) > 1)
        # the same image in other units (picowatts ... gigacounts): the specification's answer does not change
        for unit in (1e-12, 1e-6, 1e9):
            d = max(d, compare_cells(st["out"], vals2d(normalize(mk(a * unit))), *nshape))
        bad = d > tol or not meta_kept(im, res) or not fp.same(im, before)
        # idempotence and scale invariance on the real function
        d2 = quant.reldiff(vals2d(normalize(res)), vals2d(res))
        d3 = quant.reldiff(vals2d(normalize(mk(a * 7.5))), vals2d(res))
        d4 = abs(float(res.mean()) - 1.0)
        if bad or max(d2, d3, d4) > tol:
            ctx.violation("normalize", {"img": a.tolist(), "defect": d, "idem": d2, "scale": d3,
                                        "mean-1": d4, "meta_kept": meta_kept(im, res)})
        else:
            ctx.trace_ok()
    ctx.sample({"tool": "normalize", "img": a.tolist(),
                "spec_out": {str(k): list(v) for k, v in list(st["out"].items())[:3]}})

    # ---------------- zero_filter ----------------------------------------------------
    zcfgs = ([((3, 3), "{0, 1}", None), ((3, 3), "{0, 1, 2}", 1200)] if quick
             # thorough: every zero pattern of a 3x4 image, every 3-valued 3x3 and 4-valued 2x3 image
             # (larger families made the dump of the state graph the bottleneck: hours)
             else [((3, 3), "{0, 1, 2}", None), ((3, 4), "{0, 1}", None), ((2, 3), "{0, 1, 2, 3}", None)])
    for zshape, vals, nsample in zcfgs:
        g = load_states(ctx, "zero", {"NX": zshape[0], "NY": zshape[1], "Vals": vals})
        zstates = list(g.states.values())
        if nsample is not None and len(zstates) > nsample:
            zstates = rng.sample(zstates, nsample)   # quick tier: seeded sample of the dump
        for nz_, st in enumerate(zstates):
            a = img_from_spec(st["img"], *zshape)
            # raw camera frames are integers: every third image is replayed as uint8 / int64 data
            dt_ = [float, np.uint8, float, float, np.int64, float][nz_ % 6]
            im = mk(a, dtype=dt_)
            before = im.copy(deep=True)
            ctx.case(("zero", zshape, a.tobytes(), np.dtype(dt_).name), nontrivial=(a == 0).any())
            try:
                res = zero_filter(im)
                outcome = "accept"
            except BadImage:
                outcome = "refuse"
            except Exception as e:
                ctx.violation("zero_filter/exception", {"img": a.tolist(), "exc": repr(e)})
                continue
            want = st["ok"]
            if want != "any" and outcome != want:
                ctx.violation("zero_filter/%s" % ("dead_corner_accepted" if want == "refuse"
                                                  else "refused_without_dead_corner"),
                              {"img": a.tolist(), "spec": want, "impl": outcome})
                continue
            if outcome == "accept":
                d = compare_cells(st["out"], vals2d(res), *zshape)
                if d > tol or not meta_kept(im, res) or not fp.same(im, before):
                    ctx.violation("zero_filter/value", {"img": a.tolist(), "defect": d,
                                                        "got": vals2d(res).tolist(),
                                                        "meta_kept": meta_kept(im, res)})
                    continue
            ctx.trace_ok()
    ctx.sample({"tool": "zero_filter", "img": a.tolist(), "spec_ok": st["ok"]})

    # ---------------- bg_correct ---------------------------------------------------------
    g = load_states(ctx, "bg", {"NX": 2, "NY": 2, "Vals": "{1, 2}" if quick else "{1, 2, 3}"})
    for st in g.states.values():
        raw = img_from_spec(st["img"], 2, 2)
        bg = img_from_spec(st["aux"][0], 2, 2)
        dk = img_from_spec(st["aux"][1], 2, 2)
        ctx.case(("bg", raw.tobytes(), bg.tobytes(), dk.tobytes()),
                 nontrivial=not np.array_equal(raw, bg))
        if ((bg - dk) <= 0).any():
            ctx.trace_ok()
            continue   # zero denominators are interpolated first (zero_filter clause)
        r_im, b_im, d_im = mk(raw), mk(bg, name="bg", noise_sd=0.01), mk(dk, name="dark", noise_sd=0.2)
        keep = [x.copy(deep=True) for x in (r_im, b_im, d_im)]
        try:
            res = bg_correct(r_im, b_im, d_im) if dk.any() else (
                bg_correct(r_im, b_im) if rng.random() < 0.5 else bg_correct(r_im, b_im, d_im))
        except Exception as e:
            ctx.violation("bg_correct/exception", {"raw": raw.tolist(), "exc": repr(e)})
            continue
        d = compare_cells(st["out"], vals2d(res), 2, 2)
        untouched = all(fp.same(a, b) for a, b in zip((r_im, b_im, d_im), keep))
        if d > tol or not meta_kept(r_im, res) or not untouched:
            ctx.violation("bg_correct", {"raw": raw.tolist(), "bg": bg.tolist(),
                                         "dark": dk.tolist(), "defect": d,
                                         "got": vals2d(res).tolist(), "untouched": untouched})
        else:
            ctx.trace_ok()
    ctx.sample({"tool": "bg_correct", "raw": raw.tolist(), "bg": bg.tolist(), "dark": dk.tolist()})
    # a dead pixel of the denominator (background = dark there, both alive): (raw - dark) / (background - dark) with
    # that one denominator replaced by the mean of its neighbours (four inside, two along an edge)
    for shape_, dead in (((3, 3), (1, 1)), ((4, 3), (2, 1)), ((3, 4), (0, 2)), ((4, 4), (3, 1)), ((5, 4), (2, 2))):
        for hot in (0.0, 7.0):
            nprng_ = np.random.default_rng(rng.randrange(2 ** 31))
            raw = nprng_.uniform(5, 9, size=shape_)
            dk = nprng_.uniform(0.5, 1.5, size=shape_)
            bg = dk + nprng_.uniform(3, 6, size=shape_)
            dk[dead] = hot
            bg[dead] = hot
            den = bg - dk
            i, j = dead
            nb = []
            if 0 < i < shape_[0] - 1 and 0 < j < shape_[1] - 1:
                nb = [den[i - 1, j], den[i + 1, j], den[i, j - 1], den[i, j + 1]]
            elif i in (0, shape_[0] - 1):
                nb = [den[i, j - 1], den[i, j + 1]]
            else:
                nb = [den[i - 1, j], den[i + 1, j]]
            den2 = den.copy()
            den2[dead] = sum(nb) / len(nb)
            want = (raw - dk) / den2
            ctx.case(("bg", "dead_denominator", shape_, dead, hot), nontrivial=True)
            try:
                got = vals2d(bg_correct(mk(raw), mk(bg, name="bg"), mk(dk, name="dark")))
            except Exception as e:
                ctx.violation("bg_correct/dead_denominator/exception", {"shape": shape_, "dead": dead, "exc": repr(e)[:200]})
                continue
            if got.shape != want.shape or not np.all(np.isfinite(got)) or float(np.max(np.abs(got - want))) > 1e-12:
                ctx.violation("bg_correct/dead_denominator", {"shape": shape_, "dead": dead, "hot_value": hot,
                                                              "got": got.tolist(), "want": want.tolist()})
            else:
                ctx.trace_ok()
    r_none = data_grid(np.array([[2.0, 4.0], [6.0, 8.0]]), spacing=0.1, medium_index=1.33,
                       illum_wavelen=0.66, illum_polarization=(1, 0), name="img")
    res = bg_correct(r_none, mk(np.full((2, 2), 2.0), spacing=0.1, noise_sd=0.01))
    ctx.case(("bg", "noise_fill_in"))
    if getattr(res, "noise_sd", None) != 0.01 or not np.array_equal(vals2d(res), [[1, 2], [3, 4]]):
        ctx.violation("bg_correct/noise_fill_in", {"noise_sd": repr(getattr(res, "noise_sd", None))})
    else:
        ctx.trace_ok()

    # ---------------- Accumulator: every push order -----------------------------------------
    pool = [np.array([[1.0, 4.0]]), np.array([[2.0, 0.0]]), np.array([[5.0, 3.0]])]
    g = load_states(ctx, "acc", {"MaxPush": 4 if quick else 6})
    # all paths (orders), not just an edge cover: every order must reach the state's values
    def walk(sid, order):
        yield sid, order
        for e in g.out.get(sid, []):
            if e[1] == "Push":
                yield from walk(e[3], order + [e[2][0]])
    norders = 0
    for sid, order in walk(g.init[0], []):
        if not order:
            acc = Accumulator()
            if acc.std() is not None:
                ctx.violation("accumulator/empty_std", {"std": repr(acc.std())})
            continue
        norders += 1
        st = g.states[sid]
        acc = Accumulator()
        ims = [mk(pool[k - 1], spacing=(1.0, 1.0)) for k in order]
        for im in ims:
            acc.push(im)
        ctx.case(("acc", tuple(order)), nontrivial=len(order) > 1)
        if acc.mean() is None or acc.std() is None:
            ctx.violation("accumulator/no_value_after_pushes", {"order": order, "mean_is_none": acc.mean() is None,
                                                                 "std_is_none": acc.std() is None})
            continue
        mean = vals2d(acc.mean()).ravel()
        std = vals2d(acc.std()).ravel()
        emean = np.array([float(rat(x)) for x in st["out"][0]])
        estd = np.sqrt(np.array([float(rat(x)) for x in st["out"][1]]))
        d = max(quant.reldiff(mean, emean), float(np.max(np.abs(std - estd))))
        if d > 1e-12 or not meta_kept(ims[0], acc.mean()):
            ctx.violation("accumulator", {"order": order, "mean": mean.tolist(),
                                          "spec_mean": emean.tolist(), "std": std.tolist(),
                                          "spec_std": estd.tolist()})
        else:
            ctx.trace_ok()
    # reading is a stuttering step of the model: query mean and std (twice) after every push of one
    # accumulator and compare with the state of that prefix
    by_order = {tuple(o): sid_ for sid_, o in walk(g.init[0], [])}
    longest = max(len(o) for o in by_order)
    for order in sorted(o for o in by_order if len(o) == longest):
        acc = Accumulator()
        ctx.case(("acc_interleaved_reads", order), nontrivial=True)
        bad = None
        for n_, k in enumerate(order):
            acc.push(mk(pool[k - 1], spacing=(1.0, 1.0)))
            st = g.states[by_order[order[:n_ + 1]]]
            emean = np.array([float(rat(x)) for x in st["out"][0]])
            estd = np.sqrt(np.array([float(rat(x)) for x in st["out"][1]]))
            for rep in range(2):
                if acc.std() is None or acc.mean() is None:
                    bad = {"order": list(order), "after_pushes": n_ + 1, "read": rep + 1, "none_returned": True}
                    break
                std = vals2d(acc.std()).ravel()
                mean = vals2d(acc.mean()).ravel()
                if quant.reldiff(mean, emean) > 1e-12 or float(np.max(np.abs(std - estd))) > 1e-12:
                    bad = {"order": list(order), "after_pushes": n_ + 1, "read": rep + 1, "std": std.tolist(),
                           "spec_std": estd.tolist(), "mean": mean.tolist(), "spec_mean": emean.tolist()}
                    break
            if bad:
                break
        if bad:
            ctx.violation("accumulator/read_changes_state", bad)
        else:
            ctx.trace_ok()
    ctx.sample({"tool": "Accumulator", "push_order": order, "spec_mean": emean.tolist(),
                "spec_std": estd.tolist()})
    ctx.notes["accumulator_orders"] = norders

    # ---------------- detrend: states merge under AddPlane -------------------------------------
    dshape = (2, 3) if quick else (3, 3)
    g = load_states(ctx, "detrend", {"NX": dshape[0], "NY": dshape[1]})
    dtol = quant.from_mb(quant.tol("Tol_detrend_abs"))
    xs, ys = np.meshgrid(np.arange(dshape[0]), np.arange(dshape[1]), indexing="ij")
    for e in g.edges:
        if e[1] != "AddPlane":
            continue
        st = g.states[e[0]]
        a, b, c = e[2]
        base = img_from_spec(st["img"], *dshape)
        im0 = mk(base)
        im1 = mk(base + a * xs + b * ys + c)
        r0, r1 = detrend(im0), detrend(im1)
        d = float(np.max(np.abs(vals2d(r0) - vals2d(r1))))
        dp = float(np.max(np.abs(vals2d(detrend(mk(1.0 * a * xs + b * ys + c))))))
        ctx.case(("detrend", base.tobytes(), a, b, c), nontrivial=base.any())
        if d > dtol or dp > dtol or not meta_kept(im1, r1):
            ctx.violation("detrend", {"img": base.tolist(), "plane": [a, b, c], "defect": d,
                                      "plane_alone": dp})
        else:
            ctx.trace_ok()
    ctx.sample({"tool": "detrend", "img": base.tolist(), "plane": [a, b, c]})

    # ---------------- subimage: all windows that fit --------------------------------------------
    cshape = (6, 7)
    g = load_states(ctx, "crop", {})
    for st in g.states.values():
        a = img_from_spec(st["img"], *cshape)
        (lox, loy), (sx, sy) = st["aux"]
        im = mk(a)
        # request: centre and shape (0-based centre of the window lo-1 .. lo-1+s)
        cx, cy = (lox - 1) + sx / 2.0, (loy - 1) + sy / 2.0
        ctx.case(("crop", lox, loy, sx, sy), nontrivial=(sx, sy) != cshape)
        try:
            res = subimage(im, (cx, cy), (sx, sy))
        except Exception as ex:
            ctx.violation("subimage/exception", {"lo": [lox, loy], "shape": [sx, sy], "exc": repr(ex)})
            continue
        v = vals2d(res)
        okk = v.shape == (sx, sy) and meta_kept(im, res)
        if okk:
            # every retained pixel keeps its value at its physical coordinates
            for i, xc in enumerate(res.x.values):
                for j, yc in enumerate(res.y.values):
                    src = im.sel(x=xc, y=yc, method="nearest")
                    if float(src.x) != xc or float(src.y) != yc or float(src.values.ravel()[0]) != v[i, j]:
                        okk = False
            # window within one pixel of the requested centre
            wx = (res.x.values[0] / 0.1 + res.x.values[-1] / 0.1 + 1) / 2.0
            wy = (res.y.values[0] / 0.25 + res.y.values[-1] / 0.25 + 1) / 2.0
            if abs(wx - cx) > 1.0 + 1e-9 or abs(wy - cy) > 1.0 + 1e-9:
                okk = False
        if not okk:
            ctx.violation("subimage", {"lo": [lox, loy], "shape": [sx, sy], "got_shape": list(v.shape),
                                       "x": res.x.values.tolist(), "y": res.y.values.tolist()})
        else:
            ctx.trace_ok()
    ctx.sample({"tool": "subimage", "window_lo": [lox, loy], "shape": [sx, sy]})

    # ---------------- code -> spec: larger seeded inputs and the centre finder -------------------
    traces = []
    nbig = 6 if quick else 40
    for t in range(nbig):
        evs = []
        shape = (int(nprng.integers(5, 40)), int(nprng.integers(5, 40)))
        a = nprng.integers(1, 1000, size=shape).astype(float)
        im = mk(a, spacing=(0.07, 0.11))
        keep = im.copy(deep=True)
        res = normalize(im)
        exact = a * a.size / a.sum()
        evs.append({"event": "Normalize", "mb": quant.mb(quant.reldiff(vals2d(res), exact)),
                    "meta_kept": bool(meta_kept(im, res)), "input_untouched": bool(fp.same(im, keep))})
        # an image with a further axis (two colour channels): one number normalises the whole of it
        from holopy.core.metadata import detector_grid as _dg
        two = _dg(shape, (0.07, 0.11), extra_dims={"illumination": ["red", "green"]})
        a2 = nprng.integers(1, 1000, size=two.shape).astype(float)
        two = two.copy()
        two.values[...] = a2
        keep2 = two.copy(deep=True)
        res2 = normalize(two)
        d2 = max(quant.reldiff(np.asarray(res2.transpose(*two.dims).values), a2 * a2.size / a2.sum()), abs(float(res2.mean()) - 1.0))
        evs.append({"event": "Normalize", "mb": quant.mb(d2), "meta_kept": True, "input_untouched": bool(fp.same(two, keep2))})
        bg = nprng.integers(1, 1000, size=shape).astype(float)
        dk = nprng.integers(0, 1, size=shape).astype(float)
        bim, dim = mk(bg, noise_sd=0.02, name="bg"), mk(dk, noise_sd=0.3, name="dark")
        im2 = mk(a)
        res = bg_correct(im2, bim, dim)
        evs.append({"event": "BgCorrect", "mb": quant.mb(quant.reldiff(vals2d(res), (a - dk) / (bg - dk))),
                    "meta_kept": bool(meta_kept(im2, res)), "input_untouched": bool(fp.same(im2, mk(a)))})
        z = a.copy()
        i, j = int(nprng.integers(1, shape[0] - 1)), int(nprng.integers(1, shape[1] - 1))
        z[i, j] = 0
        ez = z.copy()
        ez[i, j] = (z[i - 1, j] + z[i + 1, j] + z[i, j - 1] + z[i, j + 1]) / 4
        k = int(nprng.integers(1, shape[1] - 1))
        if abs(k - j) > 1 or i > 1:
            z[0, k] = 0
            ez[0, k] = (z[0, k - 1] + z[0, k + 1]) / 2
        zim = mk(z)
        res = zero_filter(zim)
        evs.append({"event": "ZeroFilter", "mb": quant.mb(quant.reldiff(vals2d(res), ez)),
                    "meta_kept": bool(meta_kept(zim, res)), "input_untouched": bool(fp.same(zim, mk(z)))})
        xs, ys = np.meshgrid(np.arange(shape[0]), np.arange(shape[1]), indexing="ij")
        pl = nprng.normal() * xs + nprng.normal() * ys + nprng.normal()
        an = a / 1000.0
        res0, res1 = detrend(mk(an)), detrend(mk(an + pl))
        evs.append({"event": "Detrend", "mb": quant.mb(float(np.max(np.abs(vals2d(res0) - vals2d(res1))))),
                    "meta_kept": bool(meta_kept(mk(an), res1)), "input_untouched": True})
        n = int(nprng.integers(2, 7))
        stack = [nprng.integers(0, 50, size=(3, 4)).astype(float) for _ in range(n)]
        perm = list(nprng.permutation(n))
        acc = Accumulator()
        for q in perm:
            acc.push(mk(stack[q]))
        dd = max(quant.reldiff(vals2d(acc.mean()), np.mean(stack, axis=0)),
                 quant.reldiff(vals2d(acc.std()), np.std(stack, axis=0)))
        evs.append({"event": "Accumulate", "mb": quant.mb(dd), "meta_kept": True,
                    "input_untouched": True})
        traces.append(evs)
        ctx.case(("big", t, shape))
    # centre finder on computed holograms
    from holopy.scattering import Sphere, calc_holo
    ncf = 8 if quick else 60
    for t in range(ncf):
        npx = int(nprng.integers(60, 161))
        npy = npx if t % 3 == 0 else int(nprng.integers(60, 161))   # square and non-square
        spacing = float(nprng.uniform(0.08, 0.12))
        fx, fy = nprng.uniform(0.2, 0.8, size=2)
        cx, cy = fx * (npx - 1) * spacing, fy * (npy - 1) * spacing
        r = float(nprng.uniform(0.3, 0.9))
        n = float(nprng.uniform(1.4, 1.7))
        zc = float(nprng.uniform(8, 25))
        det = hp.detector_grid((npx, npy), spacing)
        holo = calc_holo(det, Sphere(n=n, r=r, center=(cx, cy, zc)), medium_index=1.33,
                         illum_wavelen=0.66, illum_polarization=(1, 0))
        keep = holo.copy(deep=True)
        try:
            found = np.asarray(center_find(holo), dtype=float)
            ex = abs(found[0] - cx / spacing)
            ey = abs(found[1] - cy / spacing)
        except Exception as e:
            ctx.violation("center_find/exception", {"shape": [npx, npy], "exc": repr(e),
                                                    "centre_px": [cx / spacing, cy / spacing]})
            continue
        evs = [{"event": "CenterFind", "err_x_mpx": int(round(ex * 1000)),
                "err_y_mpx": int(round(ey * 1000)), "mb": 0, "meta_kept": True,
                "input_untouched": bool(fp.same(holo, keep)), "npx": npx, "npy": npy}]
        # make_center_priors centres x,y on the found centre (spacing and origin consistent)
        try:
            from holopy.inference import prior as hprior
            pri = hprior.make_center_priors(holo)
            gx, gy = pri[0].guess, pri[1].guess
            dd = max(abs(gx - found[0] * spacing - float(holo.x[0])),
                     abs(gy - found[1] * spacing - float(holo.y[0]))) / spacing
            evs.append({"event": "CenterPriors", "mb": quant.mb(dd), "meta_kept": True,
                        "input_untouched": bool(fp.same(holo, keep))})
        except Exception as e:
            ctx.violation("center_priors/exception", {"exc": repr(e)[:300], "npx": npx, "npy": npy})
        traces.append(evs)
        ctx.case(("center", t, npx, npy, round(fx, 3), round(fy, 3)))
    verdicts = tracemod.validate(ctx, "ImgProcTrace", traces)
    for tr, (acc_, line, clauses) in zip(traces, verdicts):
        if acc_:
            ctx.trace_ok()
        else:
            ev = tr[line - 1]
            bad = [k for k, v in (clauses or {}).items() if v is False]
            ctx.violation("trace/%s/%s" % (ev["event"], ",".join(bad)), {"event": ev, "line": line,
                                                                       "clauses": clauses})
    ctx.sample({"trace": traces[-1]})
    ctx.exhaustive = not quick


if __name__ == "__main__":
    sys.exit(harness.main(PID, run))
