"""X05 (extension, not one of the listed properties) — grid <-> flat layouts (flat / from_flat) and the
grid measures get_spacing / get_extents.  spec/Stacking.tla; every path executed; the image reached
must depend on (kind, layout) only."""
import os
import random
import sys
import warnings

sys.path.insert(0, os.path.join(os.path.dirname(os.path.abspath(__file__)), "..", "lib"))
import boot  # noqa
import harness
import fp

import numpy as np

PID = "X05"

from holopy.core.metadata import detector_grid, detector_points, flat, from_flat, get_spacing, get_extents, update_metadata


def make(kind, nprng):
    if kind == "points":
        d = detector_points(x=nprng.normal(size=5), y=nprng.normal(size=5), z=0.3)
    else:
        shape, sp, extra = {"grid_square": ((4, 4), 0.1, None), "grid_rect": ((3, 5), (0.1, 0.25), None),
                            "grid_line": ((1, 6), 0.2, None),
                            "grid_multichannel": ((3, 4), (0.15, 0.2), {"illumination": ["red", "green"]})}[kind]
        d = detector_grid(shape, sp, extra_dims=extra)
        d = d.assign_coords(x=d.x.values + 1.7, y=d.y.values - 0.4)
    d = d.copy()
    d.values[...] = nprng.normal(size=d.shape)
    return update_metadata(d, medium_index=1.33, illum_wavelen=0.66, illum_polarization=(1, 0), noise_sd=0.1)


def pixels(im):
    """multiset of (x, y, z, [channel], value)"""
    names = [n for n in ("x", "y", "z", "illumination") if n in im.coords]
    df = im.to_dataframe(name="v").reset_index()
    rows = [tuple(str(r[n]) if n == "illumination" else round(float(r[n]), 12) for n in names) + (float(r["v"]),)
            for _, r in df.iterrows()]
    return sorted(rows)


def run(ctx):
    nprng = np.random.default_rng(ctx.seed)
    ctx.rule = ("TLC enumerates 5 detector kinds and every sequence of <= 4 flat / from_flat steps; every path executed; "
                "distinct = (kind, path)")
    ctx.assumptions = ["pixel identity = coordinates + value"]
    g = ctx.tlc_graph("Stacking", "Stacking.cfg")
    n = 0
    canon = {}
    with warnings.catch_warnings():
        warnings.simplefilter("ignore")
        for sid in g.init:
            kind = g.states[sid]["kind"]
            base = make(kind, nprng)
            want = pixels(base)
            keep = fp.fingerprint(base)

            def walk(s, im, path):
                nonlocal n
                for e in g.out.get(s, []):
                    st = g.states[e[3]]
                    n += 1
                    desc = path + [e[1]]
                    ctx.case((kind, str(desc)), nontrivial=True)
                    try:
                        res = flat(im) if e[1] == "Flat" else from_flat(im)
                    except Exception as ex:
                        ctx.violation("%s/exception" % e[1].lower(), {"kind": kind, "path": desc, "exc": repr(ex)[:200]})
                        continue
                    bad = None
                    lay = "flat" if "flat" in res.dims else ("points" if "point" in res.dims else "grid")
                    if lay != st["layout"]:
                        bad = ("layout", {"impl": lay, "spec": st["layout"]})
                    elif pixels(res) != want:
                        bad = ("pixels_changed", {})
                    elif dict(res.attrs).keys() != dict(base.attrs).keys() or res.attrs.get("medium_index") != 1.33:
                        bad = ("metadata", {})
                    elif st["layout"] == g.states[s]["layout"] and res is not im:
                        bad = ("no_op_returns_new_object", {})
                    elif fp.fingerprint(base) != keep:
                        bad = ("input_modified", {})
                    elif st["layout"] == "grid" and tuple(res.dims) != tuple(base.dims):
                        # equal as labelled arrays (checked above); the axis order is not kept by the round trip
                        ctx.notes.setdefault("axis_order_after_round_trip", {})[kind] = [list(base.dims), list(res.dims)]
                    if bad:
                        ctx.violation("stacking/" + bad[0], dict(bad[1], kind=kind, path=desc))
                    else:
                        ctx.trace_ok()
                        if len(desc) < 4:
                            walk(e[3], res, desc)
            canon[(kind, g.states[sid]["layout"])] = fp.fingerprint(base)
            walk(sid, base, [])
            # measures
            if kind != "points":
                ctx.case((kind, "measures"))
                sp = get_spacing(base) if base.sizes["x"] > 1 and base.sizes["y"] > 1 else None
                ex = get_extents(base)
                okm = True
                for ax, i in (("x", 0), ("y", 1)):
                    nax = base.sizes[ax]
                    pitch = float(np.diff(base[ax].values).mean()) if nax > 1 else 0.0
                    if sp is not None and abs(sp[i] - pitch) > 1e-12:
                        okm = False
                    if abs(ex[ax] - (pitch * nax if nax > 1 else 0.0)) > 1e-12:
                        okm = False
                if not okm:
                    ctx.violation("measures", {"kind": kind, "spacing": None if sp is None else sp.tolist(), "extents": ex})
                else:
                    ctx.trace_ok()
            else:
                ctx.case((kind, "measures"))
                try:
                    get_extents(base)
                    ctx.violation("measures/points_have_extents", {})
                except ValueError:
                    ctx.trace_ok()
    if n == 0:
        raise harness.MachineryError("nothing replayed")
    ctx.notes["steps"] = n
    ctx.sample({"steps": n})
    ctx.exhaustive = True


if __name__ == "__main__":
    sys.exit(harness.main(PID, run))
