"""X06 (extension, not one of the listed properties) — holopy.core.utils.updated / dict_without as
non-modifying functions on finite maps.  spec/DictOps.tla; every edge executed."""
import copy
import os
import sys

sys.path.insert(0, os.path.join(os.path.dirname(os.path.abspath(__file__)), "..", "lib"))
import boot  # noqa
import harness

PID = "X06"

from holopy.core.utils import updated, dict_without


def to_py(m):
    """TLA function (dict from the parser) -> python dict; value 0 stands for None"""
    return {k: (None if v == 0 else v) for k, v in dict(m).items()}


def run(ctx):
    ctx.rule = ("TLC enumerates every map over 3 keys x 3 values (one standing for None) with <= 2 entries and every "
                "sequence of <= 2 update / remove steps; every edge executed; distinct = edge")
    ctx.assumptions = []
    g = ctx.tlc_graph("DictOps", "DictOps.cfg")
    counts = {"Update": 0, "Remove": 0}
    for e in g.edges:
        src, dst = to_py(g.states[e[0]]["d"]), to_py(g.states[e[3]]["d"])
        ctx.case((e[1], str(sorted(src.items(), key=str)), str(e[2])), nontrivial=True)
        counts[e[1]] += 1
        keep = copy.deepcopy(src)
        try:
            if e[1] == "Update":
                u, filt = to_py(e[2][0]), bool(e[2][1])
                ukeep = copy.deepcopy(u)
                got = updated(src, u, filter_none=filt)
                # the same through keyword arguments
                got_kw = updated(src, filter_none=filt, **u)
                same_inputs = src == keep and u == ukeep
            else:
                K = sorted(e[2][0])
                got = dict_without(src, K)
                got_kw = got
                same_inputs = src == keep
        except Exception as ex:
            ctx.violation("%s/exception" % e[1].lower(), {"d": src, "args": str(e[2]), "exc": repr(ex)[:200]})
            continue
        if got != dst or got_kw != dst:
            ctx.violation("%s/result" % e[1].lower(), {"d": src, "args": str(e[2]), "impl": got, "spec": dst})
        elif not same_inputs or got is src:
            ctx.violation("%s/operand_modified_or_returned" % e[1].lower(), {"d": src, "args": str(e[2])})
        else:
            ctx.trace_ok()
    for a, n in counts.items():
        if n == 0:
            raise harness.MachineryError("no %s edge" % a)
    ctx.notes["edges"] = counts
    ctx.sample({"edges": counts})
    ctx.exhaustive = True


if __name__ == "__main__":
    sys.exit(harness.main(PID, run))
