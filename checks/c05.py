"""C05 — holograms covariant under in-plane shift, axial rotation and mirroring.

spec/Symmetry.tla models the in-plane symmetry group (shifts, Z_24 rotations about the optical
axis, mirror) acting on a whole configuration; TLC enumerates all paths of group elements and
checks the composition laws; an edge cover of the dumped graph is applied step by step to
concrete, generic configurations (scatterer, polarisation, detector points) for every theory,
and the hologram at corresponding points must equal the untransformed one; field vectors must
transform with the element.  Theory objects are reused across the calls of one configuration.
"""
import copy
import math
import os
import random
import sys

sys.path.insert(0, os.path.join(os.path.dirname(os.path.abspath(__file__)), "..", "lib"))
import boot  # noqa
import harness
import quant

import numpy as np

PID = "C05"

import holopy as hp
from holopy.scattering import (Sphere, Spheres, Spheroid, Cylinder, calc_holo, calc_field, Mie, Multisphere,
                               Tmatrix, MieLens, AberratedMieLens)
from holopy.scattering.theory import Lens
from holopy.core.metadata import detector_points, detector_grid

OPT = dict(medium_index=1.33, illum_wavelen=0.66)
PIX = 0.25


class Conf:
    def __init__(self, name, parts, psi, pts, theory, rot_ok=True, tol=1e-9):
        self.name, self.parts, self.psi, self.pts, self.theory = name, parts, psi, np.array(pts, float), theory
        self.rot_ok, self.tol = rot_ok, tol

    def clone(self):
        c = copy.copy(self)
        c.parts = [dict(p) for p in self.parts]
        c.pts = self.pts.copy()
        return c

    def mirror(self):
        c = self.clone()
        for p in c.parts:
            x, y, z = p["center"]
            p["center"] = (x, -y, z)
            if "rot" in p:
                a, b, g = p["rot"]
                p["rot"] = (a, b, -g)
        c.psi = -self.psi
        c.pts[:, 1] *= -1
        return c

    def rotz(self, ang):
        c = self.clone()
        ca, sa = math.cos(ang), math.sin(ang)
        for p in c.parts:
            x, y, z = p["center"]
            p["center"] = (ca * x - sa * y, sa * x + ca * y, z)
            if "rot" in p:
                a, b, g = p["rot"]
                p["rot"] = (a, b, g + ang)
        c.psi = self.psi + ang
        x, y = c.pts[:, 0].copy(), c.pts[:, 1].copy()
        c.pts[:, 0], c.pts[:, 1] = ca * x - sa * y, sa * x + ca * y
        return c

    def shift(self, v):
        c = self.clone()
        for p in c.parts:
            x, y, z = p["center"]
            p["center"] = (x + v[0], y + v[1], z)
        c.pts[:, 0] += v[0]
        c.pts[:, 1] += v[1]
        return c

    def scatterer(self):
        out = []
        for p in self.parts:
            if p["k"] == "sphere":
                out.append(Sphere(n=p["n"], r=p["r"], center=p["center"]))
            elif p["k"] == "spheroid":
                out.append(Spheroid(n=p["n"], r=p["r"], rotation=p["rot"], center=p["center"]))
            else:
                out.append(Cylinder(n=p["n"], d=p["d"], h=p["h"], rotation=p["rot"], center=p["center"]))
        return out[0] if len(out) == 1 else Spheres(out, warn=False)

    def compute(self):
        det = detector_points(x=self.pts[:, 0].copy(), y=self.pts[:, 1].copy(), z=0.0)
        pol = (math.cos(self.psi), math.sin(self.psi))
        if not self.rot_ok:
            half_turns = int(round(self.psi / math.pi))
            pol = (1, 0) if half_turns % 2 == 0 else (-1.0, 0.0)
        sc = self.scatterer()
        h = calc_holo(det, sc, illum_polarization=pol, theory=self.theory, **OPT).values
        f = calc_field(det, sc, illum_polarization=pol, theory=self.theory, **OPT).values
        return np.asarray(h).ravel(), np.asarray(f)


def make_confs(rng):
    def pts(n=6, span=2.5):
        return [(rng.uniform(-span, span), rng.uniform(-span, span)) for _ in range(n)]
    psi = rng.uniform(0.2, 1.3)
    # dimer axis 19..26 degrees off x: rotations by 15 and 30 degrees (mod 90) then put the axis where its
    # bounding box is shorter than 30 radii although the centre distance is not
    th0 = math.radians(rng.uniform(19.0, 26.0))
    acc = {"interpolate_integrals": False}
    S = lambda n, r, c: dict(k="sphere", n=n, r=r, center=c)
    confs = [
        Conf("Mie/sphere", [S(1.59, 0.5, (0.31, -0.22, 5.0))], psi, pts(), Mie()),
        Conf("Mie/two_spheres_layered", [S(1.59, 0.4, (0.6, 0.3, 5.0)), S([1.5, 1.4], [0.2, 0.35], (-0.7, 0.5, 6.1))],
             psi, pts(), Mie()),
        Conf("Multisphere/trimer", [S(1.59, 0.3, (0.5, 0.1, 5.0)), S(1.59, 0.3, (-0.2, 0.55, 5.2)),
                                    S(1.45, 0.3, (0.0, -0.5, 4.7))], psi, pts(), Multisphere(), tol=1e-7),
        Conf("Tmatrix/spheroid", [dict(k="spheroid", n=1.59, r=(0.3, 0.6), rot=(0.0, 0.7, 0.5), center=(0.3, 0.0, 7.0))],
             0.0, pts(), Tmatrix(), rot_ok=False, tol=1e-5),
        Conf("Tmatrix/cylinder", [dict(k="cylinder", n=1.5, d=0.6, h=0.9, rot=(0.0, 1.0, 2.0), center=(-0.2, 0.0, 7.0))],
             0.0, pts(), Tmatrix(), rot_ok=False, tol=1e-5),
        Conf("MieLens/above_focus", [S(1.59, 0.5, (0.3, -0.2, 3.0))], psi, pts(), MieLens(lens_angle=0.9)),
        Conf("MieLens/below_focus", [S(1.45, 0.4, (0.3, -0.2, -2.5))], psi, pts(), MieLens(lens_angle=0.6)),
        Conf("AberratedMieLens/above", [S(1.59, 0.5, (0.3, -0.2, 3.0))], psi, pts(),
             AberratedMieLens(spherical_aberration=[0.4, -0.1], lens_angle=0.9)),
        Conf("Lens(Mie)/above_focus", [S(1.59, 0.5, (0.3, -0.2, 3.0))], psi, pts(4), Lens(0.8, Mie(False, False), 60, 60),
             tol=1e-6),
        Conf("Lens(Mie)/below_focus", [S(1.59, 0.5, (0.3, -0.2, -3.0))], psi, pts(4), Lens(0.8, Mie(False, False), 60, 60),
             tol=1e-6),
        Conf("Lens(Multisphere)/dimer", [S(1.59, 0.3, (0.4, 0.1, 3.0)), S(1.59, 0.3, (-0.3, 0.2, 3.3))], psi, pts(4),
             # the azimuthal rule is exact only beyond the integrand's bandwidth k*rho*sin(lens angle) ~ 35
             # for the farthest point: 40 nodes left an orientation-dependent 6e-4 (seed 2), 64 leave 1e-11
             Lens(0.8, Multisphere(), 40, 64), tol=1e-5),
        # a pair written exactly along y (equal x to the last bit): every rotation moves it to a generic azimuth
        Conf("Multisphere/dimer_along_y", [S(1.59, 0.3, (0.25, -0.4, 5.0)), S(1.5, 0.35, (0.25, 0.35, 5.3))], psi, pts(),
             Multisphere(), tol=1e-7),
        # a tilted spheroid behind the lens: the wrapped theory is asked about every azimuth of the pupil, and
        # (unlike the bare T-matrix theory) any polarisation is accepted
        Conf("Lens(Tmatrix)/spheroid_tilted", [dict(k="spheroid", n=1.59, r=(0.3, 0.5), rot=(0.0, 0.8, 0.4), center=(0.3, -0.2, 3.0))],
             psi, pts(4), Lens(0.8, Tmatrix(), 32, 64), tol=1e-5),
        # default theory: the Mie-superposition / Multisphere rule looks at the largest centre distance
        # (36 radii here, beyond the 30-radii switch) and must not depend on the in-plane orientation
        Conf("auto/dimer_beyond_switch", [S(1.59, 0.25, (4.3 * math.cos(th0), 4.3 * math.sin(th0), 5.0)),
                                          S(1.59, 0.25, (-4.7 * math.cos(th0), -4.7 * math.sin(th0), 5.4))],
             psi, pts(), "auto"),
        Conf("auto/dimer_within_switch", [S(1.59, 0.25, (3.3 * math.cos(th0), 3.3 * math.sin(th0), 5.0)),
                                          S(1.59, 0.25, (-3.7 * math.cos(th0), -3.7 * math.sin(th0), 5.4))],
             psi, pts(), "auto", tol=1e-7),
    ]
    return confs


def run(ctx):
    quick = ctx.tier == "quick"
    rng = random.Random(ctx.seed)
    ctx.rule = ("TLC enumerates all paths of length <= 3 over 3 lattice shifts, 5 rotations in Z_24 and the "
                "mirror; the edge cover is applied step by step to 15 configurations (Mie, Mie "
                "superposition incl. layered, Multisphere trimer, T-matrix spheroid/cylinder, MieLens above/"
                "below focus, AberratedMieLens, Lens(Mie) above/below focus, Lens(Multisphere), default theory for a dimer on either side of the 30-radii switch); distinct = "
                "(configuration, path); non-trivial = path contains a rotation or mirror")
    ctx.assumptions = ["rotations are exact multiples of 15 degrees acting on a configuration whose own "
                       "angles (polarisation, positions) are seeded generic values",
                       "the T-matrix theory accepts only x polarisation: only shifts and the mirror apply"]
    g = ctx.tlc_graph("Symmetry", "Symmetry.cfg", constants={"MaxSteps": 2 if quick else 3})
    g.shortest_paths()
    worst = {}
    for conf in make_confs(rng):
        try:
            h0, f0 = conf.compute()
        except Exception as e:
            ctx.violation("%s/exception" % conf.name, {"exc": repr(e)})
            continue
        edges = list(g.edges)
        slow = conf.name.startswith("Lens(")
        if quick:
            edges = edges if conf.name.startswith("auto/") else rng.sample(edges, 6 if slow else 24)
        fs = float(np.max(np.abs(f0)))
        for e in edges:
            init, path = g.path_to(e[0])
            st = g.states[e[3]]
            # the T-matrix theory takes x polarisation only: of the rotations only the half turn keeps the
            # polarisation on the x axis (pointing the other way); it may refuse that, not answer wrongly
            if not conf.rot_ok and st["rot"] not in (0, 12):
                continue
            if not conf.rot_ok and st["rot"] == 0 and any(p[1] == "RotZ" for p in path + [e]):
                continue
            cur = conf
            for pe in path + [e]:
                if pe[1] == "Mirror":
                    cur = cur.mirror()
                elif pe[1] == "RotZ":
                    cur = cur.rotz(pe[2][0] * math.pi / 12)
                else:
                    cur = cur.shift((pe[2][0][0] * PIX, pe[2][0][1] * PIX))
            pdesc = [(p[1], p[2]) for p in path + [e]]
            ctx.case((conf.name, str(pdesc)), nontrivial=any(p[0] != "Shift" for p in pdesc))
            try:
                h, f = cur.compute()
            except ValueError as ex:
                if not conf.rot_ok and st["rot"] == 12 and "polariz" in str(ex).lower():
                    ctx.trace_ok()          # a clear refusal of the reversed polarisation
                    continue
                ctx.violation("%s/exception" % conf.name, {"exc": repr(ex), "path": pdesc})
                continue
            except Exception as ex:
                ctx.violation("%s/exception" % conf.name, {"exc": repr(ex), "path": pdesc})
                continue
            dh = float(np.max(np.abs(h - h0)))
            # fields transform with the element: E' = R(rot) diag(1, m, 1) E
            ang = st["rot"] * math.pi / 12
            m = -1.0 if st["mir"] else 1.0
            ca, sa = math.cos(ang), math.sin(ang)
            fx, fy = f0[:, 0], m * f0[:, 1]
            want = np.stack([ca * fx - sa * fy, sa * fx + ca * fy, f0[:, 2]], axis=1)
            df = float(np.max(np.abs(f - want))) / fs
            worst[conf.name] = max(worst.get(conf.name, 0.0), dh, df)
            if not (dh <= conf.tol and df <= conf.tol):
                ctx.violation("%s/%s" % (conf.name, "hologram" if dh > conf.tol else "field"),
                              {"path": pdesc, "element": {"shift": st["shift"], "rot": st["rot"], "mirror": st["mir"]},
                               "holo_defect": dh, "field_defect": df})
            else:
                ctx.trace_ok()
    ctx.notes["worst_defect_per_configuration"] = worst
    ctx.sample({"configuration": conf.name, "path": pdesc,
                "element": {"shift": list(st["shift"]), "rot": st["rot"], "mirror": st["mir"]}})

    # whole-pixel shifts on grid detectors, and the symmetric hologram of a sphere under x / y light
    for name, theory in (("Mie", Mie()), ("MieLens", MieLens(lens_angle=0.8)),
                         ("Lens(Mie)", Lens(0.8, Mie(False, False), 40, 40))):
        n = 7
        det = detector_grid(n, PIX)
        c0 = (det.x.values[3], det.y.values[3])
        for pol in ((1, 0), (0, 1)):
            sc = Sphere(n=1.59, r=0.5, center=(c0[0], c0[1], 3.0))
            h = calc_holo(det, sc, illum_polarization=pol, theory=theory, **OPT).transpose("x", "y", "z").values[:, :, 0]
            d = max(float(np.max(np.abs(h - h[::-1, :]))), float(np.max(np.abs(h - h[:, ::-1]))))
            ctx.case((name, "symmetric_hologram", pol))
            if d > 1e-9:
                ctx.violation("%s/sphere_hologram_symmetric" % name, {"pol": pol, "defect": d})
            else:
                ctx.trace_ok()
        # shift scatterer and detector by whole pixels
        sc = Sphere(n=1.59, r=0.5, center=(c0[0] + 0.13, c0[1] - 0.07, 3.0))
        h = calc_holo(det, sc, illum_polarization=(0.6, 0.8), theory=theory, **OPT).values
        for v in ((2, -3), (-1, 5)):
            det2 = det.assign_coords(x=det.x.values + v[0] * PIX, y=det.y.values + v[1] * PIX)
            sc2 = Sphere(n=1.59, r=0.5, center=(c0[0] + 0.13 + v[0] * PIX, c0[1] - 0.07 + v[1] * PIX, 3.0))
            h2 = calc_holo(det2, sc2, illum_polarization=(0.6, 0.8), theory=theory, **OPT).values
            d = float(np.max(np.abs(h2 - h)))
            ctx.case((name, "grid_shift", v))
            if d > 1e-9:
                ctx.violation("%s/grid_shift" % name, {"v": v, "defect": d})
            else:
                ctx.trace_ok()
    # two colour channels, x-polarised red and y-polarised green, the per-channel dictionaries written in
    # different key orders: each channel's hologram of a centred sphere keeps both mirror symmetries
    n = 7
    det2c = detector_grid(n, PIX, extra_dims={"illumination": ["red", "green"]})
    c0 = (det2c.x.values[3], det2c.y.values[3])
    sc = Sphere(n=1.59, r=0.5, center=(c0[0], c0[1], 3.0))
    ctx.case(("two_colour", "symmetric_hologram"))
    try:
        h = calc_holo(det2c, sc, medium_index=1.33, illum_wavelen={"red": 0.66, "green": 0.52},
                      illum_polarization={"green": (0, 1), "red": (1, 0)}, theory=Mie())
        worst = 0.0
        for ch in ("red", "green"):
            a = h.sel(illumination=ch).transpose("x", "y", "z").values[:, :, 0]
            worst = max(worst, float(np.max(np.abs(a - a[::-1, :]))), float(np.max(np.abs(a - a[:, ::-1]))))
        if worst > 1e-9:
            ctx.violation("two_colour/sphere_hologram_symmetric", {"defect": worst})
        else:
            ctx.trace_ok()
    except Exception as ex:
        ctx.violation("two_colour/exception", {"exc": repr(ex)[:200]})
    ctx.exhaustive = not quick


if __name__ == "__main__":
    sys.exit(harness.main(PID, run))
