"""X07 (extension, not one of the listed properties) — point-source reconstruction, ps_propagate.
spec/PointSource.tla: every request of the catalogue alone, and sequences of two requests on ONE image
(all of them in the thorough tier); every plane of every answer must be the single-depth reconstruction
for (depth, beam centre, output form), labelled by its depth; the image is never edited; the
reconstruction is linear in the image."""
import contextlib
import io
import os
import random
import sys
import warnings

sys.path.insert(0, os.path.join(os.path.dirname(os.path.abspath(__file__)), "..", "lib"))
import boot  # noqa
import harness
import fp

import numpy as np

PID = "X07"

from holopy.core.metadata import data_grid, detector_grid, get_spacing
from holopy.propagation import ps_propagate

N = 32
PITCH = 6e-6
L = 18e-3
WL = 405e-9
DEPTH = {"near": 1.5e-3, "mid": 2.0e-3, "far": 3.1e-3}
BEAM = {"centre": [N / 2, N / 2], "off_centre": [N / 2 + 2, N / 2 - 3]}


def quiet(f, *a, **k):
    with contextlib.redirect_stdout(io.StringIO()), warnings.catch_warnings():
        warnings.simplefilter("ignore")
        return f(*a, **k)


def make_image(nprng):
    x = np.arange(N) - N / 2
    rr = np.hypot(*np.meshgrid(x, x, indexing="ij"))
    vals = 1.0 + 0.3 * np.cos(0.05 * rr ** 2) + 0.05 * nprng.normal(size=(N, N))
    return data_grid(vals, spacing=PITCH, medium_index=1.0, illum_wavelen=WL, illum_polarization=(1, 0))


def out_of(name, img):
    if name == "none":
        return None
    if name == "same":
        return img
    return detector_grid(N // 2, PITCH / 2)


def ask(img, rq):
    ds = [DEPTH[d] for d in rq["depths"]]
    d = ds[0] if rq["form"] == "scalar" else (list(ds) if rq["form"] == "list" else np.array(ds))
    return quiet(ps_propagate, img, d, L, list(BEAM[rq["beam"]]), out_of(rq["out"], img))


def run(ctx):
    quick = ctx.tier == "quick"
    rng = random.Random(ctx.seed)
    nprng = np.random.default_rng(ctx.seed)
    ctx.rule = ("TLC enumerates the 192 requests of the catalogue (scalar / list / array of 1-3 depths in any order, "
                "out_schema absent / the image / finer, beam centred / off centre) and every sequence of two; quick "
                "replays every single request and 150 seeded pairs, thorough every pair; distinct = request sequence")
    ctx.assumptions = ["a plane is compared with the scalar, schema-free (or finer-schema) call made first in the process "
                       "on a copy of the image", "refractive index 1 (the only case the function documents)"]
    g = ctx.tlc_graph("PointSource", "PointSource.cfg", workers=8)
    img = make_image(nprng)
    keep = fp.fingerprint(img)
    # baselines: one scalar call per plane token, on a private copy of the image
    base = {}
    for dname in DEPTH:
        for bname in BEAM:
            for oname in ("none", "finer"):
                im = img.copy(deep=True)
                try:
                    r = quiet(ps_propagate, im, DEPTH[dname], L, list(BEAM[bname]), out_of(oname, im))
                except Exception as e:
                    raise harness.MachineryError("baseline %s/%s/%s failed: %r" % (dname, bname, oname, e))
                base[(dname, bname, oname)] = r
    # sanity of the baselines themselves: different depths give different planes, finer output is finer
    a, b = base[("near", "centre", "none")], base[("far", "centre", "none")]
    if not float(np.max(np.abs(a.values - b.values))) > 1e-3 * float(np.max(np.abs(a.values))):
        raise harness.MachineryError("depths indistinguishable: the comparison would be vacuous")
    fin = base[("mid", "centre", "finer")]
    ctx.case(("finer_output", "shape_and_pitch"))
    if fin.sizes["x"] != N // 2 or not (get_spacing(fin)[0] < 0.75 * get_spacing(a)[0]):
        ctx.violation("point_source/finer_output", {"shape": dict(fin.sizes), "spacing": [float(v) for v in get_spacing(fin)],
                                                    "plain_spacing": [float(v) for v in get_spacing(a)]})
    else:
        ctx.trace_ok()
    scale = float(np.max(np.abs(a.values)))

    seqs = sorted({tuple(repr(r) for r in st["log"]): st["log"] for st in g.states.values() if len(st["log"]) >= 1}.items())
    singles = [q for _, q in seqs if len(q) == 1]
    pairs = [q for _, q in seqs if len(q) == 2]
    if len(singles) != 192 or len(pairs) != 192 * 192:
        raise harness.MachineryError("unexpected graph: %d singles, %d pairs" % (len(singles), len(pairs)))
    todo = singles + (rng.sample(pairs, 150) if quick else pairs)
    nplanes = 0
    for seq in todo:
        ctx.case(("sequence", [dict(form=r["form"], depths=list(r["depths"]), out=r["out"], beam=r["beam"]) for r in seq]),
                 nontrivial=True)
        bad = None
        for ci, rq in enumerate(seq):
            rq = dict(form=rq["form"], depths=list(rq["depths"]), out=rq["out"], beam=rq["beam"])
            try:
                res = ask(img, rq)
            except Exception as e:
                bad = ("exception", {"exc": repr(e)[:200]})
                break
            want_z = [DEPTH[d] for d in rq["depths"]]
            got_z = [float(v) for v in np.atleast_1d(res.z.values)]
            if "z" not in res.dims or res.sizes["z"] != len(want_z):
                bad = ("one_plane_per_depth", {"dims": dict(res.sizes), "depths": want_z})
            elif got_z != want_z:
                bad = ("labels_are_the_depths", {"impl": got_z, "spec": want_z})
            else:
                for i, dname in enumerate(rq["depths"]):
                    ref = base[(dname, rq["beam"], "none" if rq["out"] in ("none", "same") else "finer")]
                    pl = res.isel(z=i)
                    nplanes += 1
                    if pl.values.shape != ref.values.squeeze().shape:
                        bad = ("plane_shape", {"plane": i, "impl": list(pl.values.shape), "spec": list(ref.values.squeeze().shape)})
                    elif not np.array_equal(pl.x.values, ref.x.values) or not np.array_equal(pl.y.values, ref.y.values):
                        bad = ("plane_coordinates", {"plane": i})
                    else:
                        dd = float(np.max(np.abs(pl.values - ref.values.squeeze()))) / scale
                        if not dd <= 1e-12:
                            bad = ("plane_is_single_depth_reconstruction", {"plane": i, "defect": dd})
                    if bad:
                        break
            if bad is None and res.attrs.get("illum_wavelen") != img.attrs.get("illum_wavelen"):
                bad = ("metadata_lost", {})
            if bad is None and fp.fingerprint(img) != keep:
                bad = ("image_edited", {})
            if bad:
                bad[1]["call"] = ci + 1
                bad[1]["request"] = rq
                break
        if bad:
            ctx.violation("point_source/" + bad[0], dict(bad[1], sequence_length=len(seq)))
        else:
            ctx.trace_ok()
    # linearity in the image, per plane token
    img2 = make_image(np.random.default_rng(ctx.seed + 1000))
    for (dname, bname, oname), ref in sorted(base.items()):
        ctx.case(("linear", dname, bname, oname))
        try:
            r2 = quiet(ps_propagate, img2, DEPTH[dname], L, list(BEAM[bname]), out_of(oname, img2))
            comb = img.copy(deep=True)
            comb.values[...] = 2.5 * img.values - 0.75 * img2.values
            rc = quiet(ps_propagate, comb, DEPTH[dname], L, list(BEAM[bname]), out_of(oname, comb))
            dd = float(np.max(np.abs(rc.values - (2.5 * ref.values - 0.75 * r2.values)))) / scale
        except Exception as e:
            ctx.violation("point_source/linear/exception", {"plane": [dname, bname, oname], "exc": repr(e)[:200]})
            continue
        if not dd <= 1e-10:
            ctx.violation("point_source/linear", {"plane": [dname, bname, oname], "defect": dd})
        else:
            ctx.trace_ok()
    if nplanes < 300:
        raise harness.MachineryError("only %d planes compared" % nplanes)
    ctx.notes["planes_compared"] = nplanes
    ctx.notes["sequences"] = len(todo)
    ctx.sample({"sequence": [dict(form=r["form"], depths=list(r["depths"]), out=r["out"], beam=r["beam"]) for r in todo[-1]]})
    ctx.exhaustive = not quick


if __name__ == "__main__":
    sys.exit(harness.main(PID, run))
