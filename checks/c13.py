"""C13 — fitting: fixed point, monotone improvement, recovery, consistent results.

spec/FitSession.tla models a fitting session (fit, reads of the lazily cached result attributes,
save, load, fit again) for every strategy x data kind x start x theory configuration; TLC
enumerates every interleaving to depth MaxSteps; the harness walks the whole dumped graph on
real objects (one real fit per Fit action, cheap clones for branching) and records one event per
fit and per reload; spec/FitSessionTrace.tla validates the recorded observations.
"""
import copy
import math
import os
import random
import shutil
import sys
import tempfile
import warnings

sys.path.insert(0, os.path.join(os.path.dirname(os.path.abspath(__file__)), "..", "lib"))
import boot  # noqa
import harness
import quant
import fp
import trace as tracemod

import numpy as np

PID = "C13"

import holopy as hp
from holopy.scattering import Sphere, Spheres, calc_holo, Mie, MieLens
from holopy.inference import prior, AlphaModel, NmpfitStrategy, LeastSquaresScipyStrategy
from holopy.core.io import serialize
import io as _io

KW = dict(medium_index=1.33, illum_wavelen=0.66, illum_polarization=(1, 0))


def yaml_text(obj):
    b = _io.BytesIO()
    serialize.save(b, obj)
    return b.getvalue()


def problem(cfg, rng, pick=None):
    """generating parameters in a physical box, the model with guesses at truth or nearby"""
    truth = {"r": rng.uniform(0.4, 0.7), "x": rng.uniform(1.3, 1.9), "y": rng.uniform(1.3, 1.9),
             "z": rng.uniform(5.0, 8.0), "alpha": rng.uniform(0.7, 0.95)}
    lens = cfg["theory"] == "mielens_fitted_angle"
    if lens:
        truth["z"] = rng.uniform(2.0, 4.0)
        truth["lens_angle"] = rng.uniform(0.7, 0.9)
    # a region cut out of a larger image: the axes do not start at 0; the particle moves with it
    # (x offset positive, y offset negative: fitted coordinates of both signs)
    off = (3.1, -4.3) if cfg.get("origin") == "offset" else (0.0, 0.0)
    if cfg.get("origin") == "particle_on_axis":
        off = (-truth["x"], -4.3)        # x of the particle is exactly 0: a fitted parameter that starts at 0
    truth["x"] += off[0]
    truth["y"] += off[1]
    pert = {k: (1.0 if cfg["start"] == "truth" else 1.0 + rng.choice([-1, 1]) * rng.uniform(0.005, 0.02)) for k in truth}
    box = {"r": (0.3, 0.8), "x": (1.0 + off[0], 2.2 + off[0]), "y": (1.0 + off[1], 2.2 + off[1]), "z": (1.5, 9.0),
           "alpha": (0.5, 1.0), "lens_angle": (0.5, 1.1)}
    if cfg["start"] in ("on_lower", "on_upper"):
        # one parameter starts exactly on a bound of its prior, the generating value 1-3 % inside
        # (a generating value of exactly 0 cannot be "1-3 % inside" a bound placed relative to it)
        cands = [k_ for k_ in sorted(truth) if truth[k_] != 0]
        k = pick if (pick in truth and truth[pick] != 0) else rng.choice(cands)
        d = rng.uniform(0.01, 0.03)
        if cfg["start"] == "on_upper":
            box[k] = (box[k][0], truth[k] + abs(truth[k]) * d)
            pert[k] = 1 + 2 * d          # clipped to the bound below
        else:
            box[k] = (truth[k] - abs(truth[k]) * d, box[k][1])
            pert[k] = 1 - 2 * d
    det = hp.detector_grid(16, 0.2)
    det = det.assign_coords(x=det.x.values + off[0], y=det.y.values + off[1])
    th_true = MieLens(lens_angle=truth["lens_angle"]) if lens else Mie()
    data = calc_holo(det, Sphere(n=1.59, r=truth["r"], center=(truth["x"], truth["y"], truth["z"])),
                     scaling=truth["alpha"], theory=th_true, **KW)

    def U(key, lo, hi):
        return prior.Uniform(lo, hi, guess=min(hi, max(lo, truth[key] + abs(truth[key]) * (pert[key] - 1))))
    s = Sphere(n=1.59, r=U("r", *box["r"]), center=(U("x", *box["x"]), U("y", *box["y"]), U("z", *box["z"])))
    theory = MieLens(lens_angle=U("lens_angle", *box["lens_angle"])) if lens else Mie()
    model = AlphaModel(s, alpha=U("alpha", *box["alpha"]), noise_sd=0.05, theory=theory, **KW)
    names = {"r": "r", "x": "center.0", "y": "center.1", "z": "center.2", "alpha": "alpha", "lens_angle": "lens_angle"}
    want = {names[k]: v for k, v in truth.items()}
    npix = 120 if cfg["data"] == "subset" else None
    # the strategy's own seed decides the pixel subset: 0 is a seed like any other
    own_seed = 0 if cfg["start"] in ("truth", "on_upper") else 11
    strat = NmpfitStrategy(npixels=npix, seed=own_seed) if cfg["strategy"] == "nmpfit" else \
        LeastSquaresScipyStrategy(npixels=npix)
    return model, data, strat, want


# the pixel subset a strategy draws is internal to the fit (the result of an Nmpfit subset fit holds the whole
# image): observe it where the strategies call make_subset_data, by wrapping that name in their modules
SELECTIONS = []


def _install_subset_recorder():
    import holopy.inference.nmpfit as _nm
    import holopy.inference.scipyfit as _sf
    from holopy.core.metadata import make_subset_data as _orig
    if getattr(_nm.make_subset_data, "_verif", False):
        return

    def recording(data, pixels=None, return_selection=False, seed=None):
        if pixels is None:
            return _orig(data, pixels=pixels, return_selection=return_selection, seed=seed)
        sub, sel = _orig(data, pixels=pixels, return_selection=True, seed=seed)
        SELECTIONS.append(tuple(int(i) for i in sel))
        return (sub, sel) if return_selection else sub
    recording._verif = True
    _nm.make_subset_data = recording
    _sf.make_subset_data = recording


_install_subset_recorder()


def fit_event(cfg, model, data, strat, want, first=None):
    m_txt, s_txt, d_fp = yaml_text(model), yaml_text(strat), fp.fingerprint(data)
    # a strategy with its own seed must not depend on the global generator's state: the repeat run starts
    # from another one; the SciPy strategy has no seed argument and draws its subset from the global state
    np.random.seed(7 if (first is None or getattr(strat, "seed", None) is None) else 8)
    del SELECTIONS[:]
    with warnings.catch_warnings():
        warnings.simplefilter("ignore")
        res = strat.fit(model, data)
    res._verif_selection = tuple(SELECTIONS)
    pars = res.parameters
    ev = {"event": "Fit", "cfg": "%(strategy)s/%(data)s/%(start)s/%(theory)s/%(origin)s" % cfg}
    ev["names_ok"] = bool(list(pars) == list(model.parameters))
    # (a generating value of exactly 0 has no relative error, and the optimisers stop earlier there - 1e-6 .. 1e-5 of a pixel: it
    # must be found to 3e-3 microns, a hundredth of a pixel)
    ev["mb_param_error"] = quant.mb(max(abs(float(pars[k]) - want[k]) / (abs(want[k]) or 3.2e3) for k in want)) \
        if ev["names_ok"] else 20000
    if cfg.get("origin") == "particle_on_axis" and ev["names_ok"]:
        # with one parameter at 0 the optimisers stop a little earlier for all of them (1e-6 instead of 1e-9 .. 1e-12):
        # this class is held to 1e-5
        ev["mb_param_error"] -= 1000
    guess = model.initial_guess
    with warnings.catch_warnings():
        warnings.simplefilter("ignore")
        f_res = model.forward(pars, data)
        f_gue = model.forward(guess, data)
        chi_res = float(((f_res - data) ** 2).sum())
        chi_gue = float(((f_gue - data) ** 2).sum())
        ev["misfit_not_worse"] = bool(chi_res <= chi_gue * (1 + 1e-9) + 1e-18)
        ev["within_bounds"] = bool(all(model.parameters[k].lower_bound <= float(v) <= model.parameters[k].upper_bound
                                       for k, v in pars.items()))
        holo = res.hologram
        ev["mb_hologram"] = quant.mb(quant.reldiff(np.asarray(holo.values).ravel(), np.asarray(f_res.values).ravel()))
        lp = res.max_lnprob
        ev["mb_lnprob"] = quant.mb(abs(float(lp) - float(model.lnposterior(pars, res.data))) / max(1.0, abs(float(lp))))
        # ... and against the Gaussian log-density written out on the forward hologram (noise 0.05, the priors' own densities)
        fd = model.forward(pars, res.data)
        rr = (np.asarray(fd.values, dtype=float) - np.asarray(res.data.values, dtype=float)).ravel()
        sg = 0.05
        oracle = -rr.size / 2 * math.log(2 * math.pi) - rr.size * math.log(sg) - 0.5 * float(np.sum((rr / sg) ** 2)) \
            + sum(float(model.parameters[k].lnprob(float(v))) for k, v in pars.items())
        ev["mb_lnprob"] = max(ev["mb_lnprob"], quant.mb(abs(float(lp) - oracle) / max(1.0, abs(oracle))))
    ev["model_unchanged"] = bool(yaml_text(model) == m_txt)
    ev["strategy_unchanged"] = bool(yaml_text(strat) == s_txt)
    ev["data_unchanged"] = bool(fp.fingerprint(data) == d_fp)
    ev["scratch_clean"] = bool(not any(hasattr(strat, a) for a in ("_model", "_parameters", "_data", "_guess_lnpriors")))
    # the pixels a subset fit used are part of the result: a repeat must have used the same ones
    ev["same_pixels"] = bool(first is None or (fp.same(res.data, first.data) and
                                               getattr(first, "_verif_selection", None) in (None, res._verif_selection)))
    if first is None:
        ev["mb_repeat"] = -20000
    else:
        ev["mb_repeat"] = quant.mb(max(abs(float(pars[k]) - float(first.parameters[k])) / max(1e-300, abs(float(pars[k])))
                                      for k in pars))
    # a fresh result object for the walk (the reads above filled its caches)
    np.random.seed(7)
    with warnings.catch_warnings():
        warnings.simplefilter("ignore")
        del SELECTIONS[:]
        res_clean = strat.fit(model, data)
    res_clean._verif_selection = tuple(SELECTIONS)
    if cfg["data"] == "subset" and not res_clean._verif_selection:
        raise harness.MachineryError("subset fit without a recorded pixel selection: the recorder is not bound")
    return ev, res_clean


def clone(res):
    c = copy.copy(res)
    c._kwargs_keys = list(res._kwargs_keys)
    return c


def reload_event(cfg, snap, loaded, model):
    ev = {"event": "Reload", "cfg": "%(strategy)s/%(data)s/%(start)s/%(theory)s/%(origin)s" % cfg}
    ev["names_equal"] = bool(list(loaded.parameters) == list(snap.parameters))
    ev["params_equal"] = bool(ev["names_equal"] and all(float(loaded.parameters[k]) == float(snap.parameters[k])
                                                        for k in snap.parameters))
    ev["model_equal"] = bool(yaml_text(loaded.model) == yaml_text(snap.model))
    ev["strategy_equal"] = bool(yaml_text(loaded.strategy) == yaml_text(snap.strategy))
    a, b = np.asarray(loaded.data.values).ravel(), np.asarray(snap.data.values).ravel()
    ev["data_equal"] = bool(a.shape == b.shape and np.array_equal(np.sort(a), np.sort(b)))
    with warnings.catch_warnings():
        warnings.simplefilter("ignore")
        ev["mb_hologram"] = quant.mb(quant.reldiff(np.asarray(loaded.hologram.values).ravel(),
                                                   np.asarray(clone(snap).hologram.values).ravel()))
        ev["mb_lnprob"] = quant.mb(abs(float(loaded.max_lnprob) - float(clone(snap).max_lnprob)) /
                                   max(1.0, abs(float(clone(snap).max_lnprob))))
    return ev


# ---------------------------------------------------------------------------------------------
# front end: hp.fit(data, scatterer | model, parameters, strategy)   (spec/FitFrontEnd.tla)
def fe_objects(q, rng):
    """the user's objects for one request: base scatterer (centre written as list/tuple/array),
    data generated from it with scaling 0.75 (the default model's alpha guess)"""
    def cont(c):
        return {"list": list, "tuple": tuple, "array": np.array}[q["container"]](c)
    c0 = [rng.uniform(1.3, 1.9), rng.uniform(1.3, 1.9), rng.uniform(5.0, 8.0)]
    s0 = Sphere(n=1.59, r=rng.uniform(0.4, 0.6), center=cont(c0))
    if q["scat"] == "sphere":
        scat, truth = s0, {"n": 1.59, "r": s0.r, "x": c0[0], "y": c0[1], "z": c0[2]}
    else:
        # far enough apart (> 30 radii) for the default theory to be Mie superposition: the property
        # quantifies over Mie and lens theories, not over the iterative cluster solver
        c1 = [c0[0] + rng.uniform(19.0, 20.0), c0[1] - rng.uniform(0.0, 0.3), c0[2] + rng.uniform(0.2, 0.6)]
        s1 = Sphere(n=1.45, r=rng.uniform(0.3, 0.45), center=cont(c1))
        scat = Spheres([s0, s1])
        truth = {"0:n": 1.59, "0:r": s0.r, "0:x": c0[0], "0:y": c0[1], "0:z": c0[2],
                 "1:n": 1.45, "1:r": s1.r, "1:x": c1[0], "1:y": c1[1], "1:z": c1[2]}
    truth["alpha"] = 0.75
    det = hp.core.update_metadata(hp.detector_grid(14, 0.25), **KW)
    data = calc_holo(det, scat, scaling=0.75)
    return scat, data, truth


def fe_params(q, rng):
    r = q["params"]
    if r[0] == "all":
        return None
    names = sorted(r[1])
    rng.shuffle(names)
    names = ["r" if (n == "bogus" and q["scat"] == "cluster2" and rng.random() < 0.5) else n for n in names]
    if len(names) == 1 and rng.random() < 0.5:
        return names[0]
    return names if rng.random() < 0.7 else tuple(names)


def fe_strategy(form):
    return {"none": None, "name_nmpfit": "nmpfit", "name_scipy": "scipy lsq", "class_nmpfit": NmpfitStrategy,
            "class_scipy": LeastSquaresScipyStrategy, "object_nmpfit": NmpfitStrategy(),
            "object_scipy": LeastSquaresScipyStrategy(), "name_sampler": "emcee", "not_a_strategy": 3}[form]


def fe_model(q, scat, truth):
    """entry = model: the user's own model frees the first radius and z through named priors"""
    names = ["r", "z"] if q["scat"] == "sphere" else ["0:r", "0:z"]
    def first(s):
        c = list(s.center)
        return Sphere(n=s.n, r=prior.Uniform(0, np.inf, guess=truth[names[0]], name=names[0]),
                      center=[c[0], c[1], prior.Uniform(-np.inf, np.inf, guess=truth[names[1]], name=names[1])])
    sc = first(scat) if q["scat"] == "sphere" else Spheres([first(scat.scatterers[0]), scat.scatterers[1]], warn=False)
    return AlphaModel(sc, noise_sd=1, alpha=prior.Uniform(0.5, 1, name="alpha"))


def front_end(ctx, rng, quick):
    from holopy.inference.interface import make_default_model
    warnings.simplefilter("ignore")
    g = ctx.tlc_graph("FitFrontEnd", "FitFrontEnd.cfg")
    exp_of = {}
    for e in g.edges:
        if e[1] == "Call" and g.states[e[0]]["calls"] == 0:
            exp_of[e[0]] = g.states[e[3]]["outcome"]
    inits = sorted(g.init, key=lambda s: repr(sorted((k, repr(v)) for k, v in g.states[s]["req"].items())))
    if not exp_of or len(exp_of) != len(inits):
        raise harness.MachineryError("FitFrontEnd graph: %d initial states, %d Call edges" % (len(inits), len(exp_of)))
    # 1. the default model itself for every scatterer-entry request (cheap: no fit)
    seen_actions = {"model_built": 0, "model_refused": 0, "fit": 0, "refused": 0}
    for sid in inits:
        q = g.states[sid]["req"]
        if q["entry"] != "scatterer" or q["strategy"] != "none":
            continue
        exp = exp_of[sid]
        scat, data, truth = fe_objects(q, rng)
        params = fe_params(q, rng)
        before = yaml_text(scat)
        ctx.case(("default_model", q["scat"], q["container"], repr(q["params"])), nontrivial=q["params"][0] != "all")
        key = "%s/%s" % (q["scat"], q["container"])
        try:
            with warnings.catch_warnings():
                warnings.simplefilter("ignore")
                model = make_default_model(scat, params)
        except (ValueError, KeyError) as ex:
            if exp["kind"] == "refused":
                seen_actions["model_refused"] += 1
                ctx.trace_ok()
            else:
                ctx.violation("frontend/default_model/refused_valid_request/" + key,
                              {"req": q, "parameters": repr(params), "exc": repr(ex)[:200]})
            continue
        except Exception as ex:
            ctx.violation("frontend/default_model/exception/" + key, {"req": q, "parameters": repr(params), "exc": repr(ex)[:200]})
            continue
        seen_actions["model_built"] += 1
        bad = None
        names = list(model.parameters)
        if exp["kind"] == "refused":
            bad = ("accepted_unknown_parameter", {"impl": names})
        elif names != list(exp["names"]):
            bad = ("names", {"impl": names, "spec": list(exp["names"])})
        else:
            for n, pr in model.parameters.items():
                lo = 0.5 if n == "alpha" else (0 if n.split(":")[-1] in ("n", "r") else -np.inf)
                hi = 1 if n == "alpha" else np.inf
                if not (pr.lower_bound == lo and pr.upper_bound == hi and abs(pr.guess - truth[n]) <= 1e-15 * abs(truth[n])):
                    bad = ("prior", {"name": n, "impl": repr(pr), "want_guess": truth[n]})
            # everything not freed keeps its value
            fixed = model.scatterer.parameters
            flat = {}
            def walk(prefix, v):
                if isinstance(v, dict):
                    for k, x in v.items():
                        walk(prefix + str(k), x)
                elif isinstance(v, (list, tuple, np.ndarray)):
                    for i, x in enumerate(v):
                        walk(prefix + "." + str(i), x)
                else:
                    flat[prefix] = v
            walk("", fixed)
            for k, v in flat.items():
                if isinstance(v, prior.Prior):
                    continue
                kk = k.replace("center.0", "x").replace("center.1", "y").replace("center.2", "z")
                if kk in truth and not float(v) == float(truth[kk]):
                    bad = ("fixed_value", {"name": kk, "impl": float(v), "want": truth[kk]})
        if bad is None and yaml_text(scat) != before:
            bad = ("base_scatterer_changed", {})
        if bad:
            ctx.violation("frontend/default_model/%s/%s" % (bad[0], key), dict(bad[1], req=q, parameters=repr(params)))
        else:
            ctx.trace_ok()
    # 2. real fits through hp.fit, twice with the same objects
    # real fits for the single sphere only: a second sphere 20 um away is barely constrained by a small
    # detector, and how far an ill-conditioned parameter drifts is not what the property states; the
    # cluster requests are checked structurally (part 1: names, order, bounds, guesses, fixed values)
    pool = [s for s in inits if g.states[s]["req"]["scat"] == "sphere"]
    nfit = 40 if quick else 600
    # every strategy form, container, entry and scatterer kind at least once: stratified draw
    chosen, buckets = [], {}
    for s in pool:
        q = g.states[s]["req"]
        buckets.setdefault((q["strategy"], q["entry"], q["scat"]), []).append(s)
    keys = sorted(buckets)
    while len(chosen) < nfit and keys:
        for k in list(keys):
            if not buckets[k]:
                keys.remove(k)
                continue
            chosen.append(buckets[k].pop(rng.randrange(len(buckets[k]))))
            if len(chosen) >= nfit:
                break
    events = []
    for sid in chosen:
        q = g.states[sid]["req"]
        exp = exp_of[sid]
        scat, data, truth = fe_objects(q, rng)
        params = fe_params(q, rng)
        strat = fe_strategy(q["strategy"])
        target = fe_model(q, scat, truth) if q["entry"] == "model" else scat
        before = (yaml_text(scat), fp.fingerprint(data), yaml_text(target),
                  yaml_text(strat) if q["strategy"].startswith("object") else None)
        key = "%s/%s/%s/%s" % (q["entry"], q["scat"], q["container"], q["strategy"])
        ctx.case(("fit", key, repr(q["params"])), nontrivial=True)
        res = []
        refused = None
        for call in range(2):
            try:
                np.random.seed(7)
                with warnings.catch_warnings():
                    warnings.simplefilter("ignore")
                    res.append(hp.fit(data, target, parameters=params, strategy=strat))
            except (ValueError, KeyError) as ex:
                refused = ex
                break
            except Exception as ex:
                ctx.violation("frontend/fit/exception/" + key, {"req": q, "parameters": repr(params), "call": call + 1,
                                                                "exc": repr(ex)[:200]})
                refused = False
                break
        if refused is False:
            continue
        if refused is not None:
            if exp["kind"] == "refused":
                seen_actions["refused"] += 1
                ctx.trace_ok()
            else:
                ctx.violation("frontend/fit/refused_valid_request/" + key, {"req": q, "parameters": repr(params),
                                                                            "exc": repr(refused)[:200]})
            continue
        if exp["kind"] == "refused":
            ctx.violation("frontend/fit/accepted_%s/%s" % (exp["why"], key), {"req": q, "parameters": repr(params)})
            continue
        seen_actions["fit"] += 1
        r1, r2 = res
        ev = {"event": "FrontEndFit", "cfg": key}
        ev["names_ok"] = bool(list(r1.parameters) == list(exp["names"]))
        ev["strategy_ok"] = bool(type(r1.strategy).__name__ == {"nmpfit": "NmpfitStrategy",
                                                              "scipy": "LeastSquaresScipyStrategy"}[exp["strategy"]])
        ev["mb_param_error"] = quant.mb(max(abs(float(v) - truth[k]) / abs(truth[k]) for k, v in r1.parameters.items())) \
            if ev["names_ok"] else 20000
        ev["mb_repeat"] = quant.mb(max(abs(float(r1.parameters[k]) - float(r2.parameters[k])) / max(1e-300, abs(float(r1.parameters[k])))
                                       for k in r1.parameters)) if list(r1.parameters) == list(r2.parameters) else 20000
        after = (yaml_text(scat), fp.fingerprint(data), yaml_text(target),
                 yaml_text(strat) if q["strategy"].startswith("object") else None)
        ev["inputs_unchanged"] = bool(after == before)
        events.append([ev])
    ctx.notes["front_end"] = dict(seen_actions, requests=len(inits))
    for k in ("model_built", "model_refused", "fit", "refused"):
        if seen_actions[k] == 0 and not ctx.violations:
            raise harness.MachineryError("front end: no %s case was exercised" % k)
    return events


def run(ctx):
    quick = ctx.tier == "quick"
    rng = random.Random(ctx.seed)
    tmp = tempfile.mkdtemp(prefix="c13_")
    ctx.rule = ("TLC enumerates 64 configurations (x image axes starting at 0 / offset) (nmpfit/scipy x full/subset x start at truth/nearby/on a lower/on "
                "an upper bound of one parameter's prior x Mie/"
                "MieLens with fitted lens angle) and every interleaving of fit, three cache reads, save, load and "
                "a second fit up to MaxSteps; every edge of the graph is executed on real objects; distinct = "
                "(configuration, state); non-trivial = path with a save after at least one cache read or a "
                "second fit")
    ctx.assumptions = ["generating parameters drawn in a physical box with VERIF_SEED; noise-free data",
                       "the global RNG is seeded identically before every fit (subset selection)"]
    traces = []
    try:
        g = ctx.tlc_graph("FitSession", "FitSession.cfg", constants={"MaxSteps": 4 if quick else 5})
        inits = sorted(g.init, key=lambda s: str(sorted(g.states[s]["cfg"].items())))
        if quick:
            # half of the configurations, every (strategy, start) with two of the four (data, theory) pairs
            def keep(c):
                starts = ["truth", "nearby", "on_lower", "on_upper"]
                if c["origin"] == "particle_on_axis":       # a start value of exactly 0: the perturbed starts, plain Mie
                    return c["start"] == "nearby" and c["theory"] == "mie"
                return ((c["data"] == "subset") + (c["theory"] != "mie") + ctx.seed) % 2 == 0 and \
                    ((c["origin"] == "offset") + (c["strategy"] == "scipy") + starts.index(c["start"]) + ctx.seed // 2) % 2 == 0
            inits = [s for s in inits if keep(g.states[s]["cfg"])]
        nfile = 0
        for sid in inits:
            cfg = g.states[sid]["cfg"]
            try:
                model, data, strat, want = problem(cfg, rng)
                ev1, res1 = fit_event(cfg, model, data, strat, want)
                ev2, res2 = fit_event(cfg, model, data, strat, want, first=res1)
            except Exception as e:
                ctx.violation("fit/%s/exception" % cfg["strategy"], {"cfg": cfg, "exc": repr(e)[:300]})
                continue
            traces.append([ev1, ev2])
            results = {1: res1, 2: res2}
            if quick and cfg["start"].startswith("on_"):
                # the session walk does not depend on the start; quick walks it for the other starts only
                ctx.case(("fit-only", str(sorted(cfg.items()))), nontrivial=True)
                continue
            # walk the whole graph from this initial state
            stack = [(sid, None, None, None, None)]       # state id, result, file, snapshot at save, loaded
            seen_edges = 0
            while stack:
                cur, res, path, snap, loaded = stack.pop()
                for e in g.out.get(cur, []):
                    st = g.states[e[3]]
                    seen_edges += 1
                    ctx.case(("edge", str(sorted(cfg.items())), cur, e[1], str(e[2])),
                             nontrivial=(e[1] == "Save" and len(g.states[cur]["cached"]) > 0) or st["nfits"] == 2)
                    try:
                        with warnings.catch_warnings():
                            warnings.simplefilter("ignore")
                            if e[1] == "Fit":
                                nres = clone(results[st["nfits"]])
                                stack.append((e[3], nres, None, None, None))
                            elif e[1] == "Read":
                                nres = clone(res)
                                getattr(nres, e[2][0])
                                stack.append((e[3], nres, path, snap, loaded))
                            elif e[1] == "Save":
                                nfile += 1
                                p = os.path.join(tmp, "res_%d.h5" % nfile)
                                hp.save(p, res)
                                stack.append((e[3], res, p, clone(res), loaded))
                            elif e[1] == "Load":
                                ld = hp.load(path)
                                # what was loaded is a result of its own: the file may go away (or be written again)
                                os.rename(path, path + ".moved")
                                try:
                                    traces.append([reload_event(cfg, snap, ld, model)])
                                finally:
                                    os.rename(path + ".moved", path)
                                traces[-1][0]["cached_at_save"] = sorted(st["loaded"][1])
                                stack.append((e[3], res, path, snap, ld))
                        ctx.trace_ok()
                    except Exception as ex:
                        ctx.violation("session/%s/%s/%s/exception" % (e[1], cfg["strategy"], cfg["data"]),
                                      {"cfg": cfg, "action": e[1], "cached": sorted(g.states[cur]["cached"]),
                                       "exc": repr(ex)[:300]})
            ctx.notes.setdefault("edges_walked", 0)
            ctx.notes["edges_walked"] += seen_edges
            for f in os.listdir(tmp):
                os.remove(os.path.join(tmp, f))
        # more generating parameter sets (thorough) for the numerical clauses
        extra = 0 if quick else 120
        cfgs = [g.states[s]["cfg"] for s in g.init]
        for i in range(extra):
            cfg = cfgs[i % len(cfgs)]
            try:
                model, data, strat, want = problem(cfg, rng)
                ev, _ = fit_event(cfg, model, data, strat, want)
                traces.append([ev])
                ctx.case(("extra", i))
            except Exception as e:
                ctx.violation("fit/%s/exception" % cfg["strategy"], {"cfg": cfg, "exc": repr(e)[:300]})
    finally:
        shutil.rmtree(tmp, ignore_errors=True)
    traces += front_end(ctx, rng, quick)
    verdicts = tracemod.validate(ctx, "FitSessionTrace", traces)
    for tr, (acc, line, clauses) in zip(traces, verdicts):
        if acc:
            ctx.trace_ok()
        else:
            ev = tr[line - 1]
            for k in sorted(k for k, v in (clauses or {}).items() if v is False):
                ctx.violation("%s/%s/%s" % (ev["event"].lower(), k, ev["cfg"]), {"event": ev})
    ctx.sample({"trace": traces[0] if traces else None})
    ctx.exhaustive = not quick


if __name__ == "__main__":
    sys.exit(harness.main(PID, run))
