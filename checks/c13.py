"""C13 — fitting: fixed point, monotone improvement, recovery, consistent results.

spec/FitSession.tla models a fitting session (fit, reads of the lazily cached result attributes,
save, load, fit again) for every strategy x data kind x start x theory configuration; TLC
enumerates every interleaving to depth MaxSteps; the harness walks the whole dumped graph on
real objects (one real fit per Fit action, cheap clones for branching) and records one event per
fit and per reload; spec/FitSessionTrace.tla validates the recorded observations.
"""
import copy
import math
import os
import random
import shutil
import sys
import tempfile
import warnings

sys.path.insert(0, os.path.join(os.path.dirname(os.path.abspath(__file__)), "..", "lib"))
import boot  # noqa
import harness
import quant
import fp
import trace as tracemod

import numpy as np

PID = "C13"

import holopy as hp
from holopy.scattering import Sphere, calc_holo, Mie, MieLens
from holopy.inference import prior, AlphaModel, NmpfitStrategy, LeastSquaresScipyStrategy
from holopy.core.io import serialize
import io as _io

KW = dict(medium_index=1.33, illum_wavelen=0.66, illum_polarization=(1, 0))


def yaml_text(obj):
    b = _io.BytesIO()
    serialize.save(b, obj)
    return b.getvalue()


def problem(cfg, rng, pick=None):
    """generating parameters in a physical box, the model with guesses at truth or nearby"""
    truth = {"r": rng.uniform(0.4, 0.7), "x": rng.uniform(1.3, 1.9), "y": rng.uniform(1.3, 1.9),
             "z": rng.uniform(5.0, 8.0), "alpha": rng.uniform(0.7, 0.95)}
    lens = cfg["theory"] == "mielens_fitted_angle"
    if lens:
        truth["z"] = rng.uniform(2.0, 4.0)
        truth["lens_angle"] = rng.uniform(0.7, 0.9)
    pert = {k: (1.0 if cfg["start"] == "truth" else 1.0 + rng.choice([-1, 1]) * rng.uniform(0.005, 0.02)) for k in truth}
    box = {"r": (0.3, 0.8), "x": (1.0, 2.2), "y": (1.0, 2.2), "z": (1.5, 9.0), "alpha": (0.5, 1.0), "lens_angle": (0.5, 1.1)}
    if cfg["start"] in ("on_lower", "on_upper"):
        # one parameter starts exactly on a bound of its prior, the generating value 1-3 % inside
        k = pick if pick in truth else rng.choice(sorted(truth))
        d = rng.uniform(0.01, 0.03)
        if cfg["start"] == "on_upper":
            box[k] = (box[k][0], truth[k] * (1 + d))
            pert[k] = 1 + 2 * d          # clipped to the bound below
        else:
            box[k] = (truth[k] * (1 - d), box[k][1])
            pert[k] = 1 - 2 * d
    det = hp.detector_grid(16, 0.2)
    th_true = MieLens(lens_angle=truth["lens_angle"]) if lens else Mie()
    data = calc_holo(det, Sphere(n=1.59, r=truth["r"], center=(truth["x"], truth["y"], truth["z"])),
                     scaling=truth["alpha"], theory=th_true, **KW)

    def U(key, lo, hi):
        return prior.Uniform(lo, hi, guess=min(hi, max(lo, truth[key] * pert[key])))
    s = Sphere(n=1.59, r=U("r", *box["r"]), center=(U("x", *box["x"]), U("y", *box["y"]), U("z", *box["z"])))
    theory = MieLens(lens_angle=U("lens_angle", *box["lens_angle"])) if lens else Mie()
    model = AlphaModel(s, alpha=U("alpha", *box["alpha"]), noise_sd=0.05, theory=theory, **KW)
    names = {"r": "r", "x": "center.0", "y": "center.1", "z": "center.2", "alpha": "alpha", "lens_angle": "lens_angle"}
    want = {names[k]: v for k, v in truth.items()}
    npix = 120 if cfg["data"] == "subset" else None
    strat = NmpfitStrategy(npixels=npix, seed=11) if cfg["strategy"] == "nmpfit" else \
        LeastSquaresScipyStrategy(npixels=npix)
    return model, data, strat, want


def fit_event(cfg, model, data, strat, want, first=None):
    m_txt, s_txt, d_fp = yaml_text(model), yaml_text(strat), fp.fingerprint(data)
    np.random.seed(7)
    with warnings.catch_warnings():
        warnings.simplefilter("ignore")
        res = strat.fit(model, data)
    pars = res.parameters
    ev = {"event": "Fit", "cfg": "%(strategy)s/%(data)s/%(start)s/%(theory)s" % cfg}
    ev["names_ok"] = bool(list(pars) == list(model.parameters))
    ev["mb_param_error"] = quant.mb(max(abs(float(pars[k]) - want[k]) / abs(want[k]) for k in want)) \
        if ev["names_ok"] else 20000
    guess = model.initial_guess
    with warnings.catch_warnings():
        warnings.simplefilter("ignore")
        f_res = model.forward(pars, data)
        f_gue = model.forward(guess, data)
        chi_res = float(((f_res - data) ** 2).sum())
        chi_gue = float(((f_gue - data) ** 2).sum())
        ev["misfit_not_worse"] = bool(chi_res <= chi_gue * (1 + 1e-9) + 1e-18)
        ev["within_bounds"] = bool(all(model.parameters[k].lower_bound <= float(v) <= model.parameters[k].upper_bound
                                       for k, v in pars.items()))
        holo = res.hologram
        ev["mb_hologram"] = quant.mb(quant.reldiff(np.asarray(holo.values).ravel(), np.asarray(f_res.values).ravel()))
        lp = res.max_lnprob
        ev["mb_lnprob"] = quant.mb(abs(float(lp) - float(model.lnposterior(pars, res.data))) / max(1.0, abs(float(lp))))
    ev["model_unchanged"] = bool(yaml_text(model) == m_txt)
    ev["strategy_unchanged"] = bool(yaml_text(strat) == s_txt)
    ev["data_unchanged"] = bool(fp.fingerprint(data) == d_fp)
    ev["scratch_clean"] = bool(not any(hasattr(strat, a) for a in ("_model", "_parameters", "_data", "_guess_lnpriors")))
    if first is None:
        ev["mb_repeat"] = -20000
    else:
        ev["mb_repeat"] = quant.mb(max(abs(float(pars[k]) - float(first.parameters[k])) / max(1e-300, abs(float(pars[k])))
                                      for k in pars))
    # a fresh result object for the walk (the reads above filled its caches)
    np.random.seed(7)
    with warnings.catch_warnings():
        warnings.simplefilter("ignore")
        res_clean = strat.fit(model, data)
    return ev, res_clean


def clone(res):
    c = copy.copy(res)
    c._kwargs_keys = list(res._kwargs_keys)
    return c


def reload_event(cfg, snap, loaded, model):
    ev = {"event": "Reload", "cfg": "%(strategy)s/%(data)s/%(start)s/%(theory)s" % cfg}
    ev["names_equal"] = bool(list(loaded.parameters) == list(snap.parameters))
    ev["params_equal"] = bool(ev["names_equal"] and all(float(loaded.parameters[k]) == float(snap.parameters[k])
                                                        for k in snap.parameters))
    ev["model_equal"] = bool(yaml_text(loaded.model) == yaml_text(snap.model))
    ev["strategy_equal"] = bool(yaml_text(loaded.strategy) == yaml_text(snap.strategy))
    a, b = np.asarray(loaded.data.values).ravel(), np.asarray(snap.data.values).ravel()
    ev["data_equal"] = bool(a.shape == b.shape and np.array_equal(np.sort(a), np.sort(b)))
    with warnings.catch_warnings():
        warnings.simplefilter("ignore")
        ev["mb_hologram"] = quant.mb(quant.reldiff(np.asarray(loaded.hologram.values).ravel(),
                                                   np.asarray(clone(snap).hologram.values).ravel()))
        ev["mb_lnprob"] = quant.mb(abs(float(loaded.max_lnprob) - float(clone(snap).max_lnprob)) /
                                   max(1.0, abs(float(clone(snap).max_lnprob))))
    return ev


def run(ctx):
    quick = ctx.tier == "quick"
    rng = random.Random(ctx.seed)
    tmp = tempfile.mkdtemp(prefix="c13_")
    ctx.rule = ("TLC enumerates 32 configurations (nmpfit/scipy x full/subset x start at truth/nearby/on a lower/on "
                "an upper bound of one parameter's prior x Mie/"
                "MieLens with fitted lens angle) and every interleaving of fit, three cache reads, save, load and "
                "a second fit up to MaxSteps; every edge of the graph is executed on real objects; distinct = "
                "(configuration, state); non-trivial = path with a save after at least one cache read or a "
                "second fit")
    ctx.assumptions = ["generating parameters drawn in a physical box with VERIF_SEED; noise-free data",
                       "the global RNG is seeded identically before every fit (subset selection)"]
    traces = []
    try:
        g = ctx.tlc_graph("FitSession", "FitSession.cfg", constants={"MaxSteps": 4 if quick else 5})
        inits = sorted(g.init, key=lambda s: str(sorted(g.states[s]["cfg"].items())))
        if quick:
            # half of the configurations, every (strategy, start) with two of the four (data, theory) pairs
            def keep(c):
                return ((c["data"] == "subset") + (c["theory"] != "mie") + ctx.seed) % 2 == 0
            inits = [s for s in inits if keep(g.states[s]["cfg"])]
        nfile = 0
        for sid in inits:
            cfg = g.states[sid]["cfg"]
            try:
                model, data, strat, want = problem(cfg, rng)
                ev1, res1 = fit_event(cfg, model, data, strat, want)
                ev2, res2 = fit_event(cfg, model, data, strat, want, first=res1)
            except Exception as e:
                ctx.violation("fit/%s/exception" % cfg["strategy"], {"cfg": cfg, "exc": repr(e)[:300]})
                continue
            traces.append([ev1, ev2])
            results = {1: res1, 2: res2}
            if quick and cfg["start"].startswith("on_"):
                # the session walk does not depend on the start; quick walks it for the other starts only
                ctx.case(("fit-only", str(sorted(cfg.items()))), nontrivial=True)
                continue
            # walk the whole graph from this initial state
            stack = [(sid, None, None, None, None)]       # state id, result, file, snapshot at save, loaded
            seen_edges = 0
            while stack:
                cur, res, path, snap, loaded = stack.pop()
                for e in g.out.get(cur, []):
                    st = g.states[e[3]]
                    seen_edges += 1
                    ctx.case(("edge", str(sorted(cfg.items())), cur, e[1], str(e[2])),
                             nontrivial=(e[1] == "Save" and len(g.states[cur]["cached"]) > 0) or st["nfits"] == 2)
                    try:
                        with warnings.catch_warnings():
                            warnings.simplefilter("ignore")
                            if e[1] == "Fit":
                                nres = clone(results[st["nfits"]])
                                stack.append((e[3], nres, None, None, None))
                            elif e[1] == "Read":
                                nres = clone(res)
                                getattr(nres, e[2][0])
                                stack.append((e[3], nres, path, snap, loaded))
                            elif e[1] == "Save":
                                nfile += 1
                                p = os.path.join(tmp, "res_%d.h5" % nfile)
                                hp.save(p, res)
                                stack.append((e[3], res, p, clone(res), loaded))
                            elif e[1] == "Load":
                                ld = hp.load(path)
                                traces.append([reload_event(cfg, snap, ld, model)])
                                traces[-1][0]["cached_at_save"] = sorted(st["loaded"][1])
                                stack.append((e[3], res, path, snap, ld))
                        ctx.trace_ok()
                    except Exception as ex:
                        ctx.violation("session/%s/%s/%s/exception" % (e[1], cfg["strategy"], cfg["data"]),
                                      {"cfg": cfg, "action": e[1], "cached": sorted(g.states[cur]["cached"]),
                                       "exc": repr(ex)[:300]})
            ctx.notes.setdefault("edges_walked", 0)
            ctx.notes["edges_walked"] += seen_edges
            for f in os.listdir(tmp):
                os.remove(os.path.join(tmp, f))
        # more generating parameter sets (thorough) for the numerical clauses
        extra = 0 if quick else 120
        cfgs = [g.states[s]["cfg"] for s in g.init]
        for i in range(extra):
            cfg = cfgs[i % len(cfgs)]
            try:
                model, data, strat, want = problem(cfg, rng)
                ev, _ = fit_event(cfg, model, data, strat, want)
                traces.append([ev])
                ctx.case(("extra", i))
            except Exception as e:
                ctx.violation("fit/%s/exception" % cfg["strategy"], {"cfg": cfg, "exc": repr(e)[:300]})
    finally:
        shutil.rmtree(tmp, ignore_errors=True)
    verdicts = tracemod.validate(ctx, "FitSessionTrace", traces)
    for tr, (acc, line, clauses) in zip(traces, verdicts):
        if acc:
            ctx.trace_ok()
        else:
            ev = tr[line - 1]
            for k in sorted(k for k, v in (clauses or {}).items() if v is False):
                ctx.violation("%s/%s/%s" % (ev["event"].lower(), k, ev["cfg"]), {"event": ev})
    ctx.sample({"trace": traces[0] if traces else None})
    ctx.exhaustive = not quick


if __name__ == "__main__":
    sys.exit(harness.main(PID, run))
