"""C07 — pixel value depends only on position: grids, points, crops, subsets agree.

spec/DetectorViews.tla enumerates every small detector grid (shape incl. 1xN, anisotropic
spacing, shifted origin) and every view of it (whole grid, every crop window, point lists in
several orders) with the exact lattice position of every element; each state is replayed with
real theories: the value at a position must not depend on the view.  Recorded
make_subset_data calls are validated by spec/DetectorViewsTrace.tla (distinct indices,
position-by-index rule, values/metadata kept, reproducible, commutes with the calculation).
"""
import os
import random
import sys

sys.path.insert(0, os.path.join(os.path.dirname(os.path.abspath(__file__)), "..", "lib"))
import boot  # noqa
import harness
import quant
import fp
import trace as tracemod

import numpy as np

PID = "C07"

import holopy as hp
from holopy.scattering import (Sphere, Spheres, Spheroid, calc_holo, calc_field, calc_intensity,
                               Mie, Multisphere, Tmatrix, MieLens)
from holopy.scattering.theory import Lens
from holopy.core.metadata import make_subset_data, update_metadata, detector_points, detector_grid

U = 0.1
OPT = dict(medium_index=1.33, illum_wavelen=0.66, illum_polarization=(0.6, 0.8))


def theories():
    return [
        ("Mie/sphere", Sphere(n=1.59, r=0.5, center=(0.43, 0.31, 5.0)), Mie()),
        ("Mie/layered", Sphere(n=[1.59, 1.42], r=[0.3, 0.55], center=(0.43, 0.31, 5.0)), Mie()),
        ("Multisphere/dimer", Spheres([Sphere(n=1.59, r=0.4, center=(0.2, 0.3, 5.0)),
                                       Sphere(n=1.45, r=0.3, center=(0.9, 0.4, 5.3))]), Multisphere()),
        ("Tmatrix/spheroid", Spheroid(n=1.59, r=(0.4, 0.6), rotation=(0.0, 0.3, 0.2),
                                      center=(0.43, 0.31, 5.0)), None),
        ("MieLens/sphere", Sphere(n=1.59, r=0.5, center=(0.43, 0.31, 5.0)), MieLens(lens_angle=0.9)),
        # the numerical lens wrapper takes detector points at any heights (the analytic theory refuses them)
        ("Lens(Mie)/sphere", Sphere(n=1.59, r=0.5, center=(0.43, 0.31, 5.0)), Lens(0.9, Mie(False, False), 40, 40)),
    ]


def opts_for(name, theory):
    kw = dict(OPT)
    if name.startswith("Tmatrix"):
        kw["illum_polarization"] = (1, 0)     # the T-matrix theory accepts only x polarisation
    if theory is not None:
        kw["theory"] = theory
    return kw


DZ = 0.37      # height step of the two-height point lists


def make_grid(gr):
    det = detector_grid(shape=(gr["nx"], gr["ny"]), spacing=(gr["sx"] * U, gr["sy"] * U), name="det")
    det = det.assign_coords(x=det.x.values + gr["ox"] * U, y=det.y.values + gr["oy"] * U)
    return det


def by_position(res):
    """{(X, Y) lattice ints: value} from a grid, flat or point result"""
    out = {}
    if "point" in res.dims or "flat" in res.dims:
        d = "point" if "point" in res.dims else "flat"
        xs, ys = res.x.values, res.y.values
        vals = res.values.reshape(len(xs), -1)
        for k in range(len(xs)):
            out[(int(round(xs[k] / U)), int(round(ys[k] / U)))] = vals[k]
    else:
        r = res.transpose("x", "y", *[dd for dd in res.dims if dd not in ("x", "y")])
        for i, x in enumerate(r.x.values):
            for j, y in enumerate(r.y.values):
                out[(int(round(x / U)), int(round(y / U)))] = np.asarray(r.values[i, j]).ravel()
    return out


def _shared_det():
    det = make_grid({"nx": 4, "ny": 3, "sx": 1, "sy": 2, "ox": 0, "oy": 5})
    return update_metadata(det, noise_sd=0.1, **OPT)


def job_no_radial_fresh():
    """in a fresh interpreter: the no-radial-component Mie hologram, nothing else ever calculated"""
    import hashlib
    name, scat, theory = theories()[0]
    r = calc_holo(_shared_det(), scat, **opts_for("Mie/no_radial", Mie(False, True)))
    return hashlib.sha1(np.ascontiguousarray(r.values).tobytes()).hexdigest()


def run(ctx):
    quick = ctx.tier == "quick"
    rng = random.Random(ctx.seed)
    nprng = np.random.default_rng(ctx.seed)
    ctx.rule = ("TLC enumerates all grids up to MaxN x MaxN (incl. 1xN) x 2 spacings per axis x 2 "
                "origins per axis x every crop window x 3 point orders x 3 two-height point lists, with exact element positions; "
                "each state is replayed with a real theory (rotating over Mie, layered Mie, "
                "Multisphere, T-matrix, MieLens, Lens(Mie)); distinct = (grid, view, theory); non-trivial = "
                "view differs from the plain grid")
    ctx.assumptions = ["values compared at 1e-12 (vectorised kernels may differ in the last ulp between array lengths)"]
    tol = quant.from_mb(quant.tol("Tol_view_commute"))
    g = ctx.tlc_graph("DetectorViews", "DetectorViews.cfg", constants={"MaxN": 3 if quick else 4})
    th = theories()
    states = list(g.states.values())
    if quick:
        states = rng.sample(states, 700)
    full = {}
    for n, st in enumerate(states):
        gr, view, pos = st["grid"], st["view"], st["pos"]
        name, scat, theory = th[n % len(th)]
        gkey = (tuple(sorted(gr.items())), name)
        kw = opts_for(name, theory)
        det = make_grid(gr)
        before = fp.fingerprint(det)
        ctx.case((gkey, tuple(sorted((k, str(v)) for k, v in view.items()))),
                 nontrivial=view["kind"] != "grid")
        try:
            if gkey not in full:
                full[gkey] = by_position(calc_holo(det, scat, **kw))
            ref = full[gkey]
            if view["kind"] == "points3":
                # the same lattice at the detector plane (H = 0) and DZ above it (H = 1) in one list
                hkey = gkey + ("upper",)
                if hkey not in full:
                    full[hkey] = by_position(calc_holo(det.assign_coords(z=det.z.values + DZ), scat, **kw))
                ref = {(p[0], p[1], 0): v for p, v in full[gkey].items()}
                ref.update({(p[0], p[1], 1): v for p, v in full[hkey].items()})
            if view["kind"] == "grid":
                vdet = det
            elif view["kind"] == "crop":
                lo, sh = view["lo"], view["sh"]
                vdet = det.isel(x=slice(lo[0], lo[0] + sh[0]), y=slice(lo[1], lo[1] + sh[1]))
            elif view["kind"] == "points3":
                xs = np.array([p[0] * U for p in pos])
                ys = np.array([p[1] * U for p in pos])
                vdet = detector_points(x=xs, y=ys, z=np.array([p[2] * DZ for p in pos]))
            else:
                xs = np.array([p[0] * U for p in pos])
                ys = np.array([p[1] * U for p in pos])
                vdet = detector_points(x=xs, y=ys, z=0.0)
            vbefore = fp.fingerprint(vdet)
            res = calc_holo(vdet, scat, **kw)
            if view["kind"] == "points3":
                zs = np.round(np.asarray(vdet.z.values) / DZ).astype(int)
                vals = res.values.reshape(len(xs), -1)
                got = {(int(round(xs[k] / U)), int(round(ys[k] / U)), int(zs[k])): vals[k] for k in range(len(xs))}
            if view["kind"] == "points" and not hasattr(res, "x"):
                # the result of a point detector carries no x/y coordinates (reported under C01);
                # element k of the result belongs to point k of the detector
                res = res.assign_coords(x=("point", vdet.x.values), y=("point", vdet.y.values))
            if view["kind"] != "points3":
                got = by_position(res)
        except Exception as e:
            if view["kind"] == "points3" and name.startswith("MieLens") and isinstance(e, ValueError) \
                    and "fixed z" in str(e):
                ctx.trace_ok()      # the lens theory states that it needs one detector height: a clear refusal
                continue
            ctx.violation("view/%s/exception" % view["kind"], {"grid": gr, "view": view, "theory": name,
                                                              "exc": repr(e)})
            continue
        want_pos = [tuple(p) for p in pos]
        bad = None
        if sorted(got) != sorted(set(want_pos)):
            bad = ("positions", {"impl": sorted(got), "spec": sorted(set(want_pos))})
        else:
            worst = max(float(np.max(np.abs(got[p] - ref[p]))) for p in got)
            if worst > tol or not all(np.all(np.isfinite(v)) for v in got.values()):
                bad = ("value_depends_on_view", {"defect": worst})
            elif view["kind"] == "points":
                # order of the result follows the order of the supplied points
                xs = np.round(res.x.values / U).astype(int).tolist()
                ys = np.round(res.y.values / U).astype(int).tolist()
                if list(zip(xs, ys)) != want_pos:
                    bad = ("point_order", {"impl": list(zip(xs, ys))[:6], "spec": want_pos[:6]})
        if bad is None and (fp.fingerprint(det) != before or fp.fingerprint(vdet) != vbefore):
            bad = ("input_modified", {})
        if bad:
            ctx.violation("view/%s/%s" % (view["kind"], bad[0]),
                          dict(bad[1], grid=gr, view=view, theory=name))
        else:
            ctx.trace_ok()
    ctx.sample({"grid": gr, "view": {k: (list(v) if isinstance(v, tuple) else v) for k, v in view.items()},
                "positions": [list(p) for p in pos][:8], "theory": name})

    # ---------------- subsets: recorded and validated by the trace specification -----------------
    traces = []
    cfgs = [(1, 3), (3, 1), (2, 2), (3, 4), (4, 4), (1, 7), (5, 3)]
    cfgs += [(int(nprng.integers(2, 12)), int(nprng.integers(2, 12))) for _ in range(4 if quick else 40)]
    nth = 0
    nfull = 0
    for (nx, ny) in cfgs:
        tot = nx * ny
        ks = sorted({1, 2, 3, tot, max(1, tot // 2)} & set(range(1, tot + 1)))
        for k in ks:
            for seed in ([0, 7] if quick else [0, 1, 7, 123456]):
                name, scat, theory = th[nth % len(th)]
                nth += 1
                kw = opts_for(name, theory)
                gr = {"nx": nx, "ny": ny, "sx": 1, "sy": 2, "ox": 3, "oy": -1}
                det = make_grid(gr)
                img = det.copy()
                img.values[...] = nprng.normal(size=img.shape)
                img = update_metadata(img, noise_sd=0.07, **OPT)
                keep = fp.fingerprint(img)
                ctx.case(("subset", nx, ny, k, seed, name), nontrivial=k < tot)
                try:
                    sub, sel = make_subset_data(img, pixels=k, seed=seed, return_selection=True)
                    sub2, sel2 = make_subset_data(img, pixels=k, seed=seed, return_selection=True)
                    xi = np.round((sub.x.values - gr["ox"] * U) / (gr["sx"] * U)).astype(int)
                    yj = np.round((sub.y.values - gr["oy"] * U) / (gr["sy"] * U)).astype(int)
                    flatvals = img.transpose("z", "x", "y").values[0]
                    ok_sel = bool(np.all((np.asarray(sel) >= 0) & (np.asarray(sel) < tot)))
                    values_kept = ok_sel and bool(np.array_equal(
                        sub.values.ravel(), flatvals.ravel()[np.asarray(sel)]))
                    attrs_kept = all(fp.same(sub.attrs.get(a), img.attrs.get(a)) for a in
                                     ("medium_index", "illum_wavelen", "illum_polarization", "noise_sd")) \
                        and sub.name == img.name
                    od = sub.attrs.get("original_dims", {})
                    orig_ok = (set(od) >= {"x", "y"} and np.array_equal(od["x"], img.x.values)
                               and np.array_equal(od["y"], img.y.values))
                    # selecting commutes with the forward calculation
                    h_grid = calc_holo(img, scat, **kw)
                    h_sub = calc_holo(sub, scat, **kw)
                    h_sel = make_subset_data(h_grid, pixels=k, seed=seed)
                    d1 = float(np.max(np.abs(h_sub.values.ravel() - h_sel.values.ravel())))
                    ref = by_position(h_grid)
                    gotp = by_position(h_sub)
                    d2 = max(float(np.max(np.abs(gotp[p] - ref[p]))) for p in gotp) if set(gotp) <= set(ref) else float("inf")
                    # the full frame rebuilt from what the subset remembers (a fit result's model image) has the
                    # values of the direct calculation at the same positions
                    if nx >= 2 and ny >= 2:
                        from holopy.inference import ExactModel
                        from holopy.inference.result import FitResult
                        mdl = ExactModel(scat, calc_holo, theory=theory if theory is not None else "auto",
                                         illum_polarization=kw["illum_polarization"])
                        full = FitResult(sub, mdl, None, 0.0, {"intervals": []}).hologram
                        gotf = by_position(full)
                        d3 = max(float(np.max(np.abs(gotf[p] - ref[p]))) for p in ref) if set(gotf) == set(ref) else float("inf")
                        d2 = max(d2, d3)
                        nfull += 1
                    traces.append([{
                        "event": "Subset", "nx": nx, "ny": ny, "k": k, "seed": seed,
                        "sel": [int(s) for s in sel], "xi": [int(v) for v in xi], "yj": [int(v) for v in yj],
                        "values_kept": bool(values_kept), "attrs_kept": bool(attrs_kept),
                        "orig_dims_ok": bool(orig_ok),
                        "same_seed_same_selection": bool(np.array_equal(sel, sel2) and fp.same(sub, sub2)),
                        "input_untouched": bool(fp.fingerprint(img) == keep),
                        "mb_commute": quant.mb(max(d1, d2)), "theory": name}])
                except Exception as e:
                    ctx.violation("subset/exception", {"shape": [nx, ny], "k": k, "seed": seed,
                                                       "theory": name, "exc": repr(e)})
    # sparse subsets of a large image (well under one pixel in a hundred): still distinct pixels, the same again
    for (nx, ny, k) in ((128, 100, 60), (100, 128, 100), (90, 90, 45)):
        for seed in (range(0, 6) if quick else range(0, 40)):
            ctx.case(("subset_sparse", nx, ny, k, seed), nontrivial=True)
            try:
                big = detector_grid((nx, ny), (0.1, 0.2)).copy()
                big.values[...] = nprng.normal(size=big.shape)
                big = update_metadata(big, noise_sd=0.07, **OPT)
                keep = fp.fingerprint(big)
                sub, sel = make_subset_data(big, pixels=k, seed=seed, return_selection=True)
                sub2, sel2 = make_subset_data(big, pixels=k, seed=seed, return_selection=True)
                flatvals = big.transpose("z", "x", "y").values[0].ravel()
                traces.append([{
                    "event": "Subset", "nx": nx, "ny": ny, "k": k, "seed": seed, "sel": [int(v) for v in sel],
                    "xi": [int(v) for v in np.round(sub.x.values / 0.1).astype(int)],
                    "yj": [int(v) for v in np.round(sub.y.values / 0.2).astype(int)],
                    "values_kept": bool(np.array_equal(sub.values.ravel(), flatvals[np.asarray(sel)])),
                    "attrs_kept": bool(fp.same(sub.attrs.get("illum_wavelen"), big.attrs.get("illum_wavelen"))),
                    "orig_dims_ok": bool(np.array_equal(sub.attrs["original_dims"]["x"], big.x.values)),
                    "same_seed_same_selection": bool(np.array_equal(sel, sel2) and fp.same(sub, sub2)),
                    "input_untouched": bool(fp.fingerprint(big) == keep), "mb_commute": -20000, "theory": "none (sparse subset)"}])
            except Exception as e:
                ctx.violation("subset/exception", {"shape": [nx, ny], "k": k, "seed": seed, "theory": "sparse", "exc": repr(e)[:300]})
    # a subset of an image with a further axis (two colour channels) remembers that axis too
    for (nx, ny, k, seed) in ((3, 4, 5, 0), (4, 4, 16, 7), (2, 5, 1, 3)):
        ctx.case(("subset_multichannel", nx, ny, k, seed), nontrivial=True)
        try:
            img = detector_grid((nx, ny), (0.1, 0.2), extra_dims={"illumination": ["red", "green"]})
            img = img.copy()
            img.values[...] = nprng.normal(size=img.shape)
            img = update_metadata(img, noise_sd=0.07, medium_index=1.33, illum_wavelen={"red": 0.66, "green": 0.52},
                                  illum_polarization=(1, 0))
            keep = fp.fingerprint(img)
            sub, sel = make_subset_data(img, pixels=k, seed=seed, return_selection=True)
            sub2, sel2 = make_subset_data(img, pixels=k, seed=seed, return_selection=True)
            od = sub.attrs.get("original_dims", {})
            orig_ok = (set(od) == set(img.dims) and all(np.array_equal(od[d_], img[d_].values) for d_ in img.dims))
            stacked = img.stack(flat=("x", "y", "z"))
            values_kept = all(np.array_equal(sub.sel(illumination=c).values.ravel(), stacked.sel(illumination=c).values.ravel()[np.asarray(sel)])
                              for c in ("red", "green"))
            traces.append([{
                "event": "Subset", "nx": nx, "ny": ny, "k": k, "seed": seed, "sel": [int(v) for v in sel],
                "xi": [int(v) for v in np.round(sub.x.values / 0.1).astype(int)],
                "yj": [int(v) for v in np.round(sub.y.values / 0.2).astype(int)],
                "values_kept": bool(values_kept), "attrs_kept": bool(fp.same(sub.attrs.get("illum_wavelen"), img.attrs.get("illum_wavelen"))),
                "orig_dims_ok": bool(orig_ok), "same_seed_same_selection": bool(np.array_equal(sel, sel2) and fp.same(sub, sub2)),
                "input_untouched": bool(fp.fingerprint(img) == keep), "mb_commute": -20000, "theory": "none (two-colour image)"}])
        except Exception as e:
            ctx.violation("subset/exception", {"shape": [nx, ny], "k": k, "seed": seed, "theory": "two-colour image", "exc": repr(e)[:300]})
    ctx.notes["full_frames_rebuilt_from_subsets"] = nfull
    if nfull < 10:
        raise harness.MachineryError("only %d full frames rebuilt from subsets" % nfull)
    verdicts = tracemod.validate(ctx, "DetectorViewsTrace", traces)
    for tr, (acc, line, clauses) in zip(traces, verdicts):
        if acc:
            ctx.trace_ok()
        else:
            ev = tr[line - 1]
            bad = [k for k, v in (clauses or {}).items() if v is False]
            ctx.violation("subset/%s" % ",".join(bad), {"event": ev})
    ctx.sample({"trace": traces[len(traces) // 2]})

    # ---------------- a sequence of calculations sharing one detector object ----------------------
    det = make_grid({"nx": 4, "ny": 3, "sx": 1, "sy": 2, "ox": 0, "oy": 5})
    det = update_metadata(det, noise_sd=0.1, **OPT)
    keep = fp.fingerprint(det)
    ids = (id(det.attrs), id(det.values))
    first = {}
    # the solver options of one theory class are independent calculations too: Mie without the radial
    # component before and after the default Mie
    th_seq = list(th) + [("Mie/no_radial", th[0][1], Mie(False, True))]
    order = list(range(len(th_seq))) * 2
    rng.shuffle(order)
    order = [len(th_seq) - 1, 0, len(th_seq) - 1] + order
    for n, i in enumerate(order):
        name, scat, theory = th_seq[i]
        kw = opts_for(name, theory)
        f = [calc_holo, calc_field, calc_intensity][n % 3]
        r = f(det, scat, **kw)
        ctx.case(("shared", n, name, f.__name__))
        key = (name, f.__name__)
        if key in first and not np.array_equal(first[key], r.values):
            ctx.violation("shared_detector/result_changed", {"theory": name, "call": f.__name__})
        first.setdefault(key, r.values.copy())
        if fp.fingerprint(det) != keep:
            ctx.violation("shared_detector/detector_modified", {"theory": name, "call": f.__name__, "n": n})
            break
        ctx.trace_ok()
    # ... and sharing one THEORY object while the same particle sits at other heights and the points lie
    # in other planes: every value must be what a pristine theory object gives
    import copy as _copy
    def pristine(name):          # a theory object nothing has been calculated with
        return {n_: t_ for n_, _s, t_ in theories()}[name]
    for name, scat, theory in th:
        if theory is None or not hasattr(scat, "center") or scat.center is None:
            continue
        cx, cy, cz = [float(v) for v in scat.center]
        plan = [(cz, 0.0), (cz - 1.3, 0.0), (cz, 0.41), (cz - 1.3, 0.41), (cz, 0.0)]
        for n_, (h_, dz_) in enumerate(plan):
            ctx.case(("shared_theory", name, n_), nontrivial=n_ > 0)
            s2 = scat.translated(0.0, 0.0, h_ - cz)
            d2 = det.assign_coords(z=det.z.values + dz_)
            kw = opts_for(name, theory)
            kwp = dict(kw, theory=pristine(name))
            try:
                a = calc_holo(d2, s2, **kw).values
                b = calc_holo(d2, s2, **kwp).values
            except Exception as ex:
                ctx.violation("shared_theory/exception", {"theory": name, "step": n_, "exc": repr(ex)[:200]})
                break
            if not np.allclose(a, b, rtol=0, atol=1e-12):
                ctx.violation("shared_theory/value_depends_on_earlier_calls", {"theory": name, "step": n_, "height": h_, "plane": dz_,
                                                                              "defect": float(np.max(np.abs(a - b)))})
                break
            ctx.trace_ok()
    # the same no-radial calculation in this interpreter (after everything above) and in a fresh one
    import hashlib, isolate
    ctx.case(("fresh_process", "Mie/no_radial"), nontrivial=True)
    rfresh = isolate.run_jobs([("c07:job_no_radial_fresh", {})])[0]
    if rfresh is None or rfresh["outcome"] != "returned":
        raise harness.MachineryError("fresh-process baseline failed: %r" % (rfresh,))
    rhere = calc_holo(_shared_det(), theories()[0][1], **opts_for("Mie/no_radial", Mie(False, True)))
    if hashlib.sha1(np.ascontiguousarray(rhere.values).tobytes()).hexdigest() != rfresh["result"]:
        ctx.violation("shared_detector/result_depends_on_process_history", {"theory": "Mie(False, True)"})
    else:
        ctx.trace_ok()
    if not quick:
        # the repository's own test-suite under the recorder: Frame and Deterministic on every
        # public call those tests make (spec/Session.tla)
        import session
        session.validate(ctx)
    ctx.exhaustive = not quick


if __name__ == "__main__":
    sys.exit(harness.main(PID, run))
