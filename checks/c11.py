"""C11 — model parameters map to exactly the places their priors were used.

spec/ParamMap.tla is model-checked exhaustively (TLC), its state graph is dumped, and every
behaviour of the graph (construction, then every add_tie edge, accepted or rejected) is
replayed into real holopy Model objects for every structural template; after every action the
projection of the real model must equal the specification state.
"""
import copy
import io
import itertools
import os
import random
import sys
import warnings

sys.path.insert(0, os.path.join(os.path.dirname(os.path.abspath(__file__)), "..", "lib"))
import boot  # noqa
import harness
import tlc as tlcmod
from graph import Graph

import numpy as np

PID = "C11"


# ----------------------------------------------------------------------------------------
# real objects
def imports():
    import holopy as hp
    from holopy.scattering import Sphere, Spheres, RigidCluster, MieLens, Mie, Scatterers, AberratedMieLens
    from holopy.inference import prior, AlphaModel, ExactModel
    from holopy.core.mapping import read_map
    return locals()


H = imports()
prior = H["prior"]
Sphere, Spheres, RigidCluster = H["Sphere"], H["Spheres"], H["RigidCluster"]
NOTES = {}
AlphaModel, ExactModel, MieLens = H["AlphaModel"], H["ExactModel"], H["MieLens"]

FIXED = [1.71, 0.62, 2.53, 3.94, 1.15, 0.86, 4.07, 5.08]     # per-site fixed values
SENT = [1.013, 1.127, 1.239, 1.351, 1.463, 1.577, 1.681, 1.793]  # per-parameter sentinels


def make_priors(naming):
    """prior objects 1..4.  1,2 (and only they) are equal by value; names per pattern."""
    names = {1: (None, None, None, None),
             2: ("n", None, None, None),        # explicit name collides with a generated one
             3: ("a", "a", None, None),         # two explicit names collide
             4: (None, None, "r_0", "n_0"),     # explicit names shaped like de-dup suffixes
             }[naming]
    p1 = prior.Uniform(1.0, 3.0, guess=1.5, name=names[0])
    p2 = prior.Uniform(1.0, 3.0, guess=1.5, name=names[1])
    p3 = prior.Gaussian(1.25, 0.5, name=names[2])
    p4 = prior.Uniform(0.5, 9.0, guess=2.25, name=names[3])
    return {1: p1, 2: p2, 3: p3, 4: p4}


class Template:
    """N leaf sites in the Mapper's traversal order.  build(vals) -> model;
    observe(model, pars) -> tuple of observables; expect(leafvals) -> same tuple computed
    from the value each leaf must have."""
    name = ""
    nsites = 0
    scat_sites = 0      # sites 1..scat_sites are scatterer arguments (one identity domain)

    def expect(self, v):
        return tuple(v)


def _scat_from(model, pars):
    return model.scatterer_from_parameters(pars)


class TSphere(Template):
    name = "sphere(n,r,x,y)"
    nsites = 4
    scat_sites = 4

    def build(self, v):
        return AlphaModel(Sphere(n=v[0], r=v[1], center=(v[2], v[3], 5.0)), alpha=0.8,
                          medium_index=1.33, illum_wavelen=0.66,
                          illum_polarization=(1, 0), noise_sd=0.1)

    def observe(self, model, pars):
        s = _scat_from(model, pars)
        return (s.n, s.r, s.center[0], s.center[1])


class TSphereOpticsAlpha(Template):
    name = "sphere(n,r)+medium_index+alpha"
    nsites = 4
    scat_sites = 2

    def build(self, v):
        return AlphaModel(Sphere(n=v[0], r=v[1], center=(1.0, 1.0, 5.0)), alpha=v[3],
                          medium_index=v[2], illum_wavelen=0.66,
                          illum_polarization=(1, 0), noise_sd=0.1)

    def observe(self, model, pars):
        s = _scat_from(model, pars)
        lst = model.ensure_parameters_are_listlike(pars)
        opt = model._find_optics(lst, None)
        alpha = H["read_map"](model._maps['model'], lst)['alpha']
        return (s.n, s.r, opt['medium_index'], alpha)


class TSpheres2(Template):
    name = "spheres[2](n,r each)"
    nsites = 4
    scat_sites = 4

    def build(self, v):
        sc = Spheres([Sphere(n=v[0], r=v[1], center=(0.0, 0.0, 10.0)),
                      Sphere(n=v[2], r=v[3], center=(20.0, 0.0, 10.0))], warn=False)
        return AlphaModel(sc, alpha=0.8, medium_index=1.33, illum_wavelen=0.66,
                          illum_polarization=(1, 0), noise_sd=0.1, theory=H["Mie"]())

    def observe(self, model, pars):
        s = _scat_from(model, pars)
        a, b = s.scatterers
        return (a.n, a.r, b.n, b.r)


class TNested(Template):
    name = "scatterers[sphere(n), spheres[sphere(r), sphere(n,r)]] (nested)"
    nsites = 4
    scat_sites = 4

    def build(self, v):
        inner = Spheres([Sphere(n=1.45, r=v[1], center=(20.0, 0.0, 10.0)),
                         Sphere(n=v[2], r=v[3], center=(0.0, 20.0, 10.0))], warn=False)
        sc = H["Scatterers"]([Sphere(n=v[0], r=0.5, center=(0.0, 0.0, 10.0)), inner])
        return AlphaModel(sc, alpha=0.8, medium_index=1.33, illum_wavelen=0.66,
                          illum_polarization=(1, 0), noise_sd=0.1, theory=H["Mie"]())

    def observe(self, model, pars):
        s = _scat_from(model, pars)
        a, inner = s.scatterers
        b, c = inner.scatterers
        return (a.n, b.r, c.n, c.r)


class TLayered(Template):
    name = "layered sphere n=[.,.] r=[.,.]"
    nsites = 4
    scat_sites = 4

    def build(self, v):
        return AlphaModel(Sphere(n=[v[0], v[1]], r=[v[2], v[3]], center=(1.0, 1.0, 5.0)),
                          alpha=0.8, medium_index=1.33, illum_wavelen=0.66,
                          illum_polarization=(1, 0), noise_sd=0.1)

    def observe(self, model, pars):
        s = _scat_from(model, pars)
        return (s.n[0], s.n[1], s.r[0], s.r[1])


class TComplex(Template):
    name = "sphere n=ComplexPrior(re,im), r, x"
    nsites = 4
    scat_sites = 4

    def build(self, v):
        if isinstance(v[0], prior.Prior) or isinstance(v[1], prior.Prior):
            n = prior.ComplexPrior(v[0], v[1])
        else:
            n = complex(v[0], v[1])
        return AlphaModel(Sphere(n=n, r=v[2], center=(v[3], 1.0, 5.0)), alpha=0.8,
                          medium_index=1.33, illum_wavelen=0.66,
                          illum_polarization=(1, 0), noise_sd=0.1)

    def observe(self, model, pars):
        s = _scat_from(model, pars)
        return (complex(s.n), s.r, s.center[0])

    def expect(self, v):
        return (complex(v[0], v[1]), v[2], v[3])


class TArith(Template):
    name = "sphere n, r = a + b (arithmetic on priors), z = 2*c"
    nsites = 4
    scat_sites = 4

    def build(self, v):
        r = v[1] + v[2]
        z = 2 * v[3]
        return AlphaModel(Sphere(n=v[0], r=r, center=(1.0, 1.0, z)), alpha=0.8,
                          medium_index=1.33, illum_wavelen=0.66,
                          illum_polarization=(1, 0), noise_sd=0.1)

    def observe(self, model, pars):
        s = _scat_from(model, pars)
        return (s.n, s.r, s.center[2])

    def expect(self, v):
        return (v[0], v[1] + v[2], 2 * v[3])


class TArithReflected(Template):
    name = "sphere n = 3 - a, r = 1 / b, x = c ** 2, z = 20 - d (number on the left of the operator)"
    nsites = 4
    scat_sites = 4

    def build(self, v):
        return AlphaModel(Sphere(n=3.0 - v[0], r=1.0 / v[1], center=(v[2] ** 2, 1.0, 20 - v[3])), alpha=0.8,
                          medium_index=1.33, illum_wavelen=0.66,
                          illum_polarization=(1, 0), noise_sd=0.1)

    def observe(self, model, pars):
        s = _scat_from(model, pars)
        return (s.n, s.r, s.center[0], s.center[2])

    def expect(self, v):
        return (3.0 - v[0], 1.0 / v[1], v[2] ** 2, 20 - v[3])


class TChannels(Template):
    name = "per-channel dicts: illum_wavelen{red,green}, alpha{red,green}"
    nsites = 4
    scat_sites = 0

    def build(self, v):
        return AlphaModel(Sphere(n=1.59, r=0.5, center=(1.0, 1.0, 5.0)),
                          alpha={'red': v[2], 'green': v[3]}, medium_index=1.33,
                          illum_wavelen={'red': v[0], 'green': v[1]},
                          illum_polarization=(1, 0), noise_sd=0.1)

    def observe(self, model, pars):
        lst = model.ensure_parameters_are_listlike(pars)
        opt = model._find_optics(lst, None)
        alpha = H["read_map"](model._maps['model'], lst)['alpha']
        wl = opt['illum_wavelen']
        return (wl['red'], wl['green'], alpha['red'], alpha['green'])


class TTheory(Template):
    name = "sphere(n,r) + MieLens(lens_angle) + alpha"
    nsites = 4
    scat_sites = 2

    def build(self, v):
        return AlphaModel(Sphere(n=v[0], r=v[1], center=(1.0, 1.0, 5.0)), alpha=v[3],
                          medium_index=1.33, illum_wavelen=0.66,
                          illum_polarization=(1, 0), noise_sd=0.1,
                          theory=MieLens(lens_angle=v[2]))

    def observe(self, model, pars):
        s = _scat_from(model, pars)
        th = model.theory_from_parameters(pars)
        lst = model.ensure_parameters_are_listlike(pars)
        alpha = H["read_map"](model._maps['model'], lst)['alpha']
        if type(th).__name__ != "MieLens":
            raise AssertionError("theory_from_parameters changed the theory class")
        return (s.n, s.r, th.lens_angle, alpha)


class TTheoryArray(Template):
    name = "sphere(n) + AberratedMieLens(spherical_aberration=array[., .], lens_angle) (priors inside an array)"
    nsites = 4
    scat_sites = 1

    def build(self, v):
        import numpy as _np
        ab = _np.array([v[1], v[2]], dtype=object) if any(isinstance(x, prior.Prior) for x in (v[1], v[2])) \
            else _np.array([v[1], v[2]])
        return AlphaModel(Sphere(n=v[0], r=0.5, center=(1.0, 1.0, 5.0)), alpha=0.8,
                          medium_index=1.33, illum_wavelen=0.66, illum_polarization=(1, 0), noise_sd=0.1,
                          theory=H["AberratedMieLens"](spherical_aberration=ab, lens_angle=v[3]))

    def observe(self, model, pars):
        s = _scat_from(model, pars)
        th = model.theory_from_parameters(pars)
        ab = list(th.spherical_aberration)
        return (s.n, ab[0], ab[1], th.lens_angle)


class TRigid(Template):
    name = "RigidCluster(spheres n0,n1; rotation gamma; translation x)"
    nsites = 4
    scat_sites = 4

    def _spheres(self, n0, n1):
        return Spheres([Sphere(n=n0, r=0.5, center=(0.0, 0.0, 0.0)),
                        Sphere(n=n1, r=0.5, center=(2.0, 0.0, 0.0))], warn=False)

    def build(self, v):
        sc = RigidCluster(self._spheres(v[0], v[1]), rotation=(0.3, 0.4, v[2]),
                          translation=(v[3], 1.0, 10.0))
        return ExactModel(sc, medium_index=1.33, illum_wavelen=0.66,
                          illum_polarization=(1, 0), noise_sd=0.1, theory=H["Mie"]())

    def observe(self, model, pars):
        s = _scat_from(model, pars)
        out = []
        for m in s.scatterers:
            out += [m.n, m.r] + [float(c) for c in m.center]
        return tuple(out)

    def expect(self, v):
        s = self._spheres(v[0], v[1]).rotated((0.3, 0.4, v[2])).translated((v[3], 1.0, 10.0))
        out = []
        for m in s.scatterers:
            out += [m.n, m.r] + [float(c) for c in m.center]
        return tuple(out)


class TRigidAxis(TRigid):
    name = "RigidCluster(spheres n0,n1; rotation (alpha, 0, 0); translation x)"

    def build(self, v):
        sc = RigidCluster(self._spheres(v[0], v[1]), rotation=(v[2], 0.0, 0.0), translation=(v[3], 1.0, 10.0))
        return ExactModel(sc, medium_index=1.33, illum_wavelen=0.66,
                          illum_polarization=(1, 0), noise_sd=0.1, theory=H["Mie"]())

    def expect(self, v):
        # rotation about z by alpha, written out (not through the library's own rotated())
        import math
        ca, sa = math.cos(v[2]), math.sin(v[2])
        out = []
        for n_, c in ((v[0], (0.0, 0.0, 0.0)), (v[1], (2.0, 0.0, 0.0))):
            dx, dy = c[0] - 1.0, c[1]            # a rigid cluster turns about its centroid (1, 0, 0)
            x, y = 1.0 + ca * dx - sa * dy, sa * dx + ca * dy
            out += [n_, 0.5, x + v[3], y + 1.0, c[2] + 10.0]
        return tuple(out)


class TSphere6(Template):
    name = "sphere(n,r,x,y,z)+alpha"
    nsites = 6
    scat_sites = 5

    def build(self, v):
        return AlphaModel(Sphere(n=v[0], r=v[1], center=(v[2], v[3], v[4])), alpha=v[5],
                          medium_index=1.33, illum_wavelen=0.66,
                          illum_polarization=(1, 0), noise_sd=0.1)

    def observe(self, model, pars):
        s = _scat_from(model, pars)
        lst = model.ensure_parameters_are_listlike(pars)
        alpha = H["read_map"](model._maps['model'], lst)['alpha']
        return (s.n, s.r, s.center[0], s.center[1], s.center[2], alpha)


class TSpheres3(Template):
    name = "spheres[3](n,r each)"
    nsites = 6
    scat_sites = 6

    def build(self, v):
        sc = Spheres([Sphere(n=v[0], r=v[1], center=(0.0, 0.0, 10.0)),
                      Sphere(n=v[2], r=v[3], center=(20.0, 0.0, 10.0)),
                      Sphere(n=v[4], r=v[5], center=(0.0, 20.0, 10.0))], warn=False)
        return AlphaModel(sc, alpha=0.8, medium_index=1.33, illum_wavelen=0.66,
                          illum_polarization=(1, 0), noise_sd=0.1, theory=H["Mie"]())

    def observe(self, model, pars):
        s = _scat_from(model, pars)
        return tuple(x for m in s.scatterers for x in (m.n, m.r))


class TMixed6(Template):
    name = "spheres[2]: n=ComplexPrior / layered r, + alpha dict"
    nsites = 6
    scat_sites = 4

    def build(self, v):
        if isinstance(v[0], prior.Prior) or isinstance(v[1], prior.Prior):
            n = prior.ComplexPrior(v[0], v[1])
        else:
            n = complex(v[0], v[1])
        sc = Spheres([Sphere(n=n, r=0.5, center=(0.0, 0.0, 10.0)),
                      Sphere(n=[1.4, 1.5], r=[v[2], v[3]], center=(20.0, 0.0, 10.0))],
                     warn=False)
        return AlphaModel(sc, alpha={'red': v[4], 'green': v[5]}, medium_index=1.33,
                          illum_wavelen={'red': 0.66, 'green': 0.52},
                          illum_polarization=(1, 0), noise_sd=0.1, theory=H["Mie"]())

    def observe(self, model, pars):
        s = _scat_from(model, pars)
        lst = model.ensure_parameters_are_listlike(pars)
        alpha = H["read_map"](model._maps['model'], lst)['alpha']
        a, b = s.scatterers
        return (complex(a.n), b.r[0], b.r[1], alpha['red'], alpha['green'])

    def expect(self, v):
        return (complex(v[0], v[1]), v[2], v[3], v[4], v[5])


TEMPLATES = {4: [TSphere(), TSphereOpticsAlpha(), TSpheres2(), TLayered(), TComplex(),
                 TArith(), TArithReflected(), TChannels(), TTheory(), TTheoryArray(), TRigid(), TRigidAxis(), TNested()],
             6: [TSphere6(), TSpheres3(), TMixed6()]}


# ----------------------------------------------------------------------------------------
def close(a, b):
    try:
        if isinstance(a, complex) or isinstance(b, complex):
            return abs(complex(a) - complex(b)) <= 1e-12 * max(1.0, abs(complex(b)))
        return abs(float(a) - float(b)) <= 1e-12 * max(1.0, abs(float(b)))
    except Exception:
        return False


def mutable_ids(obj, seen=None, depth=0):
    """ids of mutable containers reachable from a scatterer"""
    out = set()
    if depth > 6:
        return out
    if isinstance(obj, (list, dict, np.ndarray)):
        out.add(id(obj))
    if isinstance(obj, (list, tuple)):
        for x in obj:
            out |= mutable_ids(x, seen, depth + 1)
    elif isinstance(obj, dict):
        for x in obj.values():
            out |= mutable_ids(x, seen, depth + 1)
    elif hasattr(obj, "__dict__") and not isinstance(obj, type):
        out.add(id(obj))
        for x in vars(obj).values():
            out |= mutable_ids(x, seen, depth + 1)
    return out


ACTIONS = {}


class Binding:
    """One real model driven along one spec behaviour."""

    def __init__(self, tmpl, assign, naming, NP=3):
        self.t = tmpl
        self.assign = assign
        self.NP = NP
        self.pri = make_priors(naming)
        self.vals = [FIXED[s] if a == 0 else self.pri[a] for s, a in enumerate(assign)]
        self.name_of = {}
        with warnings.catch_warnings():
            warnings.simplefilter("ignore")
            self.model = tmpl.build(self.vals)

    def base(self, o):
        return o - self.NP if o > self.NP else o

    def same_value(self, a, b):
        try:
            return a.renamed(None) == b.renamed(None)
        except Exception:
            return False

    # projection --------------------------------------------------------------------
    def check_state(self, st, fail):
        """st: spec state (par: tuple of frozensets of effective objects, siteParam).
        Calls fail(clause, detail) for every mismatch."""
        m = self.model
        par = st["par"]
        sp = st["siteParam"]
        pdict = m.parameters
        names = list(pdict.keys())
        objs = list(pdict.values())
        if len(set(names)) != len(names) or len(names) != len(m._parameter_names):
            fail("NamesUnique", {"names": list(m._parameter_names)})
            return
        if len(names) != len(par):
            fail("OneParamPerDistinctPrior", {"impl": names, "spec_par": [sorted(g) for g in par]})
            return
        n = len(par)
        bydict = {names[k]: SENT[k] for k in range(n)}
        bylist = [SENT[k] for k in range(n)]
        try:
            od = self.t.observe(m, bydict)
            ol = self.t.observe(m, bylist)
        except Exception as e:
            fail("SubstituteRuns", {"exc": repr(e)})
            return
        # bind implementation parameter order to the spec's: a permutation pi (impl k ->
        # spec index) under which every site reads the value of the parameter the spec maps
        # it to, and every implementation parameter is value-equal to the spec's prior.
        found = None
        for pi in itertools.permutations(range(n)):
            if not all(self.same_value(objs[k], self.pri[self.base(min(par[pi[k]]))])
                       for k in range(n)):
                continue
            sent_by_spec = {pi[k]: SENT[k] for k in range(n)}
            leaf = [FIXED[s] if sp[s] == 0 else sent_by_spec[sp[s] - 1]
                    for s in range(self.t.nsites)]
            exp = self.t.expect(leaf)
            if len(od) == len(exp) and all(close(a, b) for a, b in zip(od, exp)):
                found = (pi, exp)
                break
        if found is None:
            fail("ReadBack", {"observed": od, "names": names,
                              "spec_siteParam": list(sp), "spec_par": [sorted(g) for g in par],
                              "why": "no ordering of the implementation's parameters puts each "
                                     "value at the sites the specification maps it to"})
            return
        pi, exp = found
        self.name_of = {pi[k] + 1: names[k] for k in range(n)}
        if not all(close(a, b) for a, b in zip(ol, exp)) or len(ol) != len(exp):
            fail("DictAndListAgree", {"list": ol, "dict": od, "names": names})
        try:
            sd = m.scatterer_from_parameters(bydict)
            sl = m.scatterer_from_parameters(bylist)
            if not (sd == sl):
                fail("DictAndListAgree", {"dict": repr(sd), "list": repr(sl)})
            # two scatterers built by one model are two objects all the way down (prior objects apart: none here);
            # nor do they hold anything of the model's own maps
            common = (mutable_ids(sd) & mutable_ids(sl)) | (mutable_ids(sd) & mutable_ids(getattr(m, "_maps", {})))
            if common:
                fail("NoSharedMutableState", {"why": "two builds from one model share mutable containers", "n_shared": len(common)})
        except Exception as e:
            fail("SubstituteRuns", {"exc": repr(e)})
        # initial guess uses each prior's guess
        gleaf = [FIXED[s] if sp[s] == 0 else self.pri[self.base(min(par[sp[s] - 1]))].guess
                 for s in range(self.t.nsites)]
        try:
            og = self.t.observe(m, m.initial_guess)
            eg = self.t.expect(gleaf)
            if not all(close(a, b) for a, b in zip(og, eg)):
                fail("GuessScattererUsesGuesses", {"observed": og, "expected": eg})
            g = m.initial_guess_scatterer
            if not (g == m.scatterer_from_parameters(m.initial_guess)):
                fail("GuessScattererUsesGuesses", {"why": "initial_guess_scatterer differs"})
            # rebuild from own parameter dictionary
            g2 = g.from_parameters(g.parameters)
            if not (g2 == g):
                fail("RebuildEqualsOriginal", {"g": repr(g), "g2": repr(g2)})
            shared = (mutable_ids(g2) & mutable_ids(g))
            if shared:
                fail("NoSharedMutableState", {"n_shared": len(shared), "g": repr(g)})
            # a dictionary handed to from_parameters is read, not consumed: the same dictionary gives the same
            # object again (the model's own scatterer, priors and all, and the guess scatterer)
            NOTES["dict_visits"] = NOTES.get("dict_visits", 0) + 1
            objs = []
            if NOTES["dict_visits"] % 8 == 1:       # every eighth visit (each template is visited thousands of times)
                objs = [g]
                try:
                    objs.append(m.scatterer)
                except Exception:
                    # Model.scatterer of a rigid cluster whose rotation holds a prior cannot be formed (it would have
                    # to rotate by a prior); outside the property, noted in DESIGN.md
                    NOTES["model_scatterer_unavailable"] = NOTES.get("model_scatterer_unavailable", 0) + 1
                if isinstance(g, Spheres) and len(g.scatterers) >= 2:
                    objs.append(RigidCluster(g, rotation=(0.1, 0.2, 0.3), translation=(1.0, -2.0, 0.5)))
            for obj in objs:
                def guessed(v_):
                    if hasattr(v_, "guess"):
                        return v_.guess
                    if isinstance(v_, (list, tuple)):
                        return type(v_)(guessed(w_) for w_ in v_)
                    if isinstance(v_, dict):
                        return {k_: guessed(w_) for k_, w_ in v_.items()}
                    return v_
                pd = {k_: guessed(v_) for k_, v_ in obj.parameters.items()}
                if "rotation" in pd:        # values other than the object's own
                    pd["rotation"], pd["translation"] = (0.5, 0.6, 0.7), (0.0, 3.0, 1.0)
                keys = sorted(pd.keys())
                r1 = obj.from_parameters(pd)
                r2 = obj.from_parameters(pd)
                if sorted(pd.keys()) != keys:
                    fail("RebuildEqualsOriginal", {"why": "from_parameters removed entries of the caller's dictionary",
                                                   "before": keys, "after": sorted(pd.keys())})
                elif not (r1 == r2):
                    fail("RebuildEqualsOriginal", {"why": "the same dictionary gave two different objects", "class": type(obj).__name__})
        except Exception as e:
            fail("GuessRuns", {"exc": repr(e)})
        # an explicit name that nothing else claims is the parameter's name
        if st["nties"] == 0:
            used = {o for g in par for o in g}
            for p, o in self.pri.items():
                nm = o.name
                if nm is None or nm in ("n", "r_0", "n_0"):
                    continue
                mine = [q for q in used if self.base(q) == p]
                rivals = [q for q in used if self.base(q) != p and self.pri[self.base(q)].name == nm]
                if len(mine) == 1 and not rivals and nm not in names:
                    fail("ExplicitNameKept", {"name": nm, "names": names})
        return names

    # actions ---------------------------------------------------------------------------
    def add_tie(self, I, accepted, rng, fail):
        m = self.model
        names = list(m.parameters.keys())
        name_of = self.name_of
        tie = [name_of[i] for i in sorted(I)]
        rng.shuffle(tie)
        new_name = None
        if rng.random() < 0.5:
            self.ntied = getattr(self, "ntied", 0) + 1
            new_name = "tied%d_%d" % (self.ntied, rng.randrange(100))   # never an existing name
        before_names = list(names)
        before_maps = copy.deepcopy(m._maps) if hasattr(m, "_maps") else None
        try:
            m.add_tie(tie, new_name=new_name)
            ok = True
        except ValueError:
            ok = False
        except Exception as e:
            fail("AddTieOutcome", {"exc": repr(e), "tie": tie})
            return
        if ok != accepted:
            fail("AddTieOutcome", {"tie": tie, "impl_accepted": ok, "spec_accepted": accepted})
            return
        after = list(m.parameters.keys())
        if not ok:
            if after != before_names or (before_maps is not None and m._maps != before_maps):
                fail("RejectedChangesNothing", {"before": before_names, "after": after})
            return
        # exactly the duplicates disappear; which of the tied names survives is the
        # implementation's choice (the spec keeps one parameter for the group)
        gone = [x for x in before_names if x not in after]
        if new_name is None:
            if not (set(gone) <= set(tie) and len(gone) == len(tie) - 1 and
                    [x for x in before_names if x in after] == after):
                fail("TieRemovesExactlyDuplicates", {"before": before_names, "tie": tie,
                                                    "after": after})
        else:
            if not (set(gone) == set(tie) - {new_name} and new_name in after and
                    len(after) == len(before_names) - (len(tie) - 1) and
                    [x for x in before_names if x in after and x != new_name] ==
                    [x for x in after if x != new_name]):
                fail("TieRemovesExactlyDuplicates", {"before": before_names, "tie": tie,
                                                    "new_name": new_name, "after": after})

    def add_tie_unknown(self, fail):
        m = self.model
        before = list(m.parameters.keys())
        try:
            m.add_tie(before[:1] + ["no_such_parameter"])
            fail("AddTieOutcome", {"why": "unknown name accepted"})
        except ValueError:
            pass
        if list(m.parameters.keys()) != before:
            fail("RejectedChangesNothing", {"why": "unknown-name tie changed names"})

    def roundtrip(self, fail):
        """save -> load keeps names, ties and the value-to-place mapping (used by C15)"""
        hp = H["hp"]
        m = self.model
        try:
            buf = io.BytesIO()
            hp.save(buf, m)
            buf.seek(0)
            with warnings.catch_warnings(record=True) as w:
                warnings.simplefilter("always")
                m2 = hp.load(buf)
            if any("inconsistenc" in str(x.message) for x in w):
                fail("ReloadedModelConsistent", {"warning": [str(x.message) for x in w]})
        except Exception as e:
            fail("SaveLoadRuns", {"exc": repr(e)[:300], "names": list(m.parameters)})
            return
        if list(m2.parameters.keys()) != list(m.parameters.keys()):
            fail("ReloadKeepsNames", {"orig": list(m.parameters), "loaded": list(m2.parameters)})
            return
        vals = {n: SENT[k] for k, n in enumerate(m.parameters)}
        try:
            a = self.t.observe(m, vals)
            b = self.t.observe(m2, vals)
            if not all(close(x, y) for x, y in zip(a, b)):
                fail("ReloadKeepsMapping", {"orig": a, "loaded": b})
        except Exception as e:
            fail("SaveLoadRuns", {"exc": repr(e)[:300]})


def tie_paths(g, sid, maxlen=3):
    """all add_tie paths (accepted / rejected / unknown) from a ready state; maximal only"""
    paths = [[]]
    stack = [(sid, [])]
    while stack:
        cur, path = stack.pop()
        for e in g.out.get(cur, []):
            if e[1] in ("AddTie", "AddTieRejected", "AddTieUnknown"):
                p2 = path + [e]
                paths.append(p2)
                if len(p2) < maxlen:
                    stack.append((e[3], p2))
    keys = {tuple(id(e) for e in p) for p in paths}
    maximal = []
    for p in paths:
        k = tuple(id(e) for e in p)
        if not any(len(q) == len(k) + 1 and q[:len(k)] == k for q in keys):
            maximal.append(p)
    return maximal


def replay_behaviour(ctx, g, t, st0, path, rng, with_roundtrip=False):
    """drive one real model along one spec behaviour; returns list of (clause, detail)"""
    fails = []

    def fail(clause, detail):
        fails.append((clause, detail))
    assign = tuple(st0["assign"])
    b = Binding(t, assign, st0["naming"])
    b.check_state(st0, fail)
    cur = st0
    for e in path:
        if fails:
            break
        nxt = g.states[e[3]]
        ACTIONS[e[1]] = ACTIONS.get(e[1], 0) + 1
        if e[1] == "AddTieUnknown":
            b.add_tie_unknown(fail)
        else:
            b.add_tie(set(e[2][0]), e[1] == "AddTie", rng, fail)
        if not fails:
            b.check_state(nxt, fail)
        cur = nxt
    if with_roundtrip and not fails:
        b.roundtrip(fail)
    return fails, cur


def check_edit_indices(ctx):
    """design lemma (TLC, exhaustive over subsets of 0..7) + binding of the real function"""
    r = ctx.tlc("EditIndices", "EditIndices.cfg", workers=4, dump=True)
    g = Graph.load(r.dump)
    tlcmod.cleanup(r)
    try:
        from holopy.core.mapping import edit_map_indices
    except Exception:
        ctx.uncovered("holopy.core.mapping.edit_map_indices not importable")
        return
    for st in g.states.values():
        I = sorted(st["I"])
        img = st["img"]
        nested = ["_parameter_%d" % o for o in sorted(img)] + [["x", 3.0, "_parameter_0"]]
        out = edit_map_indices(nested, I)
        got = {o: int(out[k].split("_")[-1]) for k, o in enumerate(sorted(img))}
        ctx.case(("edit", tuple(I)), nontrivial=len(I) > 1)
        if got != dict(img) or out[-1][:2] != ["x", 3.0]:
            ctx.violation("edit_map_indices", {"I": I, "impl": got, "spec": dict(img)})
        else:
            ctx.trace_ok()
    if ctx.tier != "quick":
        # the same lemma for N = 12 symbolically (Apalache, all 4095 subsets in one SMT query): evidence about
        # the model only - the binding to the code is the replay above
        import shutil, subprocess, tempfile, time
        exe = shutil.which("apalache-mc")
        if exe is None:
            ctx.uncovered("apalache-mc not found: EditIndices lemma for N = 12 not discharged symbolically")
            return
        out = tempfile.mkdtemp(prefix="apa_")
        t0 = time.time()
        try:
            pr = subprocess.run([exe, "check", "--init=Init", "--next=Next", "--inv=All", "--length=0", "--out-dir=" + out,
                                 os.path.join(harness.VERIF, "spec", "EditIndicesApa.tla")], capture_output=True, text=True, timeout=900)
            verdict = "ok" if "EXITCODE: OK" in pr.stdout else "failed"
        except subprocess.TimeoutExpired:
            verdict = "timeout"
        finally:
            shutil.rmtree(out, ignore_errors=True)
        ctx.notes["apalache_EditIndices_N12"] = {"verdict": verdict, "wall_s": round(time.time() - t0, 1)}
        if verdict == "failed":
            raise harness.MachineryError("Apalache rejects the EditIndices lemma at N = 12:\n" + pr.stdout[-1500:])
        if verdict == "timeout":
            ctx.uncovered("Apalache timed out on the EditIndices lemma at N = 12")


# ---------------------------------------------------------------------------------------------
# construction history (spec/ModelSession.tla)
def session_catalogue():
    U = lambda lo, hi, g: prior.Uniform(lo, hi, guess=g)
    kw = dict(medium_index=1.33, illum_wavelen=0.66, illum_polarization=(1, 0), noise_sd=0.1)

    def big():
        # two spheres with every argument free + scaling: 11 parameters (indices reach two digits)
        s0 = Sphere(n=U(1.4, 1.7, 1.51), r=U(0.3, 0.8, 0.52), center=(U(0, 3, 1.03), U(0, 3, 1.04), U(4, 9, 5.05)))
        s1 = Sphere(n=U(1.4, 1.7, 1.56), r=U(0.3, 0.8, 0.57), center=(U(20, 23, 21.08), U(0, 3, 1.09), U(4, 9, 5.10)))
        return AlphaModel(Spheres([s0, s1], warn=False), alpha=U(0.5, 1.0, 0.811), theory=H["Mie"](), **kw)
    return [
        lambda: AlphaModel(Sphere(n=1.59, r=U(0.3, 0.8, 0.5), center=(1.0, 1.0, 5.0)), alpha=U(0.5, 1.0, 0.7), **kw),
        lambda: ExactModel(Sphere(n=1.59, r=U(0.3, 0.8, 0.5), center=(1.0, 1.0, 5.0)), **kw),
        lambda: AlphaModel(Sphere(n=U(1.4, 1.7, 1.5), r=0.5, center=(1.0, 1.0, 5.0)), alpha=0.8, **kw),
        big,
        lambda: ExactModel(RigidCluster(Spheres([Sphere(n=1.59, r=0.5, center=(0.0, 0.0, 0.0)),
                                                 Sphere(n=1.5, r=0.4, center=(2.0, 0.0, 0.0))], warn=False),
                                        rotation=(0.3, 0.4, U(0, 3, 1.1)), translation=(U(0, 3, 1.2), 1.0, 10.0)),
                           theory=H["Mie"](), **kw),
        lambda: AlphaModel(Sphere(n=1.59, r=0.5, center=(1.0, 1.0, U(4, 9, 5.0))),
                           alpha={'red': U(0.5, 1.0, 0.6), 'green': U(0.5, 1.0, 0.9)}, medium_index=1.33,
                           illum_wavelen={'red': 0.66, 'green': 0.52}, illum_polarization=(1, 0), noise_sd=0.1),
    ]


def describe_model(model):
    """names in order, text form, and where each value of a test vector lands"""
    import io as _io
    from holopy.core.io import serialize
    b = _io.BytesIO()
    serialize.save(b, model)
    names = list(model._parameter_names)
    vals = {n: p.guess * (1 + 0.001 * (i + 1)) for i, (n, p) in enumerate(zip(names, model._parameters))}
    sc = model.scatterer_from_parameters(vals)
    b2 = _io.BytesIO()
    serialize.save(b2, sc)
    lst = model.ensure_parameters_are_listlike(vals)
    mm = H["read_map"](model._maps['model'], lst)
    return {"names": names, "text": b.getvalue().decode(), "placed": b2.getvalue().decode(),
            "model_map": repr(sorted((k, repr(v)) for k, v in mm.items()))}


def job_describe(idx):
    return describe_model(session_catalogue()[idx - 1]())


def place_check(ctx):
    """value-to-place mapping of the 11-parameter model against the names (independent of history)"""
    model = session_catalogue()[3]()
    names = list(model._parameter_names)
    vals = {n: 1.0 + (i + 1) / 16.0 for i, n in enumerate(names)}
    sc = model.scatterer_from_parameters(vals)
    lst = model.ensure_parameters_are_listlike(vals)
    got = {}
    for k, m in enumerate(sc.scatterers):
        got["%d:n" % k], got["%d:r" % k] = m.n, m.r
        for j in range(3):
            got["%d:center.%d" % (k, j)] = m.center[j]
    got["alpha"] = H["read_map"](model._maps['model'], lst)['alpha']
    ctx.case(("place", "two_spheres_all_free", len(names)), nontrivial=True)
    bad = {n: (got.get(n), vals[n]) for n in names if not (n in got and float(got[n]) == vals[n])}
    if sorted(names) != sorted(got) or bad:
        ctx.violation("session/placement/%d_parameters" % len(names), {"names": names, "wrong": {k: list(map(float, v)) for k, v in bad.items()}})
    else:
        ctx.trace_ok()


def model_sessions(ctx, rng, quick):
    import isolate
    from concurrent.futures import ThreadPoolExecutor
    n = len(session_catalogue())
    g = ctx.tlc_graph("ModelSession", "ModelSession.cfg", constants={"NEntries": n, "MaxBuilds": 2 if quick else 3})
    with ThreadPoolExecutor(n) as ex:
        base = [r[0] for r in ex.map(lambda i: isolate.run_jobs([("c11:job_describe", {"idx": i})]), range(1, n + 1))]
    fresh = {}
    for i, r in enumerate(base):
        if r is None or r["outcome"] != "returned":
            raise harness.MachineryError("fresh-process model description %d failed: %r" % (i + 1, r))
        fresh[i + 1] = r["result"]
    seqs = sorted({tuple(st["log"]) for st in g.states.values() if len(st["log"]) >= 1})
    if not any(len(q) >= 2 for q in seqs):
        raise harness.MachineryError("ModelSession graph has no sequence of two constructions")
    cat = session_catalogue()
    for seq in seqs:
        ctx.case(("session", seq), nontrivial=len(seq) >= 2)
        ok = True
        for c in seq:
            try:
                d = describe_model(cat[c - 1]())
            except Exception as e:
                ctx.violation("session/exception", {"sequence": list(seq), "entry": c, "exc": repr(e)[:200]})
                ok = False
                break
            diff = [k for k in d if d[k] != fresh[c][k]]
            if diff:
                ctx.violation("session/model_depends_on_history/%s" % ",".join(diff),
                              {"sequence": list(seq), "entry": c, "names": d["names"], "fresh_names": fresh[c]["names"]})
                ok = False
                break
        if ok:
            ctx.trace_ok()
    place_check(ctx)
    ctx.notes["model_sessions"] = len(seqs)


def run(ctx):
    quick = ctx.tier == "quick"
    rng = random.Random(ctx.seed)
    ctx.rule = ("TLC enumerates every assignment of <=NP prior objects (two of them equal by "
                "value) to NSites leaf sites x naming pattern, then every add_tie over every "
                "subset of current parameters (accepted, rejected-unequal, unknown name), depth "
                "MaxTies; each behaviour of the dumped state graph is replayed into real Model "
                "objects for every structural template; distinct = (template, assign, naming, "
                "tie path); non-trivial = at least one prior in the assignment")
    ctx.assumptions = ["substitution observed via scatterer_from_parameters / "
                       "theory_from_parameters / _find_optics / read_map(model map)",
                       "value equality of priors is HoloPy's own == after renamed(None)"]
    check_edit_indices(ctx)
    model_sessions(ctx, rng, quick)
    groups = {}
    sizes = [4] if quick else [4, 6]
    for n in sizes:
        for t in TEMPLATES[n]:
            groups.setdefault((n, t.scat_sites), []).append(t)
    nbeh = 0
    for (nsites, scat), tmpls in sorted(groups.items()):
        consts = {"NSites": nsites, "ScatSites": scat}
        if nsites == 6:
            consts["Namings"] = "{1, 3}"
            consts["MaxTies"] = 2
        r = ctx.tlc("ParamMap", "ParamMap_MC.cfg", constants=consts, workers=16, dump=True,
                    timeout=3000, heap="16g")
        g = Graph.load(r.dump)
        tlcmod.cleanup(r)
        ready = sorted((sid for sid, st in g.states.items()
                        if st["phase"] == "ready" and st["nties"] == 0 and st["last"] == "ok"),
                       key=lambda s: (g.states[s]["naming"], tuple(g.states[s]["assign"])))
        for idx, sid in enumerate(ready):
            st0 = g.states[sid]
            assign = tuple(st0["assign"])
            maximal = tie_paths(g, sid)
            if quick and len(maximal) > 3:
                maximal = rng.sample(maximal, 3)
            elif nsites == 6 and len(maximal) > 12:
                maximal = rng.sample(maximal, 12)
            for t in tmpls:
                for path in maximal:
                    nbeh += 1
                    pdesc = [(e[1], sorted(e[2][0]) if e[2] else None) for e in path]
                    ctx.case((t.name, assign, st0["naming"], pdesc), nontrivial=any(assign))
                    try:
                        fails, cur = replay_behaviour(ctx, g, t, st0, path, rng)
                    except Exception as e:
                        ctx.violation("%s/build" % t.name, {"exc": repr(e), "assign": assign,
                                                            "naming": st0["naming"]})
                        continue
                    if fails:
                        clause, detail = fails[0]
                        ctx.violation("%s/%s" % (t.name, clause),
                                      {"template": t.name, "assign": assign,
                                       "naming": st0["naming"], "path": pdesc,
                                       "clause": clause, "detail": detail})
                    else:
                        ctx.trace_ok()
                    if nbeh % 1499 == 1:
                        ctx.sample({"template": t.name, "assign": assign,
                                    "naming": st0["naming"], "path": pdesc,
                                    "spec_final_state": {"par": [sorted(x) for x in cur["par"]],
                                                         "siteParam": list(cur["siteParam"])}})
    ctx.exhaustive = not quick
    ctx.notes["behaviours_replayed"] = nbeh
    ctx.notes["actions_replayed"] = dict(ACTIONS)
    ctx.notes.update(NOTES)
    for a in ("AddTie", "AddTieRejected", "AddTieUnknown"):
        if not ACTIONS.get(a):
            raise harness.MachineryError("vacuous replay: no %s edge was exercised" % a)


if __name__ == "__main__":
    sys.exit(harness.main(PID, run))
