"""X09 (extension, not one of the listed properties) — chisq and rsq (holopy.core.math), the two goodness-of-fit
numbers reported for a model image against data.  spec/FitMeasures.tla computes both exactly (rationals) for
every pair of small integer images and after Shift / Scale / Reorder / Swap; every state is evaluated with the
real functions on NumPy arrays and on HoloPy images."""
import os
import random
import sys
import warnings

sys.path.insert(0, os.path.join(os.path.dirname(os.path.abspath(__file__)), "..", "lib"))
import boot  # noqa
import harness
import fp

import numpy as np

PID = "X09"

from holopy.core.math import chisq, rsq, cartesian_distance
from holopy.core.metadata import data_grid


def run(ctx):
    quick = ctx.tier == "quick"
    rng = random.Random(ctx.seed)
    ctx.rule = ("TLC enumerates every (fit, data) pair of 3-pixel images over {0..3} and the pairs reached by Shift, "
                "Scale, Reorder, Swap (28 671 states); every state (a seeded 3 000 in the quick tier) is evaluated on "
                "arrays and images; distinct = state")
    ctx.assumptions = ["floating-point evaluation of small integers compared with the exact rational at 1e-12"]
    g = ctx.tlc_graph("FitMeasures", "FitMeasures.cfg")
    ids = list(g.states)
    if quick:
        ids = rng.sample(ids, 3000)
    nundef = ndef = 0
    with warnings.catch_warnings():
        warnings.simplefilter("ignore")
        for sid in ids:
            st = g.states[sid]
            f = np.array([float(v) for v in st["fit"]])
            d = np.array([float(v) for v in st["data"]])
            (cn, cd), (rn, rd) = st["m"]
            ctx.case((tuple(st["fit"]), tuple(st["data"])), nontrivial=True)
            bad = None
            for form in ("array", "image"):
                if form == "array":
                    ff, dd = f.copy(), d.copy()
                else:
                    ff = data_grid(f.reshape(1, 3), spacing=0.1, medium_index=1.33, illum_wavelen=0.66, illum_polarization=(1, 0))
                    dd = data_grid(d.reshape(1, 3), spacing=0.1, medium_index=1.33, illum_wavelen=0.66, illum_polarization=(1, 0),
                                   noise_sd=0.1)
                keep = (fp.fingerprint(ff), fp.fingerprint(dd))
                try:
                    c = chisq(ff, dd)
                    r = rsq(ff, dd)
                except Exception as e:
                    bad = ("exception", {"form": form, "exc": repr(e)[:200]})
                    break
                if not isinstance(c, float) or abs(c - cn / cd) > 1e-12 * max(1.0, cn / cd):
                    bad = ("chisq", {"form": form, "impl": repr(c), "spec": [cn, cd]})
                elif rd != 0 and (not isinstance(r, float) or abs(r - rn / rd) > 1e-12 * max(1.0, abs(rn / rd))):
                    bad = ("rsq", {"form": form, "impl": repr(r), "spec": [rn, rd]})
                elif (fp.fingerprint(ff), fp.fingerprint(dd)) != keep:
                    bad = ("argument_modified", {"form": form})
                if bad:
                    break
            if rd == 0:
                nundef += 1
            else:
                ndef += 1
            if bad:
                ctx.violation("measures/" + bad[0], dict(bad[1], fit=list(st["fit"]), data=list(st["data"])))
            else:
                ctx.trace_ok()
    if ndef < 100 or nundef < 5:
        raise harness.MachineryError("vacuous: %d defined / %d undefined rsq states" % (ndef, nundef))
    # distance between points: symmetric, zero iff equal, the default second point is the origin
    nprng = np.random.default_rng(ctx.seed)
    for k in range(200):
        p, q = nprng.normal(size=3) * 10.0 ** int(nprng.integers(-3, 4)), nprng.normal(size=3)
        ctx.case(("distance", k))
        want = float(np.sqrt(sum((a - b) ** 2 for a, b in zip(p.tolist(), q.tolist()))))
        got = [cartesian_distance(p, q), cartesian_distance(q, p), cartesian_distance(list(p), tuple(q))]
        if any(abs(v - want) > 1e-12 * max(1, want) for v in got) or cartesian_distance(p, p) != 0 \
                or abs(cartesian_distance(p) - float(np.sqrt((p ** 2).sum()))) > 1e-12 * max(1, want):
            ctx.violation("measures/distance", {"p": p.tolist(), "q": q.tolist(), "impl": [float(v) for v in got], "spec": want})
        else:
            ctx.trace_ok()
    ctx.notes["rsq_defined_states"] = ndef
    ctx.notes["rsq_undefined_states"] = nundef
    ctx.sample({"fit": list(st["fit"]), "data": list(st["data"]), "chisq": [cn, cd], "rsq": [rn, rd]})
    ctx.exhaustive = not quick


if __name__ == "__main__":
    sys.exit(harness.main(PID, run))
