"""C06 — superposition, polarisation linearity, multi-channel = stacked single-channel.

spec/Superpose.tla enumerates (collection) every sequence of 1-6 uniform/layered members,
(linear) the polarisation classes, (channels) every 2-3 channel request layout: each of
wavelength, polarisation, scaling, particle index, particle radius as scalar / dictionary /
labelled array in every key order, with the normal form "value per channel label".  Every
state is replayed: sums of separately computed fields, linear combinations of x/y fields, and
per-label slices of the multi-channel result against the single-channel calculation; a logging
Mie subclass checks the multiset of solver calls.
"""
import math
import os
import random
import sys

sys.path.insert(0, os.path.join(os.path.dirname(os.path.abspath(__file__)), "..", "lib"))
import boot  # noqa
import harness
import quant

import numpy as np
import xarray as xr

PID = "C06"

import holopy as hp
from holopy.scattering.theory import Lens
from holopy.scattering import Sphere, Spheres, calc_holo, calc_field, Mie, MieLens
from holopy.core.metadata import detector_grid, detector_points, update_metadata

OPT = dict(medium_index=1.33, illum_wavelen=0.66)
CALLS = []


class LoggingMie(Mie):
    """records one entry per raw_fields call with the wavelength (via wavevector) and polarisation"""

    def raw_fields(self, positions, scatterer, medium_wavevec, medium_index, illum_polarization):
        CALLS.append((round(float(medium_wavevec), 9), tuple(np.round(np.asarray(illum_polarization.values), 9)),
                      repr(np.asarray(scatterer.n).tolist()), repr(np.asarray(scatterer.r).tolist())))
        return super().raw_fields(positions, scatterer, medium_wavevec, medium_index, illum_polarization)


POLS = {"unit": (0.6, 0.8), "non_unit": (3.0, -4.0), "near_unit_a": (0.707, 0.707), "near_unit_b": (1.0008, 0.0),
        "tiny": (1e-3, 2e-3), "huge": (300.0, 400.0), "negative": (-0.28, 0.96)}
BASE = {"wavelength": {"blue": 0.445, "green": 0.52, "red": 0.66},
        "polarisation": {"blue": (1.0, 1.0), "green": (0.0, 1.0), "red": (1.0, 0.0)},
        "scaling": {"blue": 0.6, "green": 0.8, "red": 1.1},
        "index": {"blue": 1.61, "green": 1.595, "red": 1.58},
        "radius": {"blue": 0.41, "green": 0.5, "red": 0.47}}
SCALAR = {"wavelength": 0.6, "polarisation": (0.6, 0.8), "scaling": 0.9, "index": 1.59, "radius": 0.45}


def permute(labels, order):
    if order == "sorted":
        return list(labels)
    if order == "reversed":
        return list(labels)[::-1]
    return [labels[(i + 1) % len(labels)] for i in range(len(labels))]


ROWSCALE = {"blue": 2.0, "green": 0.5, "red": 5.0}


def encode(q, enc, order, labels, rows="unit"):
    if enc == "scalar":
        return SCALAR[q]
    keys = permute(labels, order)
    if enc == "dict":
        return {k: BASE[q][k] for k in keys}
    vals = [BASE[q][k] for k in keys]
    if q == "polarisation":
        arr = np.array([list(v) + [0.0] for v in vals], dtype=float)
        arr = arr / np.sqrt((arr ** 2).sum(1))[:, None]
        if rows == "as_given":       # rows of any length: (2, 2, 0)/sqrt2, (0, .5, 0), (5, 0, 0)
            arr = arr * np.array([ROWSCALE[k] for k in keys])[:, None]
        return xr.DataArray(arr, dims=["illumination", "vector"],
                            coords={"illumination": keys, "vector": ["x", "y", "z"]})
    return xr.DataArray(np.array(vals), dims=["illumination"], coords={"illumination": keys})


def run(ctx):
    quick = ctx.tier == "quick"
    rng = random.Random(ctx.seed)
    ctx.rule = ("TLC enumerates all member-kind sequences of 1-6 spheres, 7 polarisation classes and all "
                "2-3 channel layouts (5 quantities x scalar/dict/labelled array x key orders: 16906); "
                "quick samples 250 layouts and 100 of the collections of 4-6 members; distinct = state; non-trivial = >= 2 members / non-unit "
                "polarisation / some key order differs from sorted")
    ctx.assumptions = ["labelled-array polarisations are passed with unit rows and with rows of lengths 2, 0.5, 5 (only the direction may count)",
                       "solver calls observed through a logging subclass of Mie passed as theory="]
    det = detector_grid(5, 0.31)
    pts = detector_points(x=np.array([0.2, 1.1, -0.8]), y=np.array([0.0, 0.9, 1.4]), z=0.0)

    # ---------------- collections ------------------------------------------------------------
    g = ctx.tlc_graph("Superpose", "Superpose_collection.cfg")
    coll_states = list(g.states.values())
    if quick:       # every collection of up to three members, a seeded sample of the larger ones
        small = [st for st in coll_states if len(st["req"]["members"]) <= 3]
        large = [st for st in coll_states if len(st["req"]["members"]) > 3]
        coll_states = small + rng.sample(large, 100)
    for st in coll_states:
        members = st["req"]["members"]
        k = len(members)
        sph = []
        for i, kind in enumerate(members):
            c = (0.9 * math.cos(1.1 * i) + 0.6, 0.9 * math.sin(1.1 * i) + 0.6, 5.0 + 0.7 * i)
            if kind == "uniform":
                sph.append(Sphere(n=1.5 + 0.02 * i, r=0.3 + 0.03 * i, center=c))
            elif kind == "twin":        # identical particles, each at its own place and depth
                sph.append(Sphere(n=1.55, r=0.33, center=c))
            else:
                sph.append(Sphere(n=[1.6, 1.42 + 0.01 * i], r=[0.2, 0.36], center=c))
        ctx.case(("collection", members), nontrivial=k >= 2)
        # one theory object images the whole collection; every member on its own gets a fresh one
        for name, mk, d in (("Mie", Mie, det), ("MieLens", lambda: MieLens(lens_angle=0.8), det), ("Mie/points", Mie, pts)):
            if name == "MieLens" and "layered" in members:
                continue        # the analytic lens theory handles homogeneous spheres only
            ntw = len([m for m in members if m == "twin"])
            if quick and name != "Mie" and (k + len([m for m in members if m == "layered"])) % 3 != 0 and not (ntw >= 2 and k <= 3):
                continue
            try:
                coll = Spheres(sph, warn=False) if k > 1 else Spheres([sph[0]], warn=False)
                total = calc_field(d, coll, illum_polarization=(0.6, 0.8), theory=mk(), **OPT).values
                parts = sum(calc_field(d, s, illum_polarization=(0.6, 0.8), theory=mk(), **OPT).values for s in sph)
                dd = quant.reldiff(total, parts)
            except Exception as e:
                ctx.violation("collection/%s/exception" % name, {"members": members, "exc": repr(e)})
                continue
            if dd > 1e-12:
                ctx.violation("collection/%s/superposition" % name, {"members": members, "defect": dd})
            else:
                ctx.trace_ok()
    ctx.sample({"mode": "collection", "members": list(members)})

    # ---------------- polarisation linearity -----------------------------------------------------
    g = ctx.tlc_graph("Superpose", "Superpose_linear.cfg")
    scats = [("sphere", Sphere(n=1.59, r=0.5, center=(0.7, 0.5, 5.0)), Mie()),
             ("layered", Sphere(n=[1.59, 1.4], r=[0.3, 0.5], center=(0.7, 0.5, 5.0)), Mie()),
             ("two_spheres", Spheres([Sphere(n=1.59, r=0.4, center=(0.2, 0.5, 5.0)),
                                      Sphere(n=1.5, r=0.3, center=(1.4, 0.6, 6.0))]), Mie()),
             ("mielens", Sphere(n=1.59, r=0.5, center=(0.7, 0.5, 3.0)), MieLens(lens_angle=0.8)),
             ("lens_mie", Sphere(n=1.59, r=0.5, center=(0.7, 0.5, 3.0)), Lens(0.8, Mie(False, False), 24, 24))]
    for st in g.states.values():
        a, b = POLS[st["req"]["pol"]]
        for name, sc, th in scats:
            ctx.case(("linear", st["req"]["pol"], name), nontrivial=st["req"]["pol"] != "unit")
            try:
                ex = calc_field(det, sc, illum_polarization=(1, 0), theory=th, **OPT).values
                ey = calc_field(det, sc, illum_polarization=(0, 1), theory=th, **OPT).values
                e = calc_field(det, sc, illum_polarization=(a, b), theory=th, **OPT).values
                want = (a * ex + b * ey) / math.hypot(a, b)
                dd = quant.reldiff(e, want)
                h = calc_holo(det, sc, illum_polarization=(a, b), theory=th, **OPT)
                pv = np.asarray(h.illum_polarization.values, dtype=float)
                dn = abs(float(np.sqrt((pv ** 2).sum())) - 1.0)
            except Exception as ex_:
                ctx.violation("linear/exception", {"pol": (a, b), "scatterer": name, "exc": repr(ex_)})
                continue
            if dd > 1e-12 or dn > 1e-12:
                ctx.violation("linear/%s" % ("field" if dd > 1e-12 else "stored_polarisation_not_unit"),
                              {"pol": (a, b), "scatterer": name, "defect": dd, "norm_defect": dn})
            else:
                ctx.trace_ok()
    ctx.sample({"mode": "linear", "pol_class": st["req"]["pol"], "vector": POLS[st["req"]["pol"]]})

    # ---------------- multi-channel layouts ----------------------------------------------------------
    g = ctx.tlc_graph("Superpose", "Superpose_channels.cfg", workers=16, heap="8g")
    states = list(g.states.values())
    if quick:
        states = rng.sample(states, 250)
    single_cache = {}
    for st in states:
        rq = st["req"]
        labels = ["green", "red"] if rq["nch"] == 2 else ["blue", "green", "red"]
        enc, order = rq["enc"], rq["order"]
        ctx.case(("channels", rq["nch"], tuple(sorted(enc.items())), tuple(sorted(order.items())), rq["rows"]),
                 nontrivial=any(v != "sorted" for v in order.values()) or rq["rows"] != "unit")
        mdet = detector_grid(4, 0.3, extra_dims={"illumination": permute(labels, order["wavelength"])})
        try:
            wl = encode("wavelength", enc["wavelength"], order["wavelength"], labels)
            pol = encode("polarisation", enc["polarisation"], order["polarisation"], labels, rq["rows"])
            sca = encode("scaling", enc["scaling"], order["scaling"], labels)
            n = encode("index", enc["index"], order["index"], labels)
            r = encode("radius", enc["radius"], order["radius"], labels)
            if enc["scaling"] == "array":
                sca = {k: float(sca.sel(illumination=k)) for k in sca.illumination.values}   # scaling: scalar or dict
            sc = Sphere(n=n, r=r, center=(0.6, 0.5, 5.0))
            del CALLS[:]
            h = calc_holo(mdet, sc, medium_index=1.33, illum_wavelen=wl, illum_polarization=pol,
                          theory=LoggingMie(), scaling=sca)
            calls = list(CALLS)
        except Exception as e:
            ctx.violation("channels/exception", {"nch": rq["nch"], "enc": enc, "order": order, "exc": repr(e)[:300]})
            continue
        bad = None
        if sorted(h.illumination.values.tolist()) != sorted(labels):
            bad = ("labels", {"impl": h.illumination.values.tolist()})
        want_calls = []
        for c in labels:
            val = {q: (BASE[q][c] if enc[q] != "scalar" else SCALAR[q]) for q in BASE}
            key = (c, tuple(sorted((q, str(v)) for q, v in val.items())))
            if key not in single_cache:
                sdet = detector_grid(4, 0.3)
                single_cache[key] = calc_holo(sdet, Sphere(n=val["index"], r=val["radius"], center=(0.6, 0.5, 5.0)),
                                              medium_index=1.33, illum_wavelen=val["wavelength"],
                                              illum_polarization=val["polarisation"], theory=Mie(),
                                              scaling=val["scaling"]).transpose("x", "y", "z").values
            pv = np.array(list(val["polarisation"]) + [0.0])
            pv = pv / np.sqrt((pv ** 2).sum())
            want_calls.append((round(2 * math.pi * 1.33 / val["wavelength"], 9), tuple(np.round(pv, 9)),
                               repr(np.asarray(val["index"]).tolist()), repr(np.asarray(val["radius"]).tolist())))
            if bad is None:
                got = h.sel(illumination=c).transpose("x", "y", "z").values
                dd = float(np.max(np.abs(got - single_cache[key])))
                if dd > 1e-13:
                    bad = ("channel_value", {"channel": c, "defect": dd})
        if bad is None and sorted(calls) != sorted(want_calls):
            bad = ("solver_calls", {"impl": sorted(calls), "spec": sorted(want_calls)})
        if bad:
            ctx.violation("channels/%s" % bad[0], dict(bad[1], nch=rq["nch"], enc=enc, order=order, rows=rq["rows"]))
        else:
            ctx.trace_ok()
    ctx.sample({"mode": "channels", "nch": rq["nch"], "encodings": dict(enc), "key_orders": dict(order)})
    # channels that differ in polarisation only (one wavelength): each channel is the single-channel result, for the
    # lens theories too, whatever the first channel's polarisation
    from holopy.scattering.theory import AberratedMieLens
    sph_l = Sphere(n=1.59, r=0.5, center=(0.7, 0.5, 3.0))
    for tname, mk in (("Mie", Mie), ("MieLens", lambda: MieLens(lens_angle=0.8)),
                      ("AberratedMieLens", lambda: AberratedMieLens(spherical_aberration=[0.3], lens_angle=0.8))):
        for labs_, pols_ in ((["v", "h", "d"], [(0.0, 1.0), (1.0, 0.0), (1.0, 1.0)]), (["d", "a"], [(1.0, 1.0), (1.0, -1.0)]),
                             (["h", "v"], [(1.0, 0.0), (0.0, 1.0)])):
            ctx.case(("polarisation_channels", tname, tuple(labs_)), nontrivial=True)
            try:
                arr_ = np.array([list(p_) + [0.0] for p_ in pols_])
                arr_ = arr_ / np.sqrt((arr_ ** 2).sum(1))[:, None]
                pol_ = xr.DataArray(arr_, dims=["illumination", "vector"], coords={"illumination": labs_, "vector": ["x", "y", "z"]})
                dgrid = detector_grid(4, 0.3)
                multi_f = calc_field(dgrid, sph_l, medium_index=1.33, illum_wavelen=0.66, illum_polarization=pol_, theory=mk())
                worst_ = 0.0
                for l_, p_ in zip(labs_, pols_):
                    one = calc_field(dgrid, sph_l, medium_index=1.33, illum_wavelen=0.66, illum_polarization=p_, theory=mk())
                    got_ = multi_f.sel(illumination=l_).transpose("vector", "x", "y", "z").values
                    worst_ = max(worst_, float(np.max(np.abs(got_ - one.transpose("vector", "x", "y", "z").values))))
            except Exception as e:
                ctx.violation("channels/polarisation_only/exception", {"theory": tname, "labels": labs_, "exc": repr(e)[:300]})
                continue
            if not worst_ <= 1e-12:
                ctx.violation("channels/polarisation_only/%s" % tname, {"labels": labs_, "defect": worst_})
            else:
                ctx.trace_ok()
    # metadata of a multi-channel image: per-channel noise keeps its labels
    try:
        mdet = detector_grid(3, 0.3, extra_dims={"illumination": ["red", "green"]})
        im = update_metadata(mdet, illum_wavelen={"red": 0.66, "green": 0.52}, noise_sd={"red": 0.05, "green": 0.1})
        ctx.case(("channels", "noise labels"))
        if float(im.noise_sd.sel(illumination="red")) != 0.05 or float(im.illum_wavelen.sel(illumination="green")) != 0.52:
            ctx.violation("channels/metadata_labels", {"noise": repr(im.noise_sd)})
        else:
            ctx.trace_ok()
    except Exception as e:
        ctx.violation("channels/metadata_exception", {"exc": repr(e)})
    # per-channel noise: the multi-channel log-likelihood is the sum of the single-channel ones
    from holopy.inference import AlphaModel, prior as _prior
    for labels, noise in ((["red", "green"], {"green": 0.2, "red": 0.05}), (["green", "red", "blue"], {"red": 0.07, "green": 0.07, "blue": 0.3})):
        ctx.case(("channels", "likelihood", tuple(labels)), nontrivial=True)
        try:
            wl = {l: BASE["wavelength"][l] for l in labels}
            det_m = detector_grid(5, 0.4, extra_dims={"illumination": labels})
            truth = Sphere(n=1.5, r=0.5, center=(1.1, 1.0, 5.0))
            data = calc_holo(det_m, truth, medium_index=1.33, illum_wavelen=wl, illum_polarization=(1, 0), theory=Mie())
            data = data + 0.03 * np.cos(np.arange(data.size)).reshape(data.shape)
            data = update_metadata(data, noise_sd=noise)
            s_ = Sphere(n=_prior.Uniform(1.4, 1.7), r=0.5, center=(1.1, 1.0, 5.0))
            m = AlphaModel(s_, alpha=0.9, medium_index=1.33, illum_wavelen=wl, illum_polarization=(1, 0), theory=Mie())
            multi = float(m.lnlike({"n": 1.55}, data))
            tot = 0.0
            for l in labels:
                d1 = data.sel(illumination=l).drop_vars("illumination")
                d1 = update_metadata(d1, illum_wavelen=wl[l], noise_sd=noise[l])
                m1 = AlphaModel(s_, alpha=0.9, medium_index=1.33, illum_wavelen=wl[l], illum_polarization=(1, 0), theory=Mie())
                tot += float(m1.lnlike({"n": 1.55}, d1))
            dd = abs(multi - tot) / max(1.0, abs(tot))
        except Exception as ex_:
            ctx.violation("channels/likelihood/exception", {"labels": labels, "exc": repr(ex_)[:300]})
            continue
        if dd > 1e-10:
            ctx.violation("channels/likelihood_is_sum_of_channels", {"labels": labels, "multi": multi, "sum": tot})
        else:
            ctx.trace_ok()
    ctx.exhaustive = not quick


if __name__ == "__main__":
    sys.exit(harness.main(PID, run))
