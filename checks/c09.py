"""C09 — sphere clusters: order independence, symmetry, default-theory rule.

spec/TheoryChoice.tla is the documented default-theory rule as a total decision function over
abstract scatterers with the 30-radius boundary decided exactly on an integer lattice; every
enumerated scatterer is replayed: theory='auto' must be byte-identical to naming the specified
theory (and differ from the other candidate), error outcomes by exception type.  Order
independence, rotation covariance and the one-sphere limit of the multi-sphere solver are
replayed for both interaction-equation solvers.
"""
import itertools
import math
import os
import random
import sys
import warnings

sys.path.insert(0, os.path.join(os.path.dirname(os.path.abspath(__file__)), "..", "lib"))
import boot  # noqa
import harness
import quant

import numpy as np

PID = "C09"

import holopy as hp
from holopy.scattering.scatterer import Difference
from holopy.scattering import (Sphere, Spheres, Spheroid, Cylinder, Ellipsoid, Capsule, calc_holo,
                               calc_field, Mie, Multisphere, Tmatrix)
from holopy.scattering.interface import determine_default_theory_for
from holopy.scattering.errors import AutoTheoryFailed, InvalidScatterer, MissingParameter
from holopy.core.errors import DependencyMissing
from holopy.core.metadata import detector_points, detector_grid

OPT = dict(medium_index=1.33, illum_wavelen=0.66, illum_polarization=(1, 0))
U = 0.05        # lattice unit in microns


def build(x):
    k = x["kind"]
    if k == "sphere":
        return Sphere(n=[1.59, 1.45] if x["layered"] else 1.59, r=[0.3, 0.5] if x["layered"] else 0.5,
                      center=(0.4, 0.3, 5.0))
    if k == "spheres":
        mem = []
        for a in x["members"]:
            c = (a["c"][0] * U + 1.0, a["c"][1] * U + 1.0, a["c"][2] * U + 6.0) if a["placed"] else None
            r = a["r"] * U
            if a["layered"]:
                mem.append(Sphere(n=[1.59, 1.45], r=[0.5 * r, r], center=c))
            else:
                mem.append(Sphere(n=1.59, r=r, center=c))
        return Spheres(mem, warn=False)
    if k == "spheroid":
        return Spheroid(n=1.59, r=(0.3, 0.5), rotation=(0, 0.4, 0.2), center=(0.4, 0.3, 5.0))
    if k == "cylinder":
        return Cylinder(n=1.59, d=0.5, h=0.7, rotation=(0, 0.4, 0.2), center=(0.4, 0.3, 5.0))
    if k == "ellipsoid":
        return Ellipsoid(n=1.59, r=(0.3, 0.4, 0.5), center=(0.4, 0.3, 5.0))
    if k == "capsule":
        return Capsule(h=0.8, d=0.4, n=1.59, center=(0.4, 0.3, 5.0))
    if k == "csg_difference":
        return Difference(Sphere(n=1.59, r=0.5, center=(0.4, 0.3, 5.0)), Sphere(n=1.59, r=0.2, center=(0.4, 0.3, 5.0)))
    return 5.0 if k.endswith("number") else "sphere"


def run(ctx):
    quick = ctx.tier == "quick"
    rng = random.Random(ctx.seed)
    ctx.rule = ("TLC enumerates 147 abstract scatterers (single/layered sphere, clusters of 1-3 spheres with "
                "layered/unplaced members and separations exactly at, just inside and just beyond 30 largest "
                "radii, spheroid, cylinder, other shapes, non-scatterers); all are replayed; permutations: all "
                "orders of 2-4 spheres; distinct = scatterer or (cluster, order, solver); non-trivial = "
                "cluster of >= 2 members")
    ctx.assumptions = ["DDA's external solver (adda) is absent: the documented outcome is DependencyMissing"]
    det = detector_grid(5, 0.4)
    g = ctx.tlc_graph("TheoryChoice", "TheoryChoice.cfg")
    seen = {}
    for st in g.states.values():
        x, want = st["s"]["scat"], st["s"]["choice"]
        seen[want] = seen.get(want, 0) + 1
        ctx.case(("choice", str(sorted(x.items()))), nontrivial=x["kind"] == "spheres" and len(x.get("members", ())) > 1)
        with warnings.catch_warnings():
            warnings.simplefilter("ignore")
            try:
                sc = build(x)
            except Exception as e:
                ctx.violation("choice/build", {"scatterer": x, "exc": repr(e)})
                continue
            outcome, th, res = None, None, None
            try:
                th = determine_default_theory_for(sc)
                outcome = type(th).__name__
            except DependencyMissing:
                outcome = "DDA"
            except AutoTheoryFailed:
                outcome = "AutoTheoryFailed"
            except InvalidScatterer:
                outcome = "InvalidScatterer"
            except Exception as e:
                outcome = "other:" + type(e).__name__
            if outcome != want:
                ctx.violation("choice/%s_instead_of_%s" % (outcome, want), {"scatterer": x})
                continue
            # the public calculation follows the same rule and is identical to naming the theory
            try:
                res = calc_holo(det, sc, theory="auto", **OPT).values
                pub = "finite"
            except DependencyMissing:
                pub = "DDA"
            except (AutoTheoryFailed,):
                pub = "AutoTheoryFailed"
            except InvalidScatterer:
                pub = "InvalidScatterer"
            except Exception as e:
                pub = "error:" + type(e).__name__
            if want in ("Mie", "Multisphere", "Tmatrix"):
                if pub != "finite":
                    ctx.violation("choice/auto_calculation_failed", {"scatterer": x, "outcome": pub})
                    continue
                named = {"Mie": Mie, "Multisphere": Multisphere, "Tmatrix": Tmatrix}[want]()
                ref = calc_holo(det, sc, theory=named, **OPT).values
                if not np.array_equal(res, ref):
                    ctx.violation("choice/auto_differs_from_named_%s" % want,
                                  {"scatterer": x, "defect": float(np.max(np.abs(res - ref)))})
                    continue
                if x["kind"] == "spheres" and len(x["members"]) > 1 and not any(a["layered"] for a in x["members"]):
                    other = Mie() if want == "Multisphere" else Multisphere()
                    alt = calc_holo(det, sc, theory=other, **OPT).values
                    if np.array_equal(alt, res):
                        ctx.uncovered("candidate theories indistinguishable for %r" % (x,))
            elif want == "AutoTheoryFailed":
                if pub == "finite":
                    ctx.violation("choice/non_scatterer_accepted", {"scatterer": x})
                    continue
            elif pub != want:
                ctx.violation("choice/public_%s_instead_of_%s" % (pub, want), {"scatterer": x})
                continue
            ctx.trace_ok()
    ctx.notes["choices_replayed"] = seen
    ctx.sample({"scatterer": {k: (str(v) if k == "members" else v) for k, v in x.items()}, "spec_choice": want})

    # ---------------- order independence of the multi-sphere solution --------------------------------
    pts = detector_points(x=np.array([0.3, 1.7, 2.9, 0.9]), y=np.array([0.2, 2.4, 0.8, 3.1]), z=0.0)
    centers = [(1.0, 1.0, 8.0), (2.1, 1.3, 8.4), (0.6, 2.2, 7.5), (1.6, 0.1, 7.8), (2.4, 2.5, 8.9)]
    cases = [("equal", [0.4, 0.4]), ("equal", [0.4, 0.4, 0.4]), ("equal", [0.35] * 4), ("mixed_pair", [0.6, 0.25]),
             ("mixed_ge3", [0.6, 0.25, 0.4]), ("mixed_ge3", [0.5, 0.2, 0.35, 0.3]), ("mixed_ge3", [0.9, 0.15, 0.3])]
    if not quick:
        cases += [("equal", [0.3] * 5), ("mixed_pair", [0.8, 0.15]), ("mixed_ge3", [0.7, 0.15, 0.3])]
    tight = dict(eps=1e-12, qeps1=1e-9, qeps2=1e-12)
    for kind, rs in cases:
        sp = [Sphere(n=1.59 if i % 2 == 0 else 1.5 + 0.01j, r=r, center=centers[i]) for i, r in enumerate(rs)]
        for meth in (1, 0):
            th = Multisphere(meth=meth, **(tight if meth == 1 else {}))
            try:
                with warnings.catch_warnings():
                    warnings.simplefilter("ignore")
                    base = calc_field(pts, Spheres(sp), theory=th, **OPT).values
            except Exception as e:
                ctx.violation("permutation/%s/base_exception" % kind, {"radii": rs, "meth": meth, "exc": repr(e)})
                continue
            perms = list(itertools.permutations(range(len(sp))))[1:]
            if quick and len(perms) > 6:
                perms = rng.sample(perms, 6)
            worst, failed = 0.0, None
            for perm in perms:
                ctx.case(("perm", kind, tuple(rs), meth, perm))
                try:
                    with warnings.catch_warnings():
                        warnings.simplefilter("ignore")
                        f = calc_field(pts, Spheres([sp[i] for i in perm]), theory=th, **OPT).values
                    worst = max(worst, quant.reldiff(f, base))
                except Exception as e:
                    failed = (perm, repr(e)[:120])
            tol = 1e-7 if meth == 1 else 1e-3
            if failed or worst > tol:
                ctx.violation("permutation/%s" % kind, {"radii": rs, "meth": meth, "worst_rel_diff": worst,
                                                        "order_dependent_failure": failed})
            else:
                ctx.trace_ok(len(perms))
    # two strongly coupled spheres and a very weak one, with the solver's default options: wherever the weak member is
    # listed, the iteration has to go on until the strong pair has converged
    weak = [Sphere(n=2.0, r=0.5, center=(3.0, 3.2, 8.0)), Sphere(n=2.0, r=0.5, center=(3.1, 3.05, 9.05)),
            Sphere(n=1.45, r=0.01, center=(3.3, 4.4, 8.6))]
    wpts = detector_points(x=np.array([0.5, 2.5, 4.0, 5.5]), y=np.array([1.0, 3.0, 5.5, 2.0]), z=0.0)
    for meth in (1, 0):
        try:
            with warnings.catch_warnings():
                warnings.simplefilter("ignore")
                fields = {perm: calc_field(wpts, Spheres([weak[i] for i in perm], warn=False), theory=Multisphere(meth=meth), **OPT).values
                          for perm in itertools.permutations(range(3))}
        except Exception as e:
            ctx.violation("permutation/weak_member/exception", {"meth": meth, "exc": repr(e)[:200]})
            continue
        ref_w = fields[(0, 1, 2)]
        for perm, f in fields.items():
            ctx.case(("perm_weak_member", meth, perm), nontrivial=perm != (0, 1, 2))
            d = quant.reldiff(f, ref_w)
            if d > 1e-3:
                ctx.violation("permutation/weak_member", {"meth": meth, "order": perm, "rel_diff": d})
            else:
                ctx.trace_ok()
    # ---------------- rotation covariance about the optical axis, one-sphere cluster ---------------------
    for kind, rs in (("equal", [0.4, 0.4, 0.4]), ("mixed_pair", [0.6, 0.25])):
        for meth in (1, 0):
            th = Multisphere(meth=meth, **(tight if meth == 1 else {}))
            sp = [Sphere(n=1.59, r=r, center=centers[i]) for i, r in enumerate(rs)]
            base = calc_field(pts, Spheres(sp), illum_polarization=(math.cos(0.3), math.sin(0.3)), theory=th,
                              medium_index=1.33, illum_wavelen=0.66).values
            for ang in (0.7, 2.0, 4.4):
                ca, sa = math.cos(ang), math.sin(ang)
                rot = lambda p: (ca * p[0] - sa * p[1], sa * p[0] + ca * p[1], p[2])
                sp2 = [Sphere(n=1.59, r=s.r, center=rot(s.center)) for s in sp]
                px, py = pts.x.values, pts.y.values
                p2 = detector_points(x=ca * px - sa * py, y=sa * px + ca * py, z=0.0)
                f = calc_field(p2, Spheres(sp2), illum_polarization=(math.cos(0.3 + ang), math.sin(0.3 + ang)),
                               theory=th, medium_index=1.33, illum_wavelen=0.66).values
                want = np.stack([ca * base[:, 0] - sa * base[:, 1], sa * base[:, 0] + ca * base[:, 1], base[:, 2]], 1)
                d = quant.reldiff(f, want)
                ctx.case(("rotation", kind, meth, ang))
                if d > (1e-6 if meth == 1 else 1e-3):
                    ctx.violation("rotation/%s" % kind, {"meth": meth, "angle": ang, "defect": d})
                else:
                    ctx.trace_ok()
    # the four cross-section numbers of the multi-sphere solution are invariants of the same rotation
    # (cluster and polarisation turned together), for polarisations along and oblique to the axes
    from holopy.scattering import calc_cross_sections
    close = [(0.5, 0.1, 0.0), (-0.4, -0.2, 0.3), (0.1, 0.75, -0.2)]
    # (each cluster cross-section call integrates the asymmetry adaptively, ~5 s: the quick tier keeps 4)
    for kind, rs in ((("pair", [0.35, 0.35]),) if quick else (("pair", [0.35, 0.35]), ("mixed_trimer", [0.35, 0.2, 0.3]))):
        sp = [Sphere(n=1.59, r=r, center=close[i]) for i, r in enumerate(rs)]
        for psi in ((0.3, 2.0) if quick else (0.0, 0.3, math.pi / 4, 2.0)):
            cs0 = calc_cross_sections(Spheres(sp), illum_polarization=(math.cos(psi), math.sin(psi)),
                                      theory=Multisphere(), medium_index=1.33, illum_wavelen=0.66).values
            for ang in ((0.7,) if quick else (0.7, 2.0)):
                ca, sa = math.cos(ang), math.sin(ang)
                sp2 = [Sphere(n=1.59, r=s_.r, center=(ca * s_.center[0] - sa * s_.center[1],
                                                      sa * s_.center[0] + ca * s_.center[1], s_.center[2])) for s_ in sp]
                cs1 = calc_cross_sections(Spheres(sp2), illum_polarization=(math.cos(psi + ang), math.sin(psi + ang)),
                                          theory=Multisphere(), medium_index=1.33, illum_wavelen=0.66).values
                d = max(float(np.max(np.abs(cs1[:3] - cs0[:3]))) / abs(cs0[2]), abs(float(cs1[3] - cs0[3])))
                ctx.case(("rotation_cross_sections", kind, round(psi, 3), ang))
                if d > 1e-6:
                    ctx.violation("rotation/cross_sections/%s" % ("axis_polarisation" if psi == 0.0 else "oblique_polarisation"),
                                  {"radii": rs, "polarisation_angle": psi, "rotation": ang, "defect": d,
                                   "before": cs0.tolist(), "after": cs1.tolist()})
                else:
                    ctx.trace_ok()
    s1 = Sphere(n=1.59, r=0.5, center=(1.0, 1.2, 8.0))
    for meth in (1, 0):
        a = calc_field(pts, Spheres([s1]), theory=Multisphere(meth=meth, **tight), **OPT).values
        b = calc_field(pts, s1, theory=Mie(False, True), **OPT).values
        d = quant.reldiff(a, b)
        ctx.case(("one_sphere", meth))
        if d > 1e-4:
            ctx.violation("one_sphere_cluster", {"meth": meth, "defect": d})
        else:
            ctx.trace_ok()
        # an absorbing sphere, in water and in a denser medium (the relative index is complex / n_medium)
        for nmed_ in (1.33, 1.5):
            sa = Sphere(n=1.59 + 0.1j, r=0.45, center=(1.0, 1.2, 8.0))
            kwa = dict(medium_index=nmed_, illum_wavelen=0.66, illum_polarization=(1, 0))
            a = calc_field(pts, Spheres([sa]), theory=Multisphere(meth=meth, **tight), **kwa).values
            b = calc_field(pts, sa, theory=Mie(False, True), **kwa).values
            d = quant.reldiff(a, b)
            ctx.case(("one_sphere_absorbing", meth, nmed_))
            if d > 1e-4:
                ctx.violation("one_sphere_cluster/absorbing", {"meth": meth, "medium_index": nmed_, "defect": d})
            else:
                ctx.trace_ok()
        # ... and with the radial field component switched on in both solvers (near field, oblique light)
        near = detector_points(x=np.array([0.3, 1.7, 2.9, 0.9]), y=np.array([0.2, 2.4, 0.8, 3.1]), z=6.0)
        kwr = dict(medium_index=1.33, illum_wavelen=0.66, illum_polarization=(math.cos(0.4), math.sin(0.4)))
        a = calc_field(near, Spheres([s1]), theory=Multisphere(meth=meth, compute_escat_radial=True, **tight), **kwr).values
        b = calc_field(near, s1, theory=Mie(True, True), **kwr).values
        d = quant.reldiff(a, b)
        ctx.notes.setdefault("one_sphere_radial_defect", []).append(d)
        ctx.case(("one_sphere_radial", meth))
        if d > 1e-4:
            ctx.violation("one_sphere_cluster/radial_component", {"meth": meth, "defect": d})
        else:
            ctx.trace_ok()
    ctx.exhaustive = not quick


if __name__ == "__main__":
    sys.exit(harness.main(PID, run))
