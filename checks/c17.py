"""C17 — propagation is a norm-bounded linear group action; fft/ifft are inverses.

spec/Propagate.tla is a state-merging model (abstract state = net distance + "evanescent mask
applied"); TLC enumerates all paths within the bounds under VIEW = abstract state, and an edge
cover of the dumped graph is executed with the real propagate()/fft()/ifft() on every small
shape (exhaustively 2x2..7x7 in the thorough tier) with real and complex data in both sampling
regimes; the image carried along a path must equal the canonical image of the target state.
"""
import os
import random
import sys

sys.path.insert(0, os.path.join(os.path.dirname(os.path.abspath(__file__)), "..", "lib"))
import boot  # noqa
import harness
import quant
import tlc as tlcmod
from graph import Graph

import numpy as np

PID = "C17"

import holopy as hp
from holopy.core.metadata import data_grid
from holopy.core.process import fft, ifft
from holopy.propagation import propagate

WL, NMED = 0.66, 1.33
LAM = WL / NMED
TOL = 1e-10


def mkimg(arr, spacing):
    return data_grid(arr, spacing=spacing, medium_index=NMED, illum_wavelen=WL,
                     illum_polarization=(1, 0), noise_sd=0.03, name="holo")


def planes(im):
    """list of 2-d arrays (x, y order), one per z plane, compared by content not position"""
    if "z" in im.dims:
        im = im.transpose("z", "x", "y")
        return [np.asarray(im.values[i]) for i in range(im.shape[0])]
    return [np.asarray(im.transpose("x", "y").values)]


def one(im):
    p = planes(im)
    if len(p) != 1:
        raise ValueError("expected a single plane, got %d" % len(p))
    return p[0]


def dist(a, b, scale):
    if a.shape != b.shape:
        return float("inf")
    if not (np.all(np.isfinite(a)) and np.all(np.isfinite(b))):
        return float("inf")
    return float(np.max(np.abs(a - b))) / scale


def meta_ok(base, im):
    try:
        return (np.array_equal(im.x.values, base.x.values) and np.array_equal(im.y.values, base.y.values)
                and im.medium_index == base.medium_index and im.illum_wavelen == base.illum_wavelen
                and im.noise_sd == base.noise_sd
                and np.array_equal(np.asarray(im.illum_polarization), np.asarray(base.illum_polarization)))
    except Exception:
        return False


def kwargs_for(opt):
    return {"plain": {}, "cfsp2": {"cfsp": 2}, "cfsp3": {"cfsp": 3}}[opt]


def run(ctx):
    quick = ctx.tier == "quick"
    rng = random.Random(ctx.seed)
    nprng = np.random.default_rng(ctx.seed)
    ctx.rule = ("TLC enumerates all propagate() call paths (k in {-2,-1,1,2} x {plain,cfsp2,cfsp3}, "
                "zero distance, 5 distance lists incl. zeros and negatives) of length <= 3 in both "
                "sampling regimes and all fft/ifft alternations of length <= 4; an edge cover is "
                "executed per (shape, dtype); distinct = (shape, dtype, regime, edge); non-trivial "
                "= shape with an odd or unequal side, or path of >= 2 calls")
    ctx.assumptions = ["images compared at 1e-10 of max|image|; planes of a stack matched by content",
                       "band-limited regime: spacing = medium wavelength; evanescent regime: 0.3 x"]
    g = ctx.tlc_graph("Propagate", "Propagate_prop.cfg")
    # NB: VIEW is set in the cfg, so nodes are abstract states
    if quick:
        shapes = [(2, 2), (3, 3), (4, 5), (5, 4), (7, 7), (6, 3), (2, 7)]
        shapes.append((int(nprng.integers(8, 33)), int(nprng.integers(8, 33))))
    else:
        shapes = [(a, b) for a in range(2, 8) for b in range(2, 8)]
        shapes += [(int(nprng.integers(8, 65)), int(nprng.integers(8, 65))) for _ in range(6)] + [(64, 64), (63, 64)]
    g.shortest_paths()
    inits = {g.states[i]["regime"]: i for i in g.init}
    nrun = 0
    for shape in shapes:
        for dtype in ("real", "complex"):
            arr = nprng.normal(size=shape)
            if dtype == "complex":
                arr = arr + 1j * nprng.normal(size=shape)
            arr2 = nprng.normal(size=shape) + (1j * nprng.normal(size=shape) if dtype == "complex" else 0)
            scale = float(np.max(np.abs(arr)))
            for regime in ("band", "evan"):
                spacing = LAM * (1.0 if regime == "band" else 0.3)
                if rng.random() < 0.5:
                    spacing = (spacing, spacing * 1.25)     # anisotropic pixels
                d0 = rng.uniform(0.5, 20) * LAM
                base = mkimg(arr, spacing)
                base0 = base
                if regime == "band" and rng.random() < 0.6:
                    # a cut-out keeps the parent frame's coordinates: the picture does not start at (0, 0).  (Band-limited
                    # sampling only: with evanescent components the result reacts to the last bit of the pixel pitch, 1e-6
                    # for 1e-15, and adding an origin changes that bit.)
                    base = base.assign_coords(x=base.x.values + 37.5 * LAM, y=base.y.values - 12.25 * LAM)
                    ctx.case((shape, dtype, regime, "origin_independence"), nontrivial=True)
                    try:
                        dorg = max(dist(one(propagate(base, kk * d0)), one(propagate(base0, kk * d0)), scale) for kk in (1, -2))
                        if dorg > TOL or not meta_ok(base, propagate(base, d0)):
                            ctx.violation("propagate/origin_dependence", {"shape": shape, "dtype": dtype, "regime": regime, "defect": dorg})
                        else:
                            ctx.trace_ok()
                    except Exception as ex:
                        ctx.violation("propagate/exception", {"shape": shape, "exc": repr(ex), "what": "shifted origin"})
                # the optics given with the call, on a picture that carries none or others: they go with the result,
                # and the next step relies on them
                ctx.case((shape, dtype, regime, "optics_from_keywords"), nontrivial=True)
                try:
                    bare = data_grid(arr, spacing=spacing, name="holo")
                    other = data_grid(arr, spacing=spacing, medium_index=1.0, illum_wavelen=WL * 1.3, name="holo")
                    want2 = one(propagate(base0, 3 * d0))
                    dk = 0.0
                    for src_ in (bare, other):
                        step1 = propagate(src_, d0, medium_index=NMED, illum_wavelen=WL)
                        if step1.medium_index != NMED or step1.illum_wavelen != WL:
                            dk = float("inf")
                            break
                        dk = max(dk, dist(one(propagate(step1, 2 * d0)), want2, scale))
                    if not dk <= TOL:
                        ctx.violation("propagate/optics_from_keywords", {"shape": shape, "dtype": dtype, "regime": regime, "defect": dk})
                    else:
                        ctx.trace_ok()
                except Exception as ex:
                    ctx.violation("propagate/exception", {"shape": shape, "exc": repr(ex)[:200], "what": "optics from keywords"})
                cache = {}

                def canonical(net, masked):
                    key = (net, masked)
                    if key not in cache:
                        if net == 0 and not masked:
                            cache[key] = one(base)
                        elif net == 0:
                            cache[key] = one(propagate(propagate(base, d0), -d0))
                        else:
                            cache[key] = one(propagate(base, net * d0))
                    return cache[key]

                def apply(im, e):
                    if e[1] == "Prop":
                        return propagate(im, e[2][0] * d0, **kwargs_for(e[2][1]))
                    if e[1] == "PropZero":
                        return propagate(im, 0)
                    if e[1] == "PropList":
                        return propagate(im, [k * d0 for k in e[2][0]], **kwargs_for(e[2][1]))
                    raise ValueError(e[1])

                # linearity, energy, gradient filter on the first step
                try:
                    a, b = 0.7, -1.3
                    p1, p2 = one(propagate(base0, d0)), one(propagate(mkimg(arr2, spacing), d0))
                    comb = one(propagate(mkimg(a * arr + b * arr2, spacing), d0))
                    dl = dist(comb, a * p1 + b * p2, scale)
                    # homogeneity over many decades: a field of amplitude 1e-9 (or 1e6) is the same field
                    for c_ in (1e-9, 1e6):
                        pc = one(propagate(mkimg(c_ * arr, spacing), d0))
                        dl = max(dl, dist(pc / c_, p1, scale))
                    dg = 0.0
                    for gf in (0.37 * LAM, -0.29 * LAM):          # the filter offset may have either sign
                        dg = max(dg, dist(one(propagate(base0, d0, gradient_filter=gf)),
                                          p1 - one(propagate(base0, d0 + gf)), scale))
                    # the same image in metres (all lengths x 1e-6): the same picture; and a propagation by a few
                    # nanometres (a tenth of a radian of phase) is a propagation, as a scalar and inside a list
                    u = 1e-6
                    si = data_grid(arr, spacing=tuple(np.atleast_1d(spacing) * u) if np.ndim(spacing) else spacing * u,
                                   medium_index=NMED, illum_wavelen=WL * u, illum_polarization=(1, 0), noise_sd=0.03, name="holo")
                    dl = max(dl, dist(one(propagate(si, d0 * u)), p1, scale))
                    t = 0.011 * LAM * u
                    tiny = one(propagate(si, t))
                    in_list = propagate(si, [t, 2 * t])
                    dl = max(dl, dist(tiny, np.asarray(in_list.sel(z=t).transpose("x", "y").values), scale),
                             dist(one(propagate(propagate(si, t), d0 * u)), one(propagate(si, d0 * u + t)), scale))
                    ctx.case(("linear", shape, dtype, regime))
                    if dl > TOL or dg > TOL:
                        ctx.violation("propagate/%s" % ("linearity" if dl > TOL else "gradient_filter"),
                                      {"shape": shape, "dtype": dtype, "regime": regime, "defect": max(dl, dg)})
                    else:
                        ctx.trace_ok()
                except Exception as ex:
                    ctx.violation("propagate/exception", {"shape": shape, "exc": repr(ex)})
                    continue
                for e in g.edges:
                    src = g.states[e[0]]
                    if src["regime"] != regime:
                        continue
                    init, path = g.path_to(e[0])
                    nrun += 1
                    ctx.case((shape, dtype, regime, src["net"], src["masked"], e[1], e[2]),
                             nontrivial=(shape[0] != shape[1] or shape[0] % 2 == 1 or len(path) >= 1))
                    try:
                        im = base
                        for pe in path:
                            im = apply(im, pe)
                        before = one(im)
                        res = apply(im, e)
                    except Exception as ex:
                        ctx.violation("propagate/exception", {"shape": shape, "dtype": dtype,
                                                              "regime": regime, "exc": repr(ex),
                                                              "path": [(p[1], p[2]) for p in path + [e]]})
                        continue
                    tgt = g.states[e[3]]
                    bad = None
                    if e[1] == "PropZero":
                        if res is not im:
                            bad = ("zero_returns_input", 0.0)
                    elif e[1] == "Prop":
                        d = dist(one(res), canonical(tgt["net"], tgt["masked"]), scale)
                        if d > TOL:
                            bad = ("composition", d)
                        en0, en1 = float(np.sum(np.abs(before) ** 2)), float(np.sum(np.abs(one(res)) ** 2))
                        if en1 > en0 * (1 + 1e-10):
                            bad = ("energy_increased", en1 / en0)
                        if not meta_ok(base, res):
                            bad = ("coords_or_metadata", 0.0)
                        if not bad and not ("z" in res.coords and np.array_equal(np.atleast_1d(res.z.values), [e[2][0] * d0])):
                            bad = ("z_label", float(np.atleast_1d(res.z.values)[0]) if "z" in res.coords else float("nan"))
                    else:   # PropList: the stack of the single-distance results, matched by content
                        ks = e[2][0]
                        got = planes(res)
                        want = []
                        for k in ks:
                            want.append(before if k == 0 else canonical(src["net"] + k, tgt["masked"]))
                        if len(got) != len(want):
                            bad = ("list_plane_count", float(len(got)))
                        else:
                            used = set()
                            for w in want:
                                hit = [i for i, gp in enumerate(got) if i not in used and dist(gp, w, scale) <= TOL]
                                if not hit:
                                    bad = ("list_is_stack", min(dist(gp, w, scale) for gp in got))
                                    break
                                used.add(hit[0])
                        if not bad and not meta_ok(base, res):
                            bad = ("coords_or_metadata", 0.0)
                        if not bad:
                            # ... and each plane sits under the label of its own distance
                            # (the plane for distance 0 is the input itself and keeps the input's own label)
                            zin = float(np.atleast_1d(im.z.values)[0]) if "z" in im.coords else 0.0
                            lab = {k: (zin if k == 0 else k * d0) for k in ks}
                            zs = [float(z) for z in np.atleast_1d(res.z.values)]
                            if sorted(zs) != sorted(lab.values()):
                                bad = ("list_z_labels", zs[0])
                            elif len(set(lab.values())) == len(ks):
                                for k, w in zip(ks, want):
                                    pl = np.asarray(res.sel(z=lab[k]).transpose("x", "y").values)
                                    if dist(pl, w, scale) > TOL:
                                        bad = ("list_plane_under_wrong_label", dist(pl, w, scale))
                                        break
                    if bad:
                        ctx.violation("propagate/%s" % bad[0],
                                      {"shape": shape, "dtype": dtype, "regime": regime, "defect": bad[1],
                                       "d0": d0, "path": [(p[1], p[2]) for p in path + [e]],
                                       "spec_target": {"net": tgt["net"], "masked": tgt["masked"],
                                                       "stack": tgt["stack"]}})
                    else:
                        ctx.trace_ok()
    ctx.sample({"shape": shape, "dtype": dtype, "regime": regime, "d0": d0,
                "path": [(p[1], p[2]) for p in path + [e]], "spec_target": dict(tgt)})
    ctx.notes["propagate_edges_executed"] = nrun

    # ---------------- fft / ifft ---------------------------------------------------------------
    gf = ctx.tlc_graph("Propagate", "Propagate_fft.cfg")
    fshapes = [(a, b) for a in range(2, 8) for b in range(2, 8)]
    fshapes += [(int(nprng.integers(8, 65)), int(nprng.integers(8, 65))) for _ in range(4 if quick else 30)]
    for shape in fshapes:
        for dtype in ("real", "complex"):
            arr = nprng.normal(size=shape) + (1j * nprng.normal(size=shape) if dtype == "complex" else 0)
            # amplitudes over many decades (a weak field is still a field): rotate 1, 1e-9, 1e6
            arr = arr * [1.0, 1e-9, 1e6][(shape[0] + shape[1] + (dtype == "complex")) % 3]
            base = mkimg(arr, (0.1, 0.13))
            for e in gf.edges:
                init, path = gf.path_to(e[0])
                ctx.case(("fft", shape, dtype, len(path), e[1]), nontrivial=shape[0] % 2 == 1 or shape[1] % 2 == 1)
                try:
                    im = base
                    for pe in path + [e]:
                        im = fft(im) if pe[1] == "Fft" else ifft(im)
                except Exception as ex:
                    ctx.violation("fft/exception", {"shape": shape, "exc": repr(ex)})
                    continue
                tgt = gf.states[e[3]]
                if tgt["net"] == "space":
                    d = dist(one(im), arr, float(np.max(np.abs(arr))))
                    cx = float(np.max(np.abs(im.x.values - base.x.values)))
                    cy = float(np.max(np.abs(im.y.values - base.y.values)))
                    if d > 1e-12 or max(cx, cy) > 1e-12 or im.medium_index != base.medium_index:
                        ctx.violation("fft/ifft_fft_identity", {"shape": shape, "dtype": dtype, "defect": d,
                                                                "coord_defect": max(cx, cy),
                                                                "n_transforms": len(path) + 1})
                    else:
                        ctx.trace_ok()
                else:
                    # Parseval with numpy's own transform as leaf
                    want = np.fft.fftshift(np.fft.fft2(arr))
                    d = dist(one(im.rename({"m": "x", "n": "y"})), want, float(np.max(np.abs(want))))
                    if d > 1e-12:
                        ctx.violation("fft/forward_value", {"shape": shape, "defect": d})
                    else:
                        ctx.trace_ok()
    # 1-d arrays
    for n in range(2, 12):
        for shift in (True, False):
            x = nprng.normal(size=n) + 1j * nprng.normal(size=n)
            ctx.case(("fft1d", n, shift), nontrivial=n % 2 == 1)
            d = float(np.max(np.abs(ifft(fft(x, shift), shift) - x)))
            if d > 1e-12:
                ctx.violation("fft/1d", {"n": n, "shift": shift, "defect": d})
            else:
                ctx.trace_ok()
    ctx.exhaustive = not quick


if __name__ == "__main__":
    sys.exit(harness.main(PID, run))
