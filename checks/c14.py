"""C14 — priors are proper, match their samplers, and are closed under arithmetic.

spec/PriorAlgebra.tla: (a) the constructor table over an order-type abstraction of the extended
reals with exact rational guesses/supports/densities, (b) the operator algebra as a state
machine with exact rational guesses.  TLC enumerates both; every state (a) and every path (b) of
the dumped graph is replayed on real prior objects.  spec/PriorTrace.tla validates recorded
statistical observations (samples in support, KS distance, integrals, lnprob = log prob).
"""
import math
import operator
import os
import random
import sys
from fractions import Fraction

sys.path.insert(0, os.path.join(os.path.dirname(os.path.abspath(__file__)), "..", "lib"))
import boot  # noqa
import harness
import quant
import trace as tracemod

import numpy as np
from scipy import stats, integrate

PID = "C14"

from holopy.inference import prior
from holopy.core.prior import Prior, TransformedPrior
from holopy.scattering.errors import ParameterSpecificationError

NEG, POS, NOGUESS = -1000, 1000, 999


def ext(v):
    return -np.inf if v == NEG else (np.inf if v == POS else float(v))


def rat(x):
    return Fraction(x[0], x[1])


# --------------------------------------------------------------------------------------
# order-preserving affine embeddings x -> a + b*x of the table's integer lattice into the reals: the
# constructors' decisions depend on the order of their arguments only, whatever the unit and offset
# (lengths in metres next to 1, micrometre-wide windows around 1e4, ...)
EMBEDDINGS = [(0.0, 1.0), (1.0, 2.0 ** -20), (0.0, 1e-9), (1e4, 0.01), (-3.0, 250.0)]


def check_ctor(ctx, st, emb=(0.0, 1.0)):
    c, out = st["cur"]["case"], st["cur"]["out"]
    kind = c["kind"]
    key = tuple(sorted((k, str(v)) for k, v in c.items()))
    ctx.case(("ctor", key, emb), nontrivial=True)
    A, B = emb

    def ext(v):                         # value
        return -np.inf if v == NEG else (np.inf if v == POS else A + B * float(v))

    def wid(v):                         # width (standard deviation)
        return -np.inf if v == NEG else (np.inf if v == POS else B * float(v))
    SC = max(abs(A), abs(B))

    def viol(clause, detail):
        ctx.violation("ctor/%s/%s%s" % (kind, clause, "" if emb == (0.0, 1.0) else "/embedded"), dict(detail, case=c, embedding=list(emb)))
        return False
    try:
        if kind == "Uniform":
            kw = {} if c["g"] == NOGUESS else {"guess": ext(c["g"])}
            obj = prior.Uniform(ext(c["lo"]), ext(c["hi"]), **kw)
        elif kind == "Gaussian":
            obj = prior.Gaussian(ext(c["mu"]), wid(c["sd"]))
        elif kind == "BoundedGaussian":
            obj = prior.BoundedGaussian(ext(c["mu"]), wid(c["sd"]), ext(c["lo"]), ext(c["hi"]))
        else:
            re = prior.Uniform(1.0, 2.0) if c["re"] == "free" else 1.5
            im = prior.Gaussian(0.1, 0.01) if c["im"] == "free" else 0.25
            obj = prior.ComplexPrior(re, im)
        accepted = True
    except ParameterSpecificationError:
        accepted = False
    except Exception as e:
        return viol("unexpected_exception", {"exc": repr(e)})
    if accepted != out["accept"]:
        return viol("accepted_nonsense" if accepted else "rejected_valid",
                    {"impl_accepts": accepted, "spec_accepts": out["accept"]})
    if not accepted:
        return True
    if kind == "Complex" and emb != (0.0, 1.0):
        return True
    if kind == "Complex":
        g = obj.guess
        eg = complex(1.5, 0.1 if c["im"] == "free" else 0.25)
        z = complex(1.25, 0.105)
        want = (re.lnprob(z.real) if c["re"] == "free" else 0) + (im.lnprob(z.imag) if c["im"] == "free" else 0)
        ok = abs(g - eg) < 1e-12 and abs(obj.lnprob(z) - want) < 1e-12 and \
            abs(obj.prob(z) - math.exp(want)) < 1e-9 * max(1, math.exp(want))
        nfree = sum(isinstance(b, Prior) for b in obj.base_prior)
        if not ok or nfree != out["nfree"]:
            return viol("complex", {"guess": repr(g), "nfree": nfree})
        np.random.seed(3)
        s = obj.sample()
        if c["re"] == "fixed" and s.real != 1.5 or c["im"] == "fixed" and s.imag != 0.25:
            return viol("complex_sample", {"sample": repr(s)})
        return True
    eg = A + B * float(rat(out["guess"]))
    if kind == "Uniform" and c["lo"] == NEG and c["hi"] == POS and c["g"] == NOGUESS:
        eg = 0.0           # the unbounded prior's default guess is the number 0, in any unit
    if abs(obj.guess - eg) > 1e-12 * SC:
        return viol("guess", {"impl": obj.guess, "spec": eg})
    tv = A + B * 1.2345
    if not abs(obj.unscale(obj.scale(tv)) - tv) < 1e-12 * SC:
        return viol("scale_unscale", {})
    # the same for an array of values; the array given is only read
    ta = np.array([tv, A + B * 0.5, A - B * 2.0])
    ta_keep = ta.copy()
    sa = obj.scale(ta)
    ua = obj.unscale(sa)
    if not np.array_equal(ta, ta_keep) or sa is ta:
        return viol("scale_modifies_its_argument", {"given": ta_keep.tolist(), "after": ta.tolist()})
    if not np.all(np.abs(ua - ta_keep) < 1e-12 * SC) or not np.all(np.abs(sa * obj.scale_factor - ta_keep) < 1e-12 * SC):
        return viol("scale_unscale", {"array": True})
    if kind in ("Uniform", "BoundedGaussian"):
        lo, hi = ext(c["lo"]), ext(c["hi"])
        pts_in = [A + B * float(p) for p in out["support"]]
        pts_out = [A + B * float(p) for p in out["outside"]]
        for b in (lo, hi):                      # points just beyond finite bounds
            if np.isfinite(b):
                pts_in.append(b)
                pts_out += [b - 1e-9, b + 1e-9] if False else []
        if np.isfinite(lo):
            pts_out.append(lo - 1e-9 * B if A == 0 else lo - 1e-3 * B)
        if np.isfinite(hi):
            pts_out.append(hi + 1e-9 * B if A == 0 else hi + 1e-3 * B)
        improper = kind == "Uniform" and out["density"][1] == 0
        for p in pts_in:
            # improper (half-infinite) uniform: a finite constant inside is all that is asserted
            if not (np.isfinite(obj.lnprob(p)) and (improper or obj.prob(p) > 0)):
                return viol("inside_has_density", {"p": p, "lnprob": obj.lnprob(p), "prob": obj.prob(p)})
        for p in pts_out:
            if not (obj.lnprob(p) == -np.inf and obj.prob(p) == 0):
                return viol("outside_is_zero", {"p": p, "lnprob": obj.lnprob(p), "prob": obj.prob(p)})
        if kind == "Uniform" and out["density"][1] != 0:
            d = float(rat(out["density"])) / B
            for p in pts_in:
                if abs(obj.prob(p) - d) > 1e-9 * d or abs(obj.lnprob(p) - math.log(d)) > 1e-9:
                    return viol("density", {"p": p, "prob": obj.prob(p), "lnprob": obj.lnprob(p), "spec": d})
        if np.isfinite(lo) and np.isfinite(hi):
            np.random.seed(11)
            for size in (None, 1, 7):
                s = obj.sample(size)
                a = np.atleast_1d(s)
                shape_ok = (np.ndim(s) == 0) if size is None else (np.shape(s) == (size,))
                if not shape_ok or np.any(a < lo) or np.any(a > hi):
                    return viol("sample_in_support", {"size": size, "sample": a.tolist()})
    else:
        for p in (A - 3.0 * B, A, A + 0.5 * B, A + 2.0 * B):
            if abs(obj.lnprob(p) - math.log(obj.prob(p))) > 1e-10 * max(1.0, abs(obj.lnprob(p))):
                return viol("lnprob_is_log_prob", {"p": p})
    return True


# --------------------------------------------------------------------------------------
PYOPS = {"add": operator.add, "sub": operator.sub, "mul": operator.mul, "div": operator.truediv,
         "pow": operator.pow}
UFUNCS = {"square": np.square, "negative": np.negative, "absolute": np.absolute, "add": np.add,
          "maximum": np.maximum}


def operand(o, P, Q, variant):
    k = o["k"]
    if k == "P":
        return P, ("leaf", P)
    if k == "Q":
        return Q, ("leaf", Q)
    if k == "str":
        return "abc", None
    if k == "none":
        return None, None
    n, d = o["v"]
    # the number type is not part of the number: python int / float and NumPy scalars in turn
    val = n / d if d != 1 else (int(n) if variant % 2 == 0 else float(n))
    if variant % 3 == 2:
        val = np.float64(val) if isinstance(val, float) else np.int64(val)
    return val, ("num", val)


def draw(node, size):
    """sample an expression tree in the order the library consumes the global RNG"""
    if node[0] == "leaf":
        return node[1].sample(size)
    if node[0] == "num":
        return node[1] if size is None else np.repeat(float(node[1]), size)
    if node[0] == "neg":
        return -1 * draw(node[1], size)
    if node[0] == "ufunc":
        args = [draw(a, size) for a in node[2]]
        return node[1](*args)
    a = draw(node[1], size)
    b = draw(node[2], size)
    with np.errstate(all="ignore"):
        if node[0] == "pow":
            return np.power(a, b) if size is not None else a ** b
        return PYOPS[node[0]](a, b)


def check_alg(ctx, g, rng):
    nedges = 0
    for init in g.init:
        st0 = g.states[init]
        P = prior.Uniform(1.0, 3.0)             # guess 2
        Q = prior.Gaussian(3.0, 0.5)            # guess 3
        start = P if tuple(st0["cur"]) == (2, 1) else Q
        stack = [(init, start, ("leaf", start), [])]
        while stack:
            sid, obj, tree, path = stack.pop()
            for e in g.out.get(sid, []):
                tgt = g.states[e[3]]
                nedges += 1
                desc = path + [(e[1], e[2])]
                ctx.case(("alg", str(desc)), nontrivial=len(desc) > 1 or e[1] != "Negate")
                want = tgt["last"]
                res, newtree, exc = None, None, None
                try:
                    with np.errstate(all="ignore"):
                        if e[1] == "Apply":
                            op, other, side = e[2]
                            val, otree = operand(other, P, Q, nedges)
                            if side == "L":
                                res = PYOPS[op](obj, val)
                                newtree = (op, tree, otree)
                            else:
                                res = PYOPS[op](val, obj)
                                newtree = (op, otree, tree)
                        elif e[1] == "Negate":
                            res = -obj
                            newtree = ("neg", tree)
                        else:
                            f, other = e[2]
                            if other["k"] == "unary":
                                res = UFUNCS[f](obj)
                                newtree = ("ufunc", UFUNCS[f], [tree])
                            else:
                                val, otree = operand(other, P, Q, 1)
                                res = UFUNCS[f](obj, val)
                                newtree = ("ufunc", UFUNCS[f], [tree, otree])
                except (TypeError, ZeroDivisionError) as ex:
                    exc = ex
                except Exception as ex:
                    ctx.violation("alg/unexpected_exception", {"path": desc, "exc": repr(ex)})
                    continue
                bad = None
                if want == "raises":
                    if exc is None:
                        bad = "should_raise"
                elif want == "derived_or_raises":
                    pass
                elif exc is not None:
                    bad = "raised:%s" % type(exc).__name__
                elif want == "same":
                    if res is not obj:
                        bad = "identity_not_returned"
                elif want == "derived":
                    if res is obj or not isinstance(res, Prior):
                        bad = "not_a_derived_prior"
                elif want == "same_or_derived":
                    if not isinstance(res, Prior):
                        bad = "not_a_prior"
                if (bad is None and exc is None and isinstance(res, Prior) and len(tgt["cur"]) != 2
                        and e[1] == "Apply" and e[2][1]["k"] == "num"):
                    # guess outside the exact model (tiny operand): float arithmetic as the leaf
                    try:
                        with np.errstate(all="ignore"):
                            eg = PYOPS[e[2][0]](obj.guess, val) if e[2][2] == "L" else PYOPS[e[2][0]](val, obj.guess)
                        gg = res.guess
                        real = (not isinstance(eg, complex)) and np.isfinite(eg) and np.isfinite(gg)
                        if real and not abs(gg - eg) <= 1e-12 * max(1.0, abs(eg)):
                            bad = "guess"
                    except (ZeroDivisionError, OverflowError, TypeError):
                        pass
                if bad is None and exc is None and isinstance(res, Prior) and len(tgt["cur"]) == 2:
                    eg = float(rat(tgt["cur"]))
                    try:
                        gg = res.guess
                        if not abs(complex(gg) - eg) <= 1e-12 * max(1.0, abs(eg)):
                            bad = "guess"
                    except ZeroDivisionError:
                        bad = "guess_raises"
                    if bad is None and res is not obj:
                        # samples equal the same operation applied to the base priors' samples
                        for size in (None, 1, 4):
                            np.random.seed(1234)
                            try:
                                with np.errstate(all="ignore"):
                                    a = res.sample(size)
                                np.random.seed(1234)
                                with np.errstate(all="ignore"):
                                    b = draw(newtree, size)
                            except (ZeroDivisionError, OverflowError, ValueError):
                                continue
                            a_, b_ = np.atleast_1d(np.asarray(a, dtype=complex)), np.atleast_1d(np.asarray(b, dtype=complex))
                            fin = np.isfinite(a_) & np.isfinite(b_)
                            if a_.shape != b_.shape or (size is None and np.ndim(a) != 0) or \
                                    (size is not None and np.shape(a) != (size,)):
                                bad = "sample_shape(size=%r)" % (size,)
                                break
                            if np.any(np.abs(a_[fin] - b_[fin]) > 1e-10 * np.maximum(1.0, np.abs(b_[fin]))):
                                bad = "sample_value(size=%r)" % (size,)
                                break
                if bad:
                    ctx.violation("alg/%s" % bad, {"path": desc, "spec_outcome": want,
                                                   "spec_guess": list(tgt["cur"]),
                                                   "impl": repr(res)[:200], "exc": repr(exc)})
                else:
                    ctx.trace_ok()
                    if exc is None and isinstance(res, Prior) and len(tgt["cur"]) == 2:
                        stack.append((e[3], res, newtree if res is not obj else tree, desc))
    # arrays: elementwise rule
    P = prior.Uniform(1.0, 3.0)
    r = P + np.array([0.0, 1.0, 2.0])
    ctx.case(("alg", "array-add"))
    if not (isinstance(r, np.ndarray) and r[0] is P and isinstance(r[1], TransformedPrior)
            and abs(r[2].guess - 4.0) < 1e-12):
        ctx.violation("alg/array_add", {"impl": repr(r)[:200]})
    else:
        ctx.trace_ok()
    ctx.case(("alg", "array-mul"))
    try:
        P * np.array([0.0, 1.0])
        ctx.violation("alg/array_mul_zero_accepted", {})
    except TypeError:
        ctx.trace_ok()
    r = P * np.array([1.0, 2.0])
    if not (r[0] is P and abs(r[1].guess - 4.0) < 1e-12):
        ctx.violation("alg/array_mul", {"impl": repr(r)[:200]})
    return nedges


def truncated_cdf(mu, sd, lo, hi):
    a, b = stats.norm.cdf(lo, mu, sd), stats.norm.cdf(hi, mu, sd)
    return lambda x: (stats.norm.cdf(x, mu, sd) - a) / (b - a)


def run(ctx):
    quick = ctx.tier == "quick"
    rng = random.Random(ctx.seed)
    nprng = np.random.default_rng(ctx.seed)
    ctx.rule = ("TLC enumerates the constructor table (all order types of bounds/guess/mean/width "
                "over {-inf,-1,0,1,2,+inf}) and every operator expression path of depth <= MaxDepth "
                "over two base priors, five numbers, unsupported operands, negation and numpy "
                "ufuncs; each is replayed on real priors; distinct = constructor case or expression "
                "path; non-trivial = expression of depth >= 2 or accepted constructor")
    ctx.assumptions = ["half-infinite Uniform priors are improper by construction: only support "
                       "and finiteness asserted there", "KS threshold at p = 1e-9"]
    g = ctx.tlc_graph("PriorAlgebra", "PriorAlgebra_ctor.cfg")
    for st in g.states.values():
        for emb in EMBEDDINGS:
            if check_ctor(ctx, st, emb):
                ctx.trace_ok()
    ctx.sample({"ctor_case": st["cur"]["case"], "spec_outcome": {k: (sorted(v) if isinstance(v, frozenset) else v)
                                                                 for k, v in st["cur"]["out"].items()}})
    g = ctx.tlc_graph("PriorAlgebra", "PriorAlgebra_alg.cfg",
                      constants={"MaxDepth": 2 if quick else 3}, workers=16, heap="12g", timeout=3000)
    n = check_alg(ctx, g, rng)
    ctx.notes["algebra_edges_replayed"] = n
    ctx.sample({"algebra": "Uniform(1,3) [guess 2], Gaussian(3,.5) [guess 3]",
                "example_edge": [g.edges[len(g.edges) // 2][1], str(g.edges[len(g.edges) // 2][2])]})

    # ---------------- statistical observations (code -> spec) ------------------------------
    traces = []
    nsamp = 20000
    crit = int(1e6 * math.sqrt(math.log(2e9) / (2 * nsamp)))
    for t in range(12 if quick else 80):
        scale = 10.0 ** nprng.integers(-6, 7)
        center = float(nprng.normal()) * scale
        width = float(nprng.uniform(0.1, 3)) * scale
        kind = ["Uniform", "Gaussian", "BoundedGaussian", "BoundedHalf"][t % 4]
        if kind == "Uniform":
            lo, hi = center - width, center + width
            p = prior.Uniform(lo, hi)
            cdf = lambda x: (x - lo) / (hi - lo)
        elif kind == "Gaussian":
            lo, hi = -np.inf, np.inf
            p = prior.Gaussian(center, width)
            cdf = lambda x: stats.norm.cdf(x, center, width)
        elif kind == "BoundedGaussian":
            lo, hi = center - 0.7 * width, center + 1.3 * width
            p = prior.BoundedGaussian(center, width, lo, hi)
            cdf = truncated_cdf(center, width, lo, hi)
        else:
            lo, hi = center - 0.2 * width, np.inf
            p = prior.BoundedGaussian(center, width, lo, hi)
            cdf = truncated_cdf(center, width, lo, hi)
        np.random.seed(int(nprng.integers(0, 2**31 - 1)))
        evs = []
        try:
            s = p.sample(nsamp)
            s1 = p.sample(1)
            s0 = p.sample()
            allv = np.concatenate([s, np.atleast_1d(s1), np.atleast_1d(s0)])
            ks = float(stats.kstest(s, cdf).statistic)
            evs.append({"event": "Sample", "kind": kind, "n_outside": int(np.sum((allv < lo) | (allv > hi))),
                        "ks_e6": int(ks * 1e6), "ks_crit_e6": crit,
                        "shape_ok": bool(np.shape(s) == (nsamp,) and np.shape(s1) == (1,) and np.ndim(s0) == 0)})
        except Exception as e:
            ctx.violation("sample/%s/exception" % kind, {"exc": repr(e)})
        if kind in ("Uniform", "Gaussian"):
            a, b = (lo, hi) if kind == "Uniform" else (center - 12 * width, center + 12 * width)
            try:
                val = integrate.quad(lambda x: float(p.prob(x)), a, b, points=[center], limit=200)[0]
                evs.append({"event": "Integral", "kind": kind, "mb": quant.mb(abs(val - 1))})
                xs = np.linspace(a if kind == "Uniform" else center - 3 * width,
                                 b if kind == "Uniform" else center + 3 * width, 7)
                d = max((abs(p.lnprob(x) - math.log(p.prob(x))) / max(1.0, abs(p.lnprob(x))))
                        if p.prob(x) > 0 else float("inf") for x in xs)
                evs.append({"event": "LnProb", "kind": kind, "mb": quant.mb(d)})
            except Exception as e:
                ctx.violation("density/%s/exception" % kind, {"exc": repr(e)})
        x = center + 0.3 * width
        evs.append({"event": "Scale", "kind": kind,
                    "mb": quant.mb(abs(p.unscale(p.scale(x)) - x) / max(abs(x), 1e-300))})
        traces.append(evs)
        ctx.case(("stat", t, kind, float(scale)))
    verdicts = tracemod.validate(ctx, "PriorTrace", traces)
    for tr, (acc, line, clauses) in zip(traces, verdicts):
        if acc:
            ctx.trace_ok()
        else:
            ev = tr[line - 1]
            bad = [k for k, v in (clauses or {}).items() if v is False]
            ctx.violation("trace/%s/%s/%s" % (ev["event"], ev.get("kind"), ",".join(bad)), {"event": ev})
    ctx.sample({"trace": traces[0]})
    ctx.exhaustive = not quick


if __name__ == "__main__":
    sys.exit(harness.main(PID, run))
