"""X01 (extension, not one of the listed properties) — SamplingResult: burn-in composes, leaves its
parent untouched, derived intervals follow the samples held, save/load gives an equivalent result.

spec/SamplingSession.tla is model-checked by TLC; every path of the dumped graph is executed on real
SamplingResult objects built from synthetic chains (the sampler's library is not installed)."""
import io as _io
import os
import random
import shutil
import sys
import tempfile
import warnings

sys.path.insert(0, os.path.join(os.path.dirname(os.path.abspath(__file__)), "..", "lib"))
import boot  # noqa
import harness
import fp

import numpy as np
import xarray as xr

PID = "X01"

import holopy as hp
from holopy.scattering import Sphere, calc_holo
from holopy.inference import prior, AlphaModel, EmceeStrategy
from holopy.inference.result import SamplingResult
from holopy.core.io import serialize

KW = dict(medium_index=1.33, illum_wavelen=0.66, illum_polarization=(1, 0))
P_LOW = 15.865525393145708


def yaml_text(obj):
    b = _io.BytesIO()
    serialize.save(b, obj)
    return b.getvalue()


def make_result(nchain, nprng):
    det = hp.detector_grid(8, 0.3)
    s = Sphere(n=1.59, r=prior.Uniform(0.3, 0.8, guess=0.5), center=(1.2, 1.2, prior.Uniform(4, 9, guess=6.0)))
    m = AlphaModel(s, alpha=prior.Uniform(0.5, 1, guess=0.7), noise_sd=0.05, **KW)
    data = calc_holo(det, Sphere(n=1.59, r=0.5, center=(1.2, 1.2, 6.0)), scaling=0.7, **KW)
    nw = 4
    names = list(m.parameters)
    samples = xr.DataArray(nprng.normal(size=(nw, nchain, len(names))) * 0.01 + np.array([0.5, 6.0, 0.7]),
                           dims=["walker", "chain", "parameter"], coords={"parameter": names})
    lnprobs = xr.DataArray(nprng.normal(size=(nw, nchain)), dims=["walker", "chain"])
    st = EmceeStrategy(nwalkers=nw, nsamples=nchain)
    return SamplingResult(data, m, st, 1.0, {"samples": samples, "lnprobs": lnprobs}), samples, lnprobs


def oracle(samples, lnprobs, off):
    s = samples.isel(chain=slice(off, None)).values
    lp = lnprobs.isel(chain=slice(off, None)).values
    i = np.unravel_index(np.argmax(lp), lp.shape)
    mp = s[i]
    flat = s.reshape(-1, s.shape[-1])
    lo = np.percentile(flat, P_LOW, axis=0)
    hi = np.percentile(flat, 100 - P_LOW, axis=0)
    return s, lp, mp, mp - lo, hi - mp


def compare(ctx, what, res, samples, lnprobs, off, detail):
    s, lp, mp, minus, plus = oracle(samples, lnprobs, off)
    bad = None
    if not (np.array_equal(res.samples.values, s) and np.array_equal(res.lnprobs.values, lp)):
        bad = "samples"
    else:
        g = np.array([float(iv.guess) for iv in res.intervals])
        pl = np.array([float(iv.plus) for iv in res.intervals])
        mi = np.array([float(iv.minus) for iv in res.intervals])
        if not (np.allclose(g, mp, rtol=0, atol=1e-14) and np.allclose(pl, plus, rtol=0, atol=1e-12)
                and np.allclose(mi, minus, rtol=0, atol=1e-12)):
            bad = "intervals"
        elif [str(k) for k in res.parameters] != [str(p) for p in samples.parameter.values] or \
                not np.allclose([float(v) for v in res.parameters.values()], mp, rtol=0, atol=1e-14):
            bad = "parameters"
    if bad:
        ctx.violation("%s/%s" % (what, bad), dict(detail, offset=off))
        return False
    return True


def run(ctx):
    quick = ctx.tier == "quick"
    nprng = np.random.default_rng(ctx.seed)
    nchain = 5 if quick else 6
    ctx.rule = ("TLC enumerates every sequence of burn-ins (0..NChain-1 steps), saves and loads up to MaxSteps on a "
                "result with NChain chain steps; every path is executed on a real SamplingResult (4 walkers, "
                "synthetic chains); distinct = path; non-trivial = path with a burn-in")
    ctx.assumptions = ["chains are synthetic (emcee is not installed): the sampler itself is not exercised",
                       "interval oracle: most probable sample and the 15.87 / 84.13 percentiles over walkers x chain"]
    g = ctx.tlc_graph("SamplingSession", "SamplingSession.cfg", constants={"NChain": nchain, "MaxSteps": 3 if quick else 4})
    tmp = tempfile.mkdtemp(prefix="x01_")
    counts = {"BurnIn": 0, "Save": 0, "Load": 0}
    try:
        with warnings.catch_warnings():
            warnings.simplefilter("ignore")
            base, samples, lnprobs = make_result(nchain, nprng)
            mtxt, stxt = yaml_text(base.model), yaml_text(base.strategy)
            if not compare(ctx, "construct", base, samples, lnprobs, 0, {}):
                return
            nfile = [0]

            def walk(sid, cur, path, stored_path):
                for e in g.out.get(sid, []):
                    st = g.states[e[3]]
                    desc = path + [(e[1], e[2][0] if e[2] else None)]
                    ctx.case(("path", str(desc)), nontrivial=any(p[0] == "BurnIn" and p[1] for p in desc))
                    counts[e[1]] += 1
                    try:
                        if e[1] == "BurnIn":
                            keep = (cur.samples.values.copy(), cur.lnprobs.values.copy(),
                                    [(iv.guess, iv.plus, iv.minus) for iv in cur.intervals])
                            new = cur.burn_in(e[2][0])
                            ok = compare(ctx, "burn_in", new, samples, lnprobs, st["offset"], {"path": desc})
                            same = (np.array_equal(cur.samples.values, keep[0]) and np.array_equal(cur.lnprobs.values, keep[1])
                                    and [(iv.guess, iv.plus, iv.minus) for iv in cur.intervals] == keep[2])
                            if ok and not same:
                                ctx.violation("burn_in/parent_changed", {"path": desc})
                                ok = False
                            if ok and new is cur:
                                ctx.violation("burn_in/returns_itself", {"path": desc})
                                ok = False
                            if ok:
                                ctx.trace_ok()
                            walk(e[3], new, desc, stored_path)
                        elif e[1] == "Save":
                            nfile[0] += 1
                            p = os.path.join(tmp, "r_%d.h5" % nfile[0])
                            hp.save(p, cur)
                            ctx.trace_ok()
                            walk(e[3], cur, desc, p)
                        else:
                            ld = hp.load(stored_path)
                            ok = type(ld) is SamplingResult or ctx.violation("load/class", {"loaded": type(ld).__name__}) and False
                            ok = ok and compare(ctx, "load", ld, samples, lnprobs, st["loaded"], {"path": desc})
                            if ok and not (yaml_text(ld.model) == mtxt and yaml_text(ld.strategy) == stxt
                                           and fp.same(ld.data, base.data)):
                                ctx.violation("load/model_strategy_or_data", {"path": desc})
                                ok = False
                            if ok:
                                ctx.trace_ok()
                            walk(e[3], cur, desc, stored_path)
                    except Exception as ex:
                        ctx.violation("%s/exception" % e[1].lower(), {"path": desc, "exc": repr(ex)[:300]})
            walk(g.init[0], base, [], None)
    finally:
        shutil.rmtree(tmp, ignore_errors=True)
    ctx.notes["actions_executed"] = counts
    for a, n in counts.items():
        if n == 0:
            raise harness.MachineryError("action %s never executed" % a)
    ctx.sample({"nchain": nchain, "walkers": 4, "parameters": [str(p) for p in samples.parameter.values]})
    ctx.exhaustive = True


if __name__ == "__main__":
    sys.exit(harness.main(PID, run))
