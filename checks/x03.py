"""X03 (extension, not one of the listed properties) — display_image: layout (z, x, y), value scaling
(auto / window / none), magnitude of complex input, metadata kept, idempotence.  spec/Display.tla;
every path of the graph executed with an exact oracle."""
import os
import random
import sys
import warnings

sys.path.insert(0, os.path.join(os.path.dirname(os.path.abspath(__file__)), "..", "lib"))
import boot  # noqa
import harness
import fp

import numpy as np
import xarray as xr

PID = "X03"

from holopy.core.io.vis import display_image
from holopy.core.metadata import data_grid


def make(inp, nprng):
    form, vals = inp["form"], inp["values"]
    shape = {"image_2d": (5, 7), "image_stack": (3, 5, 7), "array_2d": (5, 7), "array_3d": (3, 5, 7)}[form]
    a = nprng.normal(size=shape) * 3
    if vals == "complex":
        a = a + 1j * nprng.normal(size=shape)
    elif vals == "nonnegative":
        a = np.abs(a)
    if form == "image_2d":
        return data_grid(a, spacing=(0.1, 0.2), medium_index=1.33, illum_wavelen=0.66, illum_polarization=(1, 0), noise_sd=0.1), a[None]
    if form == "image_stack":
        return data_grid(a, spacing=(0.1, 0.2), z=[0.0, 1.0, 2.5], medium_index=1.33, illum_wavelen=0.66,
                         illum_polarization=(1, 0)), a
    return a, (a[None] if a.ndim == 2 else a)


def expected(stack, scaling):
    v = np.abs(stack) if np.iscomplexobj(stack) else stack
    if scaling is None:
        return v
    lo, hi = (v.min(), v.max()) if scaling == "auto" else scaling
    return (np.clip(v, lo, hi) - lo) / (hi - lo)


def run(ctx):
    nprng = np.random.default_rng(ctx.seed)
    ctx.rule = ("TLC enumerates input form (image, stack, bare 2-d / 3-d array) x value class x every sequence of <= 2 "
                "display steps over 4 scalings; every path executed; distinct = path")
    ctx.assumptions = ["a bare 3-d array's shortest axis is taken as depth (3 x 5 x 7 here)"]
    g = ctx.tlc_graph("Display", "Display.cfg")
    nshow = 0

    def scal(s, stack):
        v = np.abs(stack) if np.iscomplexobj(stack) else stack
        lo, hi = float(v.min()), float(v.max())
        w = hi - lo
        return {"auto": "auto", "none": None, "pair_inside": (lo + 0.25 * w, hi - 0.25 * w), "pair_outside": (lo - 0.5 * w, hi + 0.5 * w)}[s]

    def walk(sid, obj, stack, path):
        nonlocal nshow
        for e in g.out.get(sid, []):
            s = e[2][0]
            sc = scal(s, stack)
            desc = path + [s]
            ctx.case(("show", str(sorted(g.states[sid]["input"].items())), str(desc)), nontrivial=True)
            nshow += 1
            keep = obj.copy(deep=True) if isinstance(obj, xr.DataArray) else obj.copy()
            try:
                with warnings.catch_warnings():
                    warnings.simplefilter("ignore")
                    res = display_image(obj, scaling=sc)
            except Exception as ex:
                ctx.violation("display/exception", {"path": desc, "exc": repr(ex)[:200]})
                continue
            want = expected(stack, sc)
            bad = None
            if tuple(res.dims[:3]) != ("z", "x", "y"):
                bad = ("layout", {"dims": list(res.dims)})
            elif res.shape != want.shape or not np.allclose(res.values, want, rtol=0, atol=1e-12):
                bad = ("values", {"max_err": float(np.max(np.abs(res.values - want))) if res.shape == want.shape else None,
                                  "shape": list(res.shape)})
            elif g.states[e[3]]["range"] == "unit" and not (abs(float(res.min())) <= 1e-15 and abs(float(res.max()) - 1) <= 1e-15):
                bad = ("range", {"min": float(res.min()), "max": float(res.max())})
            elif isinstance(keep, xr.DataArray) and not (fp.same(obj, keep)):
                bad = ("input_modified", {})
            elif isinstance(keep, xr.DataArray) and any(res.attrs.get(k) is None or not np.array_equal(np.asarray(res.attrs[k]), np.asarray(keep.attrs[k]))
                                                         for k in ("medium_index", "illum_wavelen") if keep.attrs.get(k) is not None):
                bad = ("metadata", {})
            elif res.attrs.get("_image_scaling") != (None if sc is None else (tuple(sc) if sc != "auto" else res.attrs.get("_image_scaling"))):
                bad = ("recorded_scaling", {"impl": repr(res.attrs.get("_image_scaling"))})
            if bad:
                ctx.violation("display/" + bad[0], dict(bad[1], path=desc, input=g.states[sid]["input"]))
            else:
                ctx.trace_ok()
                walk(e[3], res, np.asarray(res.values), desc)

    for sid in g.init:
        obj, stack = make(g.states[sid]["input"], nprng)
        walk(sid, obj, stack, [])
    if nshow == 0:
        raise harness.MachineryError("nothing replayed")
    ctx.notes["display_steps"] = nshow
    ctx.sample({"steps": nshow})
    ctx.exhaustive = True


if __name__ == "__main__":
    sys.exit(harness.main(PID, run))
