"""X10 (extension, not one of the listed properties) — make_center_priors: the default position priors for a sphere
seen in a hologram.  spec/CenterPriors.tla gives, for each of 96 requests (image origin, pixel pitch, frame shape,
z option, xy uncertainty), the three priors as expressions over the image's own numbers; the harness evaluates the
expressions on the image it built (the centre found is taken from center_find on the same image, and must lie
within a pixel of the sphere) and compares them with the real priors, twice."""
import os
import random
import sys
import warnings

sys.path.insert(0, os.path.join(os.path.dirname(os.path.abspath(__file__)), "..", "lib"))
import boot  # noqa
import harness
import fp

import numpy as np

PID = "X10"

from holopy.core.metadata import detector_grid, get_spacing, get_extents
from holopy.core.process import center_find
from holopy.core.prior import make_center_priors, Gaussian, Uniform
from holopy.scattering import Sphere, calc_holo, Mie

FRAME = {"square_frame": (64, 64), "wide_frame": (56, 80), "tall_frame": (80, 56)}
PITCH = {"square_pixels": (0.1, 0.1), "oblong_pixels": (0.1, 0.13)}
ORIGIN = {"at_zero": (0.0, 0.0), "shifted": (3.7, -12.2)}
PAIR = (2.5, 17.0)


def run(ctx):
    rng = random.Random(ctx.seed)
    ctx.rule = ("TLC enumerates the 96 requests and two calls each; every request is built (a computed single-sphere "
                "hologram) and evaluated twice; distinct = request")
    ctx.assumptions = ["the centre found, in pixels, is what center_find returns for the same image; it is separately "
                       "required to lie within one pixel of the sphere's centre for square pixels"]
    g = ctx.tlc_graph("CenterPriors", "CenterPriors.cfg")
    images = {}
    with warnings.catch_warnings():
        warnings.simplefilter("ignore")
        for sid in g.init:
            rq = g.states[sid]["req"]
            key = (rq["origin"], rq["pitch"], rq["frame"])
            if key not in images:
                shape, pitch, org = FRAME[rq["frame"]], PITCH[rq["pitch"]], ORIGIN[rq["origin"]]
                det = detector_grid(shape, pitch)
                det = det.assign_coords(x=det.x.values + org[0], y=det.y.values + org[1])
                cx = org[0] + pitch[0] * shape[0] * rng.uniform(0.35, 0.65)
                cy = org[1] + pitch[1] * shape[1] * rng.uniform(0.35, 0.65)
                holo = calc_holo(det, Sphere(n=1.59, r=0.5, center=(cx, cy, 10.0)), medium_index=1.33, illum_wavelen=0.66,
                                 illum_polarization=(1, 0), theory=Mie())
                images[key] = (holo, (cx, cy))
            holo, (cx, cy) = images[key]
            keep = fp.fingerprint(holo)
            shape, pitch, org = FRAME[rq["frame"]], PITCH[rq["pitch"]], ORIGIN[rq["origin"]]
            found = np.asarray(center_find(holo), dtype=float)
            env = {"origin": {"x": org[0], "y": org[1]}, "found": {"x": found[0], "y": found[1]},
                   "pitch": {"x": pitch[0], "y": pitch[1]}, "longer_side": max(pitch[0] * shape[0], pitch[1] * shape[1])}
            kw = {}
            if rq["unc"] != "one_pixel":
                kw["xy_uncertainty_pixels"] = 2.5
            if rq["z"] == "extents_3":
                kw["z_range_extents"] = 3
            if rq["z"] in ("units_pair", "units_pair_and_extents"):
                kw["z_range_units"] = PAIR
            if rq["z"] == "units_pair_and_extents":
                kw["z_range_extents"] = 3
            cur = sid
            prev = None
            while g.out.get(cur):
                e = g.out[cur][0]
                want = g.states[e[3]]["answer"]
                cur = e[3]
                ctx.case((tuple(sorted(rq.items())), g.states[cur]["calls"]), nontrivial=True)
                try:
                    pri = make_center_priors(holo, **kw)
                except Exception as ex:
                    ctx.violation("center_priors/exception", {"req": rq, "exc": repr(ex)[:200]})
                    break
                bad = None
                if len(pri) != 3:
                    bad = ("count", {"n": len(pri)})
                else:
                    for ax, p in zip(("x", "y"), pri[:2]):
                        w = want[ax]
                        mean = env["origin"][ax] + env["found"][ax] * env["pitch"][ax]
                        sd = float(w["sd"][0]) * env["pitch"][ax]
                        if not isinstance(p, Gaussian) or w["kind"] != "Gaussian":
                            bad = ("kind", {"axis": ax, "impl": type(p).__name__})
                        elif abs(p.mu - mean) > 1e-12 * max(1, abs(mean)) or abs(p.sd - sd) > 1e-12:
                            bad = ("xy_prior", {"axis": ax, "impl": [float(p.mu), float(p.sd)], "spec": [mean, sd]})
                        elif rq["pitch"] == "square_pixels" and abs(p.mu - (cx if ax == "x" else cy)) > 1.0 * env["pitch"][ax]:
                            # (with oblong pixels the fringes are ellipses in pixel space and the centre finder, which
                            # votes for circles, is several pixels off: a limitation outside the listed property, noted)
                            bad = ("centre_off_by_more_than_a_pixel", {"axis": ax, "impl": float(p.mu), "sphere": cx if ax == "x" else cy})
                    pz, wz = pri[2], want["z"]["range"]
                    lohi = PAIR if tuple(wz) == ("pair_as_given",) else (0.0, float(wz[1]) * env["longer_side"])
                    if bad is None and (not isinstance(pz, Uniform) or abs(pz.lower_bound - lohi[0]) > 1e-12
                                        or abs(pz.upper_bound - lohi[1]) > 1e-12 * max(1, lohi[1])):
                        bad = ("z_prior", {"impl": repr(pz), "spec": list(lohi)})
                if bad is None and fp.fingerprint(holo) != keep:
                    bad = ("image_modified", {})
                if bad is None and prev is not None and not all(a == b for a, b in zip(prev, pri)):
                    bad = ("second_answer_differs", {})
                prev = pri
                if bad:
                    ctx.violation("center_priors/" + bad[0], dict(bad[1], req=rq))
                    break
                ctx.trace_ok()
    ctx.notes["images_built"] = len(images)
    ctx.sample({"request": dict(rq), "found_pixels": found.tolist()})
    ctx.exhaustive = True


if __name__ == "__main__":
    sys.exit(harness.main(PID, run))
