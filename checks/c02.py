"""C02 — independent solvers agree on the field scattered by a single sphere; layered-sphere
equivalences.

spec/SphereRoutes.tla: (layers) the rewriting system on layered-sphere descriptions with its
normal form -- TLC checks every rewriting step preserves the normal form; every description and
every edge is replayed on real Sphere/LayeredSphere objects and compared with the canonical
sphere.  (solvers) the catalogue of index/size/position/polarisation/option classes and the
relations that apply to each; the harness measures each relation between HoloPy's Lorenz-Mie
solver, the multisphere solver on a one-sphere cluster, the pure-Python series of the lens
theories and an independent textbook series (oracles/mie_series.py); the recorded defects are
validated by spec/SphereRoutesTrace.tla.
"""
import math
import os
import random
import sys

sys.path.insert(0, os.path.join(os.path.dirname(os.path.abspath(__file__)), "..", "lib"))
sys.path.insert(0, os.path.join(os.path.dirname(os.path.abspath(__file__)), ".."))
import boot  # noqa
import harness
import quant
import trace as tracemod
from oracles import mie_series

import numpy as np

PID = "C02"

import holopy as hp
from holopy.scattering import (Sphere, LayeredSphere, calc_field, calc_scat_matrix,
                               calc_cross_sections, Mie, Multisphere)
from holopy.scattering.theory.scatteringtheory import ScatteringTheory
from holopy.scattering.theory.mielensfunctions import MieScatteringMatrix
from holopy.core.metadata import detector_points

NMED, WL = 1.33, 0.66
K = 2 * math.pi * NMED / WL


class TextbookTheory(ScatteringTheory):
    """HoloPy's generic amplitude-matrix -> field pipeline fed with the textbook series"""

    def can_handle(self, scatterer):
        return isinstance(scatterer, Sphere)

    def raw_scat_matrs(self, scatterer, pos, medium_wavevec, medium_index):
        m = complex(scatterer.n) / medium_index
        x = medium_wavevec * scatterer.r
        s1, s2 = mie_series.amplitudes(m, x, pos[1])
        out = np.zeros((pos.shape[1], 2, 2), dtype=complex)
        out[:, 0, 0] = s2
        out[:, 1, 1] = s1
        return out


def rel(a, b, scale=None):
    a, b = np.asarray(a), np.asarray(b)
    if a.shape != b.shape or not (np.all(np.isfinite(a)) and np.all(np.isfinite(b))):
        return float("inf")
    den = scale if scale is not None else max(float(np.max(np.abs(a))), float(np.max(np.abs(b))))
    num = float(np.max(np.abs(a - b)))
    return 0.0 if num == 0 else (float("inf") if den == 0 else num / den)


def run(ctx):
    quick = ctx.tier == "quick"
    rng = random.Random(ctx.seed)
    ctx.rule = ("layers: TLC enumerates every layered-sphere description (<= MaxLayers layers, 3 index "
                "classes incl. the medium's, radii 1..RMax) and every rewriting step; solvers: 5 index x "
                "7 size x 3 position x 4 polarisation x 4 option classes; distinct = description/edge or "
                "solver class; non-trivial = description differs from its normal form / size >= unit")
    ctx.assumptions = ["textbook series (oracles/mie_series.py) as independent leaf",
                       "solver accuracy: single-precision constants in the Fortran angular functions "
                       "limit agreement to ~1e-7; default continued-fraction tolerance to ~1e-5 at x >= 50"]
    traces = []
    # ------------------------------ layers -------------------------------------------------
    consts = {"RMax": 4, "MaxLayers": 3} if quick else {"RMax": 5, "MaxLayers": 4}
    g = ctx.tlc_graph("SphereRoutes", "SphereRoutes_layers.cfg", constants=consts)
    u = rng.uniform(0.12, 0.3)
    idx = {0: NMED, 1: 1.59, 2: 1.45 + 0.02j}
    pol = (math.cos(0.4), math.sin(0.4))
    pts = detector_points(x=np.array([0.3, -1.0, 2.0, 0.1, 15.0]), y=np.array([0.2, 0.7, -1.5, 0.0, 9.0]),
                          z=np.array([0.0, 0.0, 0.0, 0.0, 0.0]))
    ang = detector_points(theta=np.array([0.0, 0.4, 1.3, 2.2, math.pi]), phi=np.zeros(5), r=1e4)
    opts = dict(medium_index=NMED, illum_wavelen=WL)

    def observe(desc, by_thickness=False):
        if len(desc) == 0:
            return None
        ns = [idx[i] for i, _ in desc]
        rs = [r * u for _, r in desc]
        if by_thickness:
            ts = [rs[0]] + [b - a for a, b in zip(rs, rs[1:])]
            sc = LayeredSphere(n=ns, t=ts, center=(0.4, -0.3, 3.0 + rs[-1]))
        elif len(desc) == 1:
            sc = Sphere(n=ns[0], r=rs[0], center=(0.4, -0.3, 3.0 + rs[-1]))
        else:
            sc = Sphere(n=ns, r=rs, center=(0.4, -0.3, 3.0 + rs[-1]))
        f = calc_field(pts, sc, illum_polarization=pol, theory=Mie(), **opts).values
        sc0 = sc.translated(-0.4, 0.3, -(3.0 + rs[-1])) if not by_thickness else \
            LayeredSphere(n=ns, t=ts, center=(0, 0, 0))
        s = calc_scat_matrix(ang, sc0, theory=Mie(), **opts).values
        cs = calc_cross_sections(sc0, illum_polarization=pol, **opts).values
        return f, s, cs

    cache = {}
    ref_scale = None

    def obs_cached(desc, by_t=False):
        key = (tuple(desc), by_t)
        if key not in cache:
            cache[key] = observe(desc, by_t)
        return cache[key]

    rmax = consts["RMax"]
    ref = observe(((1, rmax),))
    scales = [float(np.max(np.abs(x))) for x in ref]

    def defect(o1, o2, outer_r):
        """compare two observations; None = no scatterer (zero field, zero cross sections)"""
        if o1 is None and o2 is None:
            return 0.0
        z = [np.zeros_like(x) for x in ref]
        a = o1 if o1 is not None else z
        b = o2 if o2 is not None else z
        # fields depend on the centre's z which includes the outer radius: compare S and cross
        # sections always, fields only when both have the same outer radius
        d = max(rel(a[1], b[1], scales[1]), rel(a[2][:3], b[2][:3], scales[2]))
        return d

    for sid, st in g.states.items():
        desc, canon = st["desc"], st["canon"]
        ctx.case(("layers", tuple(desc)), nontrivial=tuple(desc) != tuple(canon))
        try:
            o = obs_cached(desc)
            oc = obs_cached(canon)
            d = defect(o, oc, desc[-1][1])
            # fields: the description and its canonical form centred at the same point
            if o is not None and oc is not None:
                # recompute canonical with the same centre (outer radius of desc)
                ns = [idx[i] for i, _ in canon]
                rs = [r * u for _, r in canon]
                zc = 3.0 + desc[-1][1] * u
                scn = Sphere(n=ns if len(ns) > 1 else ns[0], r=rs if len(rs) > 1 else rs[0],
                             center=(0.4, -0.3, zc))
                fc = calc_field(pts, scn, illum_polarization=pol, theory=Mie(), **opts).values
                d = max(d, rel(o[0], fc, scales[0]))
            ot = obs_cached(desc, True)
            dt = max(rel(ot[0], o[0], scales[0]), rel(ot[1], o[1], scales[1]), rel(ot[2][:3], o[2][:3], scales[2]))
        except Exception as e:
            ctx.violation("layers/exception", {"desc": desc, "exc": repr(e)})
            continue
        traces.append([{"event": "Relation", "rel": "layers_equal_canonical", "mb": quant.mb(d),
                        "desc": [list(x) for x in desc], "canon": [list(x) for x in canon]},
                       {"event": "Relation", "rel": "thickness_equals_radius", "mb": quant.mb(dt),
                        "desc": [list(x) for x in desc], "canon": [list(x) for x in canon]}])
    # bubbles / low-index droplets (every layer's index below the medium's), up to large sizes: layers that share
    # one index scatter like the plain sphere
    for mrel in (0.75, 0.9):
        for xb in (8.0, 30.0, 60.0, 150.0):
            rb = xb / K
            try:
                sb = calc_scat_matrix(ang, Sphere(n=mrel * NMED, r=rb, center=(0, 0, 0)), theory=Mie(), **opts).values
                worst_b = 0.0
                for fr in ([0.5, 1.0], [0.3, 0.6, 1.0], [0.2, 0.5, 0.8, 1.0]):
                    sl = calc_scat_matrix(ang, Sphere(n=[mrel * NMED] * len(fr), r=[f_ * rb for f_ in fr], center=(0, 0, 0)),
                                          theory=Mie(), **opts).values
                    worst_b = max(worst_b, rel(sl, sb, float(np.max(np.abs(sb)))))
                ctx.case(("low_index_layers", mrel, xb), nontrivial=True)
                traces.append([{"event": "Relation", "rel": "layers_equal_canonical", "mb": quant.mb(worst_b),
                                "desc": [["low_index", mrel, xb]], "canon": [["homogeneous", mrel, xb]]}])
            except Exception as e:
                ctx.violation("layers/exception", {"desc": ["low_index", mrel, xb], "exc": repr(e)})
    nedge = 0
    for e in g.edges:
        a, b = g.states[e[0]], g.states[e[3]]
        if tuple(a["canon"]) != tuple(b["canon"]):
            raise harness.MachineryError("spec edge changes the normal form")
        nedge += 1
        ctx.case(("edge", tuple(a["desc"]), e[1], str(e[2])))
        ctx.trace_ok()          # the two endpoints were both compared with their common normal form
    ctx.notes["layer_edges"] = nedge
    ctx.sample({"mode": "layers", "desc": [list(x) for x in desc], "normal_form": [list(x) for x in canon],
                "unit_radius": u})

    # ------------------------------ solvers -----------------------------------------------------
    gs = ctx.tlc_graph("SphereRoutes", "SphereRoutes_solvers.cfg")
    MV = {"low": 1.05 * NMED, "mid": 1.59, "high": 2.5 * NMED, "weak_abs": 1.59 + 0.01j,
          "strong_abs": (1.4 + 1.0j) * NMED}
    XV = {"rayleigh": 1e-3, "small": 0.1, "unit": 1.0, "medium": 5.0, "large": 20.0, "xlarge": 80.0, "huge": 300.0}
    states = list(gs.states.values())
    if quick:
        # every (m, x) pair with rotating position / polarisation / option
        byk = {}
        for st in states:
            c = st["cls"]["c"]
            byk.setdefault((c["m"], c["x"]), []).append(st)
        states = []
        for k, lst in sorted(byk.items()):
            lst = sorted(lst, key=lambda s: str(sorted(s["cls"]["c"].items())))
            rng.shuffle(lst)
            need = {"norad_full", "norad_asym", "rad_full"}
            got = []
            for s in lst:
                o = s["cls"]["c"]["opt"]
                if o in need and (o != "norad_asym" or s["cls"]["c"]["pos"] == "far"):
                    got.append(s)
                    need.discard(o)
            states += got
    th = np.array([0.0, 0.05, 0.6, 1.4, 2.3, 3.0, math.pi])
    tb = TextbookTheory()
    done_S = set()
    for st in states:
        c, rels = st["cls"]["c"], st["cls"]["rels"]
        n = MV[c["m"]]
        x = XV[c["x"]] * rng.uniform(0.85, 1.15)
        r = x / K
        m = complex(n) / NMED
        psi = c["pol"] * math.pi / 12
        polv = (math.cos(psi), math.sin(psi))
        ctx.case(("solver", tuple(sorted(c.items()))), nontrivial=c["x"] not in ("rayleigh", "small"))
        evs = []
        sph = Sphere(n=n, r=r, center=(0.0, 0.0, 0.0))
        try:
            if (c["m"], c["x"]) not in done_S:
                done_S.add((c["m"], c["x"]))
                dS = detector_points(theta=th, phi=np.zeros_like(th), r=1e4)
                S = calc_scat_matrix(dS, sph, theory=Mie(), **opts).values
                s1, s2 = mie_series.amplitudes(m, x, th)
                sc = max(float(np.max(np.abs(s1))), float(np.max(np.abs(s2))))
                d = max(rel(S[:, 0, 0], s2, sc), rel(S[:, 1, 1], s1, sc),
                        rel(S[:, 0, 1], 0 * s1, sc), rel(S[:, 1, 0], 0 * s1, sc))
                evs.append({"event": "Relation", "rel": "S_mie_vs_textbook", "mb": quant.mb(d), "xcls": c["x"]})
                # the pure-Python series, through the same hand-off as MieLens (conjugated index)
                pp = np.conj(MieScatteringMatrix("parallel", np.conj(m), x)(th[1:-1]))
                pe = np.conj(MieScatteringMatrix("perpendicular", np.conj(m), x)(th[1:-1]))
                d = max(rel(pp, s2[1:-1], sc), rel(pe, s1[1:-1], sc))
                evs.append({"event": "Relation", "rel": "S_pyseries_vs_textbook", "mb": quant.mb(d), "xcls": c["x"]})
            # kr stays below ~2.5e4: beyond ~3e4 the Bessel routine of the full radial dependence
            # prints a warning and returns unspecified values (documented solver limit)
            kz = {"near": max(2.2 * x, 6.0), "mid": max(12 * x, 60.0),
                  "far": min(max(300 * x, 3000.0), 12000.0)}[c["pos"]]
            zc = kz / K
            px = np.array([0.0, 0.31, -0.7, 1.3]) * zc
            py = np.array([0.0, 0.2, 0.45, -1.1]) * zc
            dP = detector_points(x=px, y=py, z=0.0)
            sphz = Sphere(n=n, r=r, center=(0.0, 0.0, zc))
            rad = c["opt"].startswith("rad")
            full = c["opt"].endswith("full")
            F = calc_field(dP, sphz, illum_polarization=polv, theory=Mie(rad, full), **opts).values
            fs = float(np.max(np.abs(F)))
            if "field_finite" in rels:
                evs.append({"event": "Relation", "rel": "field_finite",
                            "mb": -20000 if np.all(np.isfinite(F)) else 20000, "xcls": c["x"]})
            if "field_mie_vs_multisphere_radial" in rels:
                Fm = calc_field(dP, sphz, illum_polarization=polv, theory=Multisphere(compute_escat_radial=True), **opts).values
                evs.append({"event": "Relation", "xcls": c["x"], "rel": "field_mie_vs_multisphere_radial",
                            "mb": quant.mb(rel(F, Fm, fs)), "mcls": c["m"]})
            if "field_mie_vs_multisphere" in rels:
                for tight in (False, True):
                    ms = Multisphere(eps=1e-12, qeps1=1e-9, qeps2=1e-12) if tight else Multisphere()
                    try:
                        Fm = calc_field(dP, sphz, illum_polarization=polv, theory=ms, **opts).values
                        d = rel(F, Fm, fs)
                        ev_ms = {"event": "Relation", "xcls": c["x"],
                                 "rel": "field_mie_vs_multisphere" + ("_tight" if tight else ""),
                                 "mb": quant.mb(d), "mcls": c["m"]}
                        if c["x"] in ("xlarge", "huge"):
                            # a trace of its own: a rejection here must not hide the class's other relations
                            ev_ms["cls"] = "%s/%s/%s/%d/%s" % (c["m"], c["x"], c["pos"], c["pol"], c["opt"])
                            traces.append([ev_ms])
                        else:
                            evs.append(ev_ms)
                    except Exception as e:
                        if c["x"] in ("xlarge",):
                            ctx.uncovered("Multisphere at size class xlarge: %s" % type(e).__name__)
                        else:
                            raise
            # (a) only distances matter: detector points and sphere raised together by two medium wavelengths
            # (the incident phase is referred to z = 0, so whole wavelengths leave the field as it is);
            # (b) the field of a sphere for polarisation at angle psi is the x-polarised field turned by psi
            lam = WL / NMED
            dP2 = detector_points(x=px, y=py, z=2 * lam)
            F2 = calc_field(dP2, Sphere(n=n, r=r, center=(0.0, 0.0, zc + 2 * lam)), illum_polarization=polv,
                            theory=Mie(rad, full), **opts).values
            ca_, sa_ = math.cos(psi), math.sin(psi)
            dP3 = detector_points(x=ca_ * px + sa_ * py, y=-sa_ * px + ca_ * py, z=0.0)      # the points turned by -psi
            F3 = calc_field(dP3, sphz, illum_polarization=(1, 0), theory=Mie(rad, full), **opts).values
            F3 = np.asarray(F3)
            F3r = np.stack([ca_ * F3[:, 0] - sa_ * F3[:, 1], sa_ * F3[:, 0] + ca_ * F3[:, 1], F3[:, 2]], axis=1)
            evs.append({"event": "Relation", "rel": "field_moves_with_detector", "mb": quant.mb(rel(F, F2, fs)), "xcls": c["x"]})
            evs.append({"event": "Relation", "rel": "field_turns_with_polarisation", "mb": quant.mb(rel(F, F3r, fs)), "xcls": c["x"]})
            if "field_mie_vs_textbook_farfield" in rels:
                Ft = calc_field(dP, sphz, illum_polarization=polv, theory=tb, **opts).values
                evs.append({"event": "Relation", "rel": "field_mie_vs_textbook_farfield",
                            "mb": quant.mb(rel(F, Ft, fs)), "xcls": c["x"]})
        except Exception as e:
            ctx.violation("solvers/exception", {"class": c, "exc": repr(e)})
            continue
        if evs:
            for ev in evs:
                ev["cls"] = "%s/%s/%s/%d/%s" % (c["m"], c["x"], c["pos"], c["pol"], c["opt"])
            traces.append(evs)
    ctx.sample({"mode": "solvers", "class": c, "relations": sorted(rels)})
    verdicts = tracemod.validate(ctx, "SphereRoutesTrace", traces)
    worst = {}
    for tr, (acc, line, clauses) in zip(traces, verdicts):
        for ev in tr:
            k = ev["rel"] + ("/" + ev["xcls"] if "xcls" in ev else "")
            worst[k] = max(worst.get(k, -20000), ev["mb"])
        if acc:
            ctx.trace_ok()
        else:
            ev = tr[line - 1]
            key = "relation/%s" % ev["rel"]
            if ev["rel"].startswith("field_mie_vs_multisphere") and ev.get("xcls") in ("xlarge", "huge"):
                key += "/" + ev["xcls"]          # beyond the compiled expansion order: a finding of its own
            ctx.violation(key, {"event": ev, "clauses": clauses})
    ctx.notes["worst_mb_per_relation"] = worst
    ctx.exhaustive = False


if __name__ == "__main__":
    sys.exit(harness.main(PID, run))
