"""C15 — HoloPy objects survive save -> load unchanged.

spec/Serialize.tla enumerates value-kind vectors for constructor argument slots, the
normalisation each kind must come back as, 1..3 save/load cycles and file/stream targets; the
catalogue of classes (every scatterer, prior, theory, strategy and model class that can be
constructed here) is replayed for every applicable kind vector.  Models with ties re-use the
C11 binding: a reloaded model must have the same names, ties and value-to-place mapping.
"""
import io
import os
import random
import shutil
import sys
import tempfile
import warnings

sys.path.insert(0, os.path.join(os.path.dirname(os.path.abspath(__file__)), "..", "lib"))
sys.path.insert(0, os.path.dirname(os.path.abspath(__file__)))
import boot  # noqa
import harness

import numpy as np

PID = "C15"

import holopy as hp
from holopy.core.holopy_object import HoloPyObject
from holopy.core.io import serialize
from holopy.scattering import (Sphere, LayeredSphere, Spheres, RigidCluster, Ellipsoid, Capsule, Cylinder,
                               Bisphere, Spheroid, JanusSphere_Uniform, JanusSphere_Tapered, Scatterers,
                               Mie, MieLens, AberratedMieLens, Multisphere, Tmatrix)
from holopy.scattering.scatterer import Union, Difference, Intersection
from holopy.scattering.theory import Lens
from holopy.inference import (prior, AlphaModel, ExactModel, LimitOverlaps, NmpfitStrategy,
                              LeastSquaresScipyStrategy)

NUM = {"float", "float_tiny", "float_huge", "neg_zero", "int", "np_float64", "np_int64", "zero_d_array", "np_float32"}
CPLX = {"complex", "np_complex128", "complex_neg", "np_complex_neg"}
SEQ = {"list", "tuple", "array1d", "list_of_np"}
PRI = {"prior", "derived_prior", "ufunc_prior", "prior_half_open", "prior_unbounded", "prior_guess_on_bound",
       "rdiv_prior", "rsub_prior", "neg_prior", "rpow_prior"}


def value(kind, n=3, positive=False):
    base = [1.25, 2.5, 3.75][:n]
    # built lazily: a kind that cannot be constructed must not take the others with it
    return {
        "float": lambda: 1.47, "float_tiny": lambda: 1e-300, "float_huge": lambda: 1e300, "neg_zero": lambda: -0.0,
        "int": lambda: 2, "complex": lambda: 1.5 + 0.1j, "np_float64": lambda: np.float64(1.47),
        "np_int64": lambda: np.int64(2), "np_complex128": lambda: np.complex128(1.5 + 0.1j),
        "complex_neg": lambda: 1.5 - 0.1j, "np_complex_neg": lambda: np.complex128(1.5 - 0.1j),
        "zero_d_array": lambda: np.array(1.47), "np_float32": lambda: np.float32(1.59),     # not a dyadic number: its decimal text is not its value
        "none_explicit": lambda: None, "list": lambda: list(base), "tuple": lambda: tuple(base),
        "array1d": lambda: np.array(base), "list_of_np": lambda: [np.float64(b) for b in base],
        "prior_half_open": lambda: prior.Uniform(0, np.inf), "prior_unbounded": lambda: prior.Uniform(-np.inf, np.inf),
        "prior_guess_on_bound": lambda: prior.Uniform(1.0, 2.0, guess=1.0),
        "rdiv_prior": lambda: 2.0 / prior.Uniform(1.0, 4.0), "rsub_prior": lambda: 5.0 - prior.Uniform(1.0, 2.0),
        "neg_prior": lambda: -prior.Uniform(-2.0, -1.0), "rpow_prior": lambda: 2.0 ** prior.Uniform(0.0, 1.0),
        "prior": lambda: prior.Uniform(1.0, 2.0), "derived_prior": lambda: prior.Uniform(1.0, 2.0) * 2 + 0.5,
        "ufunc_prior": lambda: np.sqrt(prior.Uniform(1.0, 4.0)),
        "complex_prior": lambda: prior.ComplexPrior(prior.Uniform(1.5, 1.6), 0.01),
        "nested_object": lambda: Sphere(n=1.5, r=0.3, center=[9.0, 9.0, 9.0]),
    }[kind]()


class Entry:
    def __init__(self, name, build, kinds1, kinds2, seqlen=3, defaults=(None, None)):
        self.name, self.build, self.k1, self.k2, self.seqlen, self.defaults = name, build, kinds1, kinds2, seqlen, defaults


C3 = [1.0, 2.0, 3.0]
CATALOGUE = [
    Entry("Sphere(n, r)", lambda a, b: Sphere(n=a, r=b, center=C3), NUM | CPLX | PRI | {"complex_prior", "none_explicit", "list"},
          NUM | PRI | {"none_explicit", "list"}, seqlen=2, defaults=(None, 0.5)),
    Entry("Sphere(center, n)", lambda a, b: Sphere(n=b, r=0.5, center=a), SEQ | {"none_explicit"}, NUM | CPLX, defaults=(None, None)),
    Entry("LayeredSphere(n, t)", lambda a, b: LayeredSphere(n=a, t=b, center=C3), SEQ, SEQ),
    Entry("Ellipsoid(r, rotation)", lambda a, b: Ellipsoid(n=1.5, r=a, center=C3, rotation=b), SEQ, SEQ),
    Entry("Spheroid(r, rotation)", lambda a, b: Spheroid(n=1.5, r=a, rotation=b, center=C3), SEQ, SEQ | {"none_explicit"},
          seqlen=2, defaults=(None, (0, 0, 0))),
    Entry("Cylinder(d, h)", lambda a, b: Cylinder(n=1.5, d=a, h=b, center=C3, rotation=[0.0, 0.1, 0.2]), NUM | PRI, NUM | PRI),
    Entry("Capsule(h, d)", lambda a, b: Capsule(n=1.5, h=a, d=b, center=C3, rotation=[0.0, 0.1, 0.2]), NUM, NUM),
    Entry("Bisphere(h, d)", lambda a, b: Bisphere(n=1.5, h=a, d=b, center=C3, rotation=[0.0, 0.1, 0.2]), NUM, NUM),
    Entry("JanusSphere_Uniform(n, r)", lambda a, b: JanusSphere_Uniform(n=a, r=b, rotation=[0.1, 0.2, 0.3], center=C3), SEQ, SEQ, seqlen=2),
    Entry("JanusSphere_Tapered(n, r)", lambda a, b: JanusSphere_Tapered(n=a, r=b, rotation=[0.1, 0.2], center=C3), SEQ, SEQ, seqlen=2),
    Entry("Spheres[Sphere(n), Sphere(r)]", lambda a, b: Spheres([Sphere(n=a, r=0.5, center=C3), Sphere(n=1.4, r=b, center=[5.0, 5.0, 5.0])], warn=False),
          NUM | CPLX | PRI, NUM | PRI),
    Entry("Scatterers[Sphere, object]", lambda a, b: Scatterers([Sphere(n=1.5, r=a, center=C3), b]), NUM, {"nested_object"}),
    Entry("RigidCluster(translation, rotation)", lambda a, b: RigidCluster(Spheres([Sphere(n=1.5, r=0.5, center=C3)]), translation=a, rotation=b), SEQ, SEQ),
    Entry("Union(Sphere(r), object)", lambda a, b: Union(Sphere(n=1.5, r=a, center=C3), Sphere(n=1.5, r=0.3, center=[1.2, 2.0, 3.0])), NUM, {"nested_object"}),
    Entry("Uniform(lower, upper)", lambda a, b: prior.Uniform(-3.0 if not isinstance(a, (int, float, np.generic, np.ndarray)) else float(a) - 5, b), NUM - {"float_huge"}, NUM - {"float_tiny", "neg_zero"}),
    Entry("Uniform(guess, name)", lambda a, b: prior.Uniform(0.0, 4.0, guess=a, name="p" if b is not None else None), NUM - {"float_huge"} | {"none_explicit"}, {"float", "none_explicit"}),
    Entry("Gaussian(mu, sd)", lambda a, b: prior.Gaussian(a, b), NUM | {"neg_zero"}, NUM - {"neg_zero"}),
    Entry("BoundedGaussian(mu, lower)", lambda a, b: prior.BoundedGaussian(a, 1.0, lower_bound=-5.0 if b is None else -abs(float(b)) - 1e-3, upper_bound=1e301), NUM, NUM | {"none_explicit"}),
    Entry("ComplexPrior(real, imag)", lambda a, b: prior.ComplexPrior(a, b), NUM | PRI, NUM | PRI),
    Entry("Mie(eps1, eps2)", lambda a, b: Mie(True, False, eps1=a, eps2=b), NUM, NUM),
    Entry("MieLens(lens_angle, kwargs)", lambda a, b: MieLens(lens_angle=a, calculator_accuracy_kwargs={"quad_npts": 50} if b is not None else {}), NUM | PRI, {"float", "none_explicit"}),
    Entry("AberratedMieLens(aberration, lens_angle)", lambda a, b: AberratedMieLens(spherical_aberration=a, lens_angle=b), NUM | SEQ | PRI, NUM | PRI),
    Entry("Multisphere(niter, eps)", lambda a, b: Multisphere(niter=a, eps=b), {"int", "np_int64"}, NUM),
    Entry("Lens(lens_angle, theory)", lambda a, b: Lens(a, Mie(False, False), quad_npts_theta=10, quad_npts_phi=12), NUM | PRI, {"nested_object"}),
    Entry("Tmatrix()", lambda a, b: Tmatrix(), {"float"}, {"float"}),
    Entry("LimitOverlaps(fraction)", lambda a, b: LimitOverlaps(fraction=a), NUM, {"float"}),
    Entry("NmpfitStrategy(npixels, ftol)", lambda a, b: NmpfitStrategy(npixels=a, ftol=b), {"int", "np_int64", "none_explicit"}, NUM, defaults=(None, 1e-10)),
    Entry("LeastSquaresScipyStrategy(ftol, max_nfev)", lambda a, b: LeastSquaresScipyStrategy(ftol=a, max_nfev=b), NUM, {"int", "none_explicit"}),
]


def norm(x):
    if isinstance(x, HoloPyObject):
        return (type(x).__name__, tuple(sorted((k, norm(v)) for k, v in x._dict.items())))
    if isinstance(x, np.ndarray):
        return norm(x.tolist())
    if isinstance(x, (list, tuple)):
        return ("seq", tuple(norm(v) for v in x))
    if isinstance(x, dict):
        return ("dict", tuple(sorted((str(k), norm(v)) for k, v in x.items())))
    if isinstance(x, (bool, np.bool_)):
        return ("bool", bool(x))
    if isinstance(x, (int, np.integer)):
        return ("num", float(x), 0.0)
    if isinstance(x, (float, np.floating)):
        return ("num", float(x), 0.0, np.signbit(float(x)) and float(x) == 0)
    if isinstance(x, (complex, np.complexfloating)):
        return ("num", complex(x).real, complex(x).imag)
    if x is None:
        return ("none",)
    if callable(x):
        return ("callable", getattr(x, "__name__", repr(x)))
    return ("other", repr(x))


def normnum(t):
    """ints and floats compare equal numerically; -0.0 keeps its sign flag only among floats"""
    if isinstance(t, tuple) and t and t[0] == "num":
        return ("num", t[1], t[2])
    if isinstance(t, tuple):
        return tuple(normnum(v) for v in t)
    return t


def dump_text(obj):
    buf = io.BytesIO()
    serialize.save(buf, obj)
    return buf.getvalue()


def roundtrip(obj, target, tmp, n):
    if target in ("file", "file_no_extension"):
        p = os.path.join(tmp, "o_%d.yaml" % n if target == "file" else "obj_%d" % n)
        hp.save(p, obj)
        out = hp.load(p)
        os.remove(p)
        return out
    buf = io.BytesIO()
    hp.save(buf, obj)
    buf.seek(0)
    return hp.load(buf)


def run(ctx):
    quick = ctx.tier == "quick"
    rng = random.Random(ctx.seed)
    tmp = tempfile.mkdtemp(prefix="c15_")
    ctx.rule = ("TLC enumerates every pair of value kinds (30 kinds: python/numpy scalars incl. extreme "
                "magnitudes and -0.0, complex, 0-d arrays, lists/tuples/arrays, explicit None, nested objects, "
                "plain/derived/ufunc/complex priors) x file / file without extension / stream x 1..3 cycles; each applicable vector is "
                "replayed on 28 catalogue entries covering the exported scatterer, prior, theory, strategy and "
                "constraint classes; models with ties via the C11 templates; distinct = (entry, kinds, target); "
                "non-trivial = some kind is not a plain python float")
    ctx.assumptions = ["equality of arguments is judged after normalising containers to sequences and numpy "
                       "scalars to numbers, as the property states"]
    try:
        g = ctx.tlc_graph("Serialize", "Serialize.cfg")
        inits = [g.states[s] for s in g.init]
        n = nbuilt = nbuildfail = 0
        for ent in CATALOGUE:
            cases = [st for st in inits if st["slots"][0] in ent.k1 and st["slots"][1] in ent.k2]
            if quick and len(cases) > 40:
                # cover every kind of each slot, then sample
                chosen, seen = [], set()
                rng.shuffle(cases)
                for st in cases:
                    ks = {(0, st["slots"][0]), (1, st["slots"][1]), ("t", st["target"])}
                    if not ks <= seen:
                        chosen.append(st)
                        seen |= ks
                cases = chosen + cases[:25]
            for st in cases:
                k1, k2 = st["slots"]
                n += 1
                ctx.case((ent.name, k1, k2, st["target"]), nontrivial=(k1, k2) != ("float", "float"))
                try:
                    with warnings.catch_warnings():
                        warnings.simplefilter("ignore")
                        obj = ent.build(value(k1, ent.seqlen), value(k2, ent.seqlen))
                except Exception:
                    ctx.trace_ok()      # not a valid constructor argument for this class: outside the quantifier
                    nbuildfail += 1
                    continue
                nbuilt += 1
                key_kinds = "+".join(sorted({k for k in (k1, k2) if k in ("np_float32", "none_explicit")})) or "ok_kinds"
                bad = None
                try:
                    with warnings.catch_warnings():
                        warnings.simplefilter("ignore")
                        t0 = dump_text(obj)
                        cur = obj
                        for cyc in range(1, 4):
                            cur = roundtrip(cur, st["target"], tmp, n)
                            if type(cur) is not type(obj):
                                bad = ("class_changed", {"loaded": type(cur).__name__})
                                break
                            a, b = normnum(norm(obj)), normnum(norm(cur))
                            if a != b:
                                bad = ("argument_changed", {"orig": repr(obj)[:200], "loaded": repr(cur)[:200], "cycle": cyc})
                                break
                            t1 = dump_text(cur)
                            if cyc >= 2 and t1 != tprev:
                                bad = ("text_not_idempotent", {"cycle": cyc})
                                break
                            tprev = t1
                        if bad is None and k1 not in ("tuple", "array1d") and k2 not in ("tuple", "array1d") \
                                and "zero_d_array" not in (k1, k2):
                            try:
                                eq = bool(cur == obj)
                            except Exception:
                                eq = False
                            if not eq:
                                bad = ("library_equality", {"orig": repr(obj)[:200], "loaded": repr(cur)[:200]})
                except Exception as e:
                    bad = ("save_load_exception", {"exc": repr(e)[:300]})
                if bad:
                    ctx.violation("%s/%s/%s" % (ent.name.split("(")[0], bad[0], key_kinds),
                                  dict(bad[1], entry=ent.name, kinds=[k1, k2], target=st["target"]))
                else:
                    ctx.trace_ok()
        ctx.sample({"entry": ent.name, "kinds": [k1, k2], "target": st["target"], "cycles": 3})
        ctx.notes["catalogue_objects_built"] = nbuilt
        ctx.notes["catalogue_combinations_not_constructible"] = nbuildfail
        # vacuity guard: on the unchanged tree 9 in 10 combinations are constructible
        if nbuilt < 4 * nbuildfail and not ctx.violations:
            raise harness.MachineryError("only %d of %d catalogue combinations could be constructed" % (nbuilt, nbuilt + nbuildfail))

        # ---------------- models: names, ties, value-to-place mapping survive reload ---------------------
        import c11
        mg = ctx.tlc_graph("ParamMap", "ParamMap_MC.cfg", constants={"NSites": 4, "ScatSites": 4, "Namings": "{1, 3}"},
                           workers=16)
        ready = sorted((sid for sid, s in mg.states.items()
                        if s["phase"] == "ready" and s["nties"] == 0 and s["last"] == "ok"),
                       key=lambda s: (mg.states[s]["naming"], tuple(mg.states[s]["assign"])))
        tmpls = c11.TEMPLATES[4]
        picks = rng.sample(ready, 60 if quick else 400)
        for idx, sid in enumerate(picks):
            st0 = mg.states[sid]
            paths = c11.tie_paths(mg, sid, maxlen=2)
            path = rng.choice(paths)
            t = tmpls[idx % len(tmpls)]
            if t.scat_sites != 4:
                # the graph was generated for all-scatterer sites; other templates use their own cfg in C11
                t = [x for x in tmpls if x.scat_sites == 4][idx % 6]
            pdesc = [(e[1], sorted(e[2][0]) if e[2] else None) for e in path]
            ctx.case(("model", t.name, tuple(st0["assign"]), st0["naming"], str(pdesc)), nontrivial=any(st0["assign"]))
            try:
                fails, cur = c11.replay_behaviour(ctx, mg, t, st0, path, rng, with_roundtrip=True)
            except Exception as e:
                ctx.violation("model/exception", {"template": t.name, "exc": repr(e)[:300]})
                continue
            if fails:
                clause, detail = fails[0]
                ctx.violation("model/%s/%s" % (t.name, clause), {"assign": st0["assign"], "path": pdesc, "detail": detail})
            else:
                ctx.trace_ok()
        # models with theory parameters, per-channel optics and constraints
        extra = [
            ("theory_prior", lambda: AlphaModel(Sphere(n=prior.Uniform(1.4, 1.6), r=0.5, center=C3), alpha=prior.Uniform(0.5, 1),
                                                theory=MieLens(lens_angle=prior.Uniform(0.5, 1.0)), medium_index=1.33,
                                                illum_wavelen=0.66, illum_polarization=(1, 0), noise_sd=0.1)),
            ("per_channel_optics", lambda: AlphaModel(Sphere(n=prior.Uniform(1.4, 1.6), r=0.5, center=C3),
                                                      alpha={"red": 0.8, "green": prior.Uniform(0.5, 1)},
                                                      illum_wavelen={"red": 0.66, "green": 0.52}, medium_index=1.33,
                                                      illum_polarization=(1, 0), noise_sd=0.1)),
            ("constraint", lambda: AlphaModel(Spheres([Sphere(n=1.5, r=prior.Uniform(0.3, 0.6), center=C3),
                                                       Sphere(n=1.5, r=0.4, center=[3.0, 2.0, 3.0])], warn=False),
                                              medium_index=1.33, illum_wavelen=0.66, illum_polarization=(1, 0),
                                              noise_sd=0.1, constraints=[LimitOverlaps(0.2)], theory=Mie())),
            ("exact_model", lambda: ExactModel(Sphere(n=prior.Gaussian(1.5, 0.1), r=0.5, center=C3), medium_index=1.33,
                                               illum_wavelen=0.66, illum_polarization=(1, 0), noise_sd=0.1)),
        ]
        import xarray as _xr
        chan = lambda vals: _xr.DataArray(list(vals), dims=["illumination"], coords={"illumination": ["red", "green"]})
        extra += [
            # per-channel optics written as labelled arrays (string labels), one of them holding a prior
            ("per_channel_array_optics", lambda: AlphaModel(Sphere(n=prior.Uniform(1.4, 1.6), r=0.5, center=C3), alpha=prior.Uniform(0.5, 1),
                                                            illum_wavelen=chan([0.66, 0.52]), noise_sd=chan([0.05, 0.1]),
                                                            medium_index=1.33, illum_polarization=(1, 0), theory=Mie())),
        ]
        # ties across the sections of a model (a scatterer parameter with the scaling, a theory parameter or the
        # noise): only add_tie can make them, and they must come back
        def tied(make, names, new_name=None):
            def mk():
                m_ = make()
                m_.add_tie(names, new_name=new_name)
                return m_
            return mk
        U51 = lambda: prior.Uniform(0.5, 1.0)
        extra += [
            ("tie_r_alpha", tied(lambda: AlphaModel(Sphere(n=1.59, r=U51(), center=C3), alpha=U51(), medium_index=1.33,
                                                    illum_wavelen=0.66, illum_polarization=(1, 0), noise_sd=0.1, theory=Mie()),
                                 ["r", "alpha"])),
            ("tie_r_lens_angle_named", tied(lambda: AlphaModel(Sphere(n=prior.Uniform(1.4, 1.6), r=U51(), center=C3), alpha=0.9,
                                                               theory=MieLens(lens_angle=U51()), medium_index=1.33, illum_wavelen=0.66,
                                                               illum_polarization=(1, 0), noise_sd=0.1),
                                            ["lens_angle", "r"], "shared")),
            ("tie_r_noise_alpha", tied(lambda: AlphaModel(Sphere(n=1.59, r=U51(), center=[U51(), 2.0, 3.0]), alpha=U51(), medium_index=1.33,
                                                          illum_wavelen=0.66, illum_polarization=(1, 0), noise_sd=U51(), theory=Mie()),
                                       ["alpha", "noise_sd", "center.0"])),
        ]
        # three consecutive cycles each, and the whole list twice: what was loaded before (a constrained model
        # in particular) must not show in what is loaded next
        for rnd, (name, mk) in enumerate(extra + extra):
            ctx.case(("model", name, rnd // len(extra)))
            try:
                with warnings.catch_warnings(record=True) as w:
                    warnings.simplefilter("always")
                    m = mk()
                    m2 = m
                    for cyc in range(3):
                        m2 = roundtrip(m2, "stream" if cyc != 1 else "file", tmp, 0)
                        if cyc == 0:
                            t_first = dump_text(m2)
                # (the text of a model tied by add_tie differs from its reloads' by YAML anchors only - which equal
                # floats are one Python object; from the first reload on it is fixed)
                same = (list(m.parameters) == list(m2.parameters) and type(m2.theory) is type(m.theory)
                        and norm(m.scatterer) == norm(m2.scatterer)
                        and (t_first if name.startswith("tie_") else dump_text(m)) == dump_text(m2)
                        and not any("inconsisten" in str(x.message) for x in w))
                if same and name.startswith("tie_"):
                    # same value-to-place mapping: one value vector, the same scatterer, theory and optics
                    vals = {nm: 0.6 + 0.07 * i_ for i_, nm in enumerate(m.parameters)}
                    same = (norm(m.scatterer_from_parameters(vals)) == norm(m2.scatterer_from_parameters(vals))
                            and norm(m.theory_from_parameters(vals)) == norm(m2.theory_from_parameters(vals))
                            and norm(m._find_optics([vals[nm] for nm in m.parameters], None))
                            == norm(m2._find_optics([vals[nm] for nm in m2.parameters], None))
                            and len(m.parameters) < 3 + (name == "tie_r_lens_angle_named"))
                if name == "constraint":
                    same = same and len(m2.constraints) == 1 and m2.constraints[0].fraction == 0.2
                else:
                    same = same and len(m2.constraints) == 0
                if not same:
                    ctx.violation("model/%s/changed" % name, {"orig": list(m.parameters), "loaded": list(m2.parameters)})
                else:
                    ctx.trace_ok()
            except Exception as e:
                ctx.violation("model/%s/exception" % name, {"exc": repr(e)[:300]})
    finally:
        shutil.rmtree(tmp, ignore_errors=True)
    ctx.exhaustive = not quick


if __name__ == "__main__":
    sys.exit(harness.main(PID, run))
