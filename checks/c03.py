"""C03 — cross sections obey energy conservation and the optical theorem.

spec/CrossSections.tla enumerates the sphere configuration classes and says which radiometric
relation applies to each; the harness calls the public calc_cross_sections / calc_scat_matrix
for every class, measures every relation and spec/CrossSectionsTrace.tla validates the
recorded defects (code -> spec).
"""
import math
import os
import random
import sys

sys.path.insert(0, os.path.join(os.path.dirname(os.path.abspath(__file__)), "..", "lib"))
sys.path.insert(0, os.path.join(os.path.dirname(os.path.abspath(__file__)), ".."))
import boot  # noqa
import harness
import quant
import trace as tracemod
from oracles import mie_series

import numpy as np

PID = "C03"

from holopy.scattering import Sphere, Spheres, calc_scat_matrix, calc_cross_sections, Mie, Multisphere
from holopy.core.metadata import detector_points

MV = {"low": 1.05, "mid": 1.2, "high": 2.5, "weak_abs": 1.2 + 0.01j, "strong_abs": 1.4 + 1.0j}   # relative
XV = {"rayleigh": 1e-3, "small": 0.1, "unit": 1.0, "medium": 5.0, "large": 20.0, "xlarge": 80.0, "huge": 400.0}
MEDIA = {"vacuum": 1.0, "water": 1.33, "oil": 1.515}
EXACT = -20000


def measure(c, rels, rng):
    nmed = MEDIA[c["medium"]]
    wl = rng.choice([0.405, 0.66, 1.064]) * rng.uniform(0.9, 1.1)
    k = 2 * math.pi * nmed / wl
    x = XV[c["x"]] * rng.uniform(0.85, 1.2)
    m = MV[c["m"]]
    r = x / k
    psi = c["pol"] * math.pi / 12
    pol = (math.cos(psi), math.sin(psi))
    if c["layers"] == "homogeneous":
        sc = Sphere(n=m * nmed, r=r, center=(0, 0, 0))
    elif c["layers"] == "core_shell":
        sc = Sphere(n=[m * nmed, (1.1 + (0.02j if not isinstance(m, float) else 0)) * nmed],
                    r=[0.6 * r, r], center=(0, 0, 0))
    elif c["layers"] == "lossy_core_3":
        sc = Sphere(n=[m * nmed, 1.3 * nmed, 1.1 * nmed], r=[0.5 * r, 0.8 * r, r], center=(0, 0, 0))
    else:
        sc = Sphere(n=[1.3 * nmed, m * nmed, 1.1 * nmed], r=[0.3 * r, 0.7 * r, r], center=(0, 0, 0))
    opts = dict(medium_index=nmed, illum_wavelen=wl)
    cs = calc_cross_sections(sc, illum_polarization=pol, **opts).values
    sca, ab, ext, g = (float(v) for v in cs)
    ev = {"event": "CrossSections", "cls": "%s/%s/%s/%s/%d" % (c["m"], c["x"], c["medium"], c["layers"], c["pol"]),
          "bigx": bool(c["x"] in ("xlarge", "huge")), "index_real": bool(isinstance(m, float)),
          "x": round(x, 5), "layered": bool(c["layers"] != "homogeneous"), "layers": c["layers"],
          "xcls": c["x"]}
    ok = all(np.isfinite(v) for v in (sca, ab, ext, g)) and ext != 0
    ev["mb_ext_is_sum"] = quant.mb(abs(ext - (sca + ab)) / abs(ext)) if ok else 20000
    ev["mb_abs_neg_part"] = quant.mb(max(0.0, -ab) / abs(ext)) if ok else 20000
    ev["mb_abs_over_ext"] = quant.mb(abs(ab) / abs(ext)) if ok else 20000
    ev["sca_pos"] = bool(ok and sca > 0)
    ev["g_in_range"] = bool(ok and -1 <= g <= 1)
    # forward amplitude and angular integrals from the public scattering matrix
    ns = mie_series.nstop(x)
    npts = max(40, 4 * ns)
    mu, w = np.polynomial.legendre.leggauss(npts)
    th = np.arccos(mu)
    d = detector_points(theta=np.concatenate([[0.0], th]), phi=np.zeros(npts + 1), r=1e6)
    S = calc_scat_matrix(d, sc, theory=Mie(), **opts).values
    s0 = S[0, 0, 0]
    s1, s2 = S[1:, 1, 1], S[1:, 0, 0]
    ev["mb_optical_theorem"] = quant.mb(abs(4 * math.pi / k ** 2 * s0.real - ext) / abs(ext)) if ok else 20000
    inten = (np.abs(s1) ** 2 + np.abs(s2) ** 2)
    sca_i = math.pi / k ** 2 * float(np.sum(w * inten))
    g_i = math.pi / k ** 2 * float(np.sum(w * inten * mu)) / sca_i
    ev["mb_sca_integral"] = quant.mb(abs(sca_i - sca) / abs(sca)) if ok else 20000
    ev["mb_g_integral"] = quant.mb(abs(g_i - g)) if ok else 20000
    ev["mb_rayleigh"] = EXACT
    ev["mb_textbook"] = EXACT
    ev["mb_multisphere"] = EXACT
    geo = math.pi * r * r
    if "rayleigh" in rels:
        if c["layers"] == "homogeneous":
            eps = complex(m) ** 2
        else:
            # quasi-static effective permittivity of a layered sphere, built outward one shell at a time
            ns_ = [complex(v) / nmed for v in sc.n]
            rs_ = list(sc.r)
            eps = ns_[0] ** 2
            for i_ in range(1, len(ns_)):
                es, f = ns_[i_] ** 2, (rs_[i_ - 1] / rs_[i_]) ** 3
                eps = es * (eps * (1 + 2 * f) + 2 * es * (1 - f)) / (eps * (1 - f) + es * (2 + f))
        pol_ = (eps - 1) / (eps + 2)
        real_all = all(abs(complex(v).imag) == 0 for v in np.atleast_1d(sc.n))
        xr_, sca_r, ab_r, geo_r = x, sca, ab, geo
        if c["layers"] != "homogeneous":
            # layered spheres: the formula is compared at x = 5e-3 (same shape, five times larger): at 1e-3
            # the layered recursion has lost its precision (open finding, 1e-3 relative), at 5e-3 both the
            # recursion (1e-6) and the O(x^2) corrections (3e-5) are far below the tolerance
            xr_ = 5.0 * x
            big = Sphere(n=sc.n, r=[5.0 * v for v in sc.r], center=(0, 0, 0))
            csr = calc_cross_sections(big, illum_polarization=pol, **opts).values
            sca_r, ab_r, geo_r = float(csr[0]), float(csr[1]), 25.0 * geo
        q_sca = 8.0 / 3.0 * xr_ ** 4 * abs(pol_) ** 2
        q_abs = 4 * xr_ * pol_.imag if not real_all else 0.0
        dd = abs(sca_r / geo_r - q_sca) / q_sca
        if q_abs > 0:
            dd = max(dd, abs(ab_r / geo_r - q_abs) / q_abs)
        ev["mb_rayleigh"] = quant.mb(dd)
    if False:
        pol_ = (m * m - 1) / (m * m + 2)
        q_sca = 8.0 / 3.0 * x ** 4 * abs(pol_) ** 2
        q_abs = 4 * x * pol_.imag if not isinstance(m, float) else 0.0
        dd = abs(sca / geo - q_sca) / q_sca
        if q_abs > 0:
            dd = max(dd, abs(ab / geo - q_abs) / q_abs)
        ev["mb_rayleigh"] = quant.mb(dd)
    if "textbook" in rels:
        qe, qs, qa, gg = mie_series.efficiencies(m, x)
        dd = max(abs(ext / geo - qe) / qe, abs(sca / geo - qs) / qs, abs(ab / geo - qa) / qe, abs(g - gg))
        ev["mb_textbook"] = quant.mb(dd)
    return ev, sc, opts, pol, cs


def run(ctx):
    quick = ctx.tier == "quick"
    rng = random.Random(ctx.seed)
    ctx.rule = ("TLC enumerates 5 relative-index x 7 size x 3 medium x 4 layering x 4 polarisation classes "
                "and the relations applicable to each; quick: every (index, size, layering) with rotating "
                "medium/polarisation, thorough: all 1260 classes; distinct = class; non-trivial = size >= unit "
                "or absorbing")
    ctx.assumptions = ["angular integrals by Gauss-Legendre quadrature with 4 x nstop nodes",
                       "independent textbook series as leaf for the four numbers"]
    g = ctx.tlc_graph("CrossSections", "CrossSections.cfg")
    states = [g.states[s] for s in g.init]
    if quick:
        byk = {}
        for st in states:
            c = st["cfg"]["c"]
            byk.setdefault((c["m"], c["x"], c["layers"]), []).append(st)
        states = []
        for k, lst in sorted(byk.items()):
            lst.sort(key=lambda s: str(sorted(s["cfg"]["c"].items())))
            states.append(lst[rng.randrange(len(lst))])
        # the one-sphere-cluster relation must see both an x- and a y-polarised case
        extra = [st for st in (g.states[s] for s in g.init)
                 if st["cfg"]["c"]["layers"] == "homogeneous" and st["cfg"]["c"]["x"] in ("unit", "medium")
                 and st["cfg"]["c"]["pol"] in (0, 6) and st["cfg"]["c"]["medium"] == "water"
                 and st["cfg"]["c"]["m"] in ("mid", "weak_abs")]
        extra.sort(key=lambda s: str(sorted(s["cfg"]["c"].items())))
        states = extra + states
    traces = []
    nms = 0
    ms_budget = 8 if quick else 40
    for st in states:
        c, rels = st["cfg"]["c"], st["cfg"]["rels"]
        ctx.case(tuple(sorted(c.items())), nontrivial=c["x"] not in ("rayleigh", "small") or c["m"].endswith("abs"))
        try:
            ev, sc, opts, pol, cs = measure(c, rels, rng)
            if "multisphere" in rels and nms < ms_budget and c["x"] in ("small", "unit", "medium"):
                nms += 1
                cm = calc_cross_sections(Spheres([sc]), illum_polarization=pol, theory=Multisphere(), **opts).values
                cm2 = calc_cross_sections(sc, illum_polarization=pol, theory=Multisphere(), **opts).values
                ext = abs(cs[2])
                dd = max(float(np.max(np.abs(cm[:3] - cs[:3]))) / ext, abs(float(cm[3] - cs[3])),
                         float(np.max(np.abs(cm2[:3] - cs[:3]))) / ext, abs(float(cm2[3] - cs[3])))
                ev["mb_multisphere"] = quant.mb(dd)
        except Exception as e:
            ctx.violation("cross_sections/exception", {"class": c, "exc": repr(e)})
            continue
        traces.append([ev])
    ctx.notes["multisphere_clusters"] = nms
    # true clusters (within the multi-sphere solver's range): the same energy relations, for polarisations
    # along and oblique to the axes; forward amplitude from calc_scat_matrix in the documented convention
    # (E_par = E_x, E_perp = -E_y at azimuth 0; scattered E_x = E_par, E_y = -E_perp)
    K_ = 2 * math.pi * 1.33 / 0.66
    geo = [(0.5, 0.1, 0.0), (-0.4, -0.2, 0.3), (0.1, 0.75, -0.2)]
    kinds = (("pair_real", [1.59, 1.59], [0.35, 0.35]), ("trimer_real", [1.59, 1.45, 1.59], [0.35, 0.2, 0.3]),
             ("pair_absorbing", [1.59 + 0.05j, 1.5], [0.3, 0.35]), ("pair_tilted_yz", [1.59, 1.59], [0.35, 0.35]),
             # the other solver of the interaction equations (biconjugate gradient, meth=0), converged tightly
             ("pair_real_bcg", [1.59, 1.59], [0.35, 0.35]), ("trimer_real_bcg", [1.59, 1.45, 1.59], [0.35, 0.2, 0.3]))
    # each cluster call integrates the asymmetry adaptively (~5 s): quick keeps 5 of the 15
    tilted = [(0.0, 0.27, -0.27), (0.0, -0.27, 0.27)]       # a pair tilted in the y-z plane: no symmetry between y > 0 and y < 0
    for kind, ns, rs in (kinds[:1] + kinds[2:5] if quick else kinds):
        pos_ = tilted if kind == "pair_tilted_yz" else geo
        MS = (lambda: Multisphere(meth=0, eps=1e-10)) if kind.endswith("_bcg") else Multisphere
        cl = Spheres([Sphere(n=n_, r=r_, center=pos_[i]) for i, (n_, r_) in enumerate(zip(ns, rs))])
        fwd = detector_points(theta=np.array([0.0]), phi=np.array([0.0]), r=1e4)
        for psi in (((0.0, 0.4, 2.2) if kind == "pair_real" else (0.0, 0.9) if kind == "pair_tilted_yz" else (0.4,) if kind.endswith("_bcg")
                     else (math.pi / 2, math.pi / 4))
                    if quick else (0.0, math.pi / 2, 0.4, math.pi / 4, 2.2)):
            ctx.case(("cluster", kind, round(psi, 3)), nontrivial=True)
            px, py = math.cos(psi), math.sin(psi)
            try:
                cs = calc_cross_sections(cl, illum_polarization=(px, py), theory=MS(), medium_index=1.33,
                                         illum_wavelen=0.66).values
                S0 = calc_scat_matrix(fwd, cl, theory=MS(), medium_index=1.33, illum_wavelen=0.66).values[0]
            except Exception as e:
                ctx.violation("cluster/exception", {"kind": kind, "exc": repr(e)[:200]})
                continue
            a = S0 @ np.array([px, -py])
            ext_fwd = 4 * math.pi / K_ ** 2 * (px * a[0] - py * a[1]).real
            # scattering and asymmetry as solid-angle integrals of |S e|^2 over the whole sphere of directions
            nth_, nph_ = 40, 64
            mu_, w_ = np.polynomial.legendre.leggauss(nth_)
            phs_ = np.arange(nph_) * 2 * math.pi / nph_
            TH, PH = np.meshgrid(np.arccos(mu_), phs_, indexing="ij")
            dirs = detector_points(theta=TH.ravel(), phi=PH.ravel(), r=1e4)
            Sg = calc_scat_matrix(dirs, cl, theory=MS(), medium_index=1.33, illum_wavelen=0.66).values
            epar = px * np.cos(PH.ravel()) + py * np.sin(PH.ravel())
            eper = px * np.sin(PH.ravel()) - py * np.cos(PH.ravel())
            inten_ = (np.abs(Sg[:, 0, 0] * epar + Sg[:, 0, 1] * eper) ** 2 + np.abs(Sg[:, 1, 0] * epar + Sg[:, 1, 1] * eper) ** 2)
            inten_ = inten_.reshape(nth_, nph_)
            wgt = w_[:, None] * (2 * math.pi / nph_)
            sca_i = float(np.sum(wgt * inten_)) / K_ ** 2
            g_i = float(np.sum(wgt * inten_ * mu_[:, None])) / K_ ** 2 / sca_i
            real = all(isinstance(n_, float) for n_ in ns)
            ev = {"event": "ClusterCrossSections", "cls": "%s/%.3f" % (kind, psi), "layers": "cluster", "xcls": kind,
                  "oblique": bool(abs(px * py) > 1e-9), "index_real": real,
                  "mb_ext_is_sum": quant.mb(abs(cs[2] - cs[0] - cs[1]) / abs(cs[2])),
                  "mb_abs_neg_part": quant.mb(max(0.0, -cs[1]) / abs(cs[2])),
                  "mb_abs_over_ext": quant.mb(abs(cs[1]) / abs(cs[2])),
                  "sca_pos": bool(cs[0] > 0), "g_in_range": bool(-1 <= cs[3] <= 1),
                  "mb_optical_theorem": quant.mb(abs(ext_fwd - cs[2]) / abs(cs[2])),
                  "mb_sca_integral": quant.mb(abs(sca_i - cs[0]) / abs(cs[0])), "mb_g_integral": quant.mb(abs(g_i - cs[3]))}
            traces.append([ev])
    # one theory object for consecutive, nearly identical particles: every answer is the fresh object's answer
    near = [(Sphere(n=1.59 + 1e-5j, r=0.5), Sphere(n=1.59, r=0.5)),
            (Sphere(n=1.59, r=0.5), Sphere(n=1.59 + 1e-6j, r=0.5)),
            (Sphere(n=1.59, r=5.0), Sphere(n=1.59, r=5.0 * (1 + 4e-6))),
            (Sphere(n=[1.59, 1.45], r=[0.3, 0.5]), Sphere(n=[1.59, 1.45 + 1e-6j], r=[0.3, 0.5 * (1 + 1e-6)]))]
    fwd_ = detector_points(theta=np.array([0.0, 0.7]), phi=np.array([0.0, 1.0]), r=1e4)
    for k_, (s_a, s_b) in enumerate(near):
        for first, second in ((s_a, s_b), (s_b, s_a)):
            ctx.case(("shared_theory", k_, repr(first.n)), nontrivial=True)
            try:
                shared = Mie()
                calc_cross_sections(first, illum_polarization=(1, 0), theory=shared, **opts)
                calc_scat_matrix(fwd_, first, theory=shared, **opts)
                got_cs = calc_cross_sections(second, illum_polarization=(1, 0), theory=shared, **opts).values
                got_S = calc_scat_matrix(fwd_, second, theory=shared, **opts).values
                want_cs = calc_cross_sections(second, illum_polarization=(1, 0), theory=Mie(), **opts).values
                want_S = calc_scat_matrix(fwd_, second, theory=Mie(), **opts).values
            except Exception as e:
                ctx.violation("shared_theory/exception", {"pair": k_, "exc": repr(e)[:200]})
                continue
            if not (np.array_equal(got_cs, want_cs) and np.array_equal(got_S, want_S)):
                ctx.violation("shared_theory/answer_depends_on_previous_particle",
                              {"pair": k_, "second": repr(second.n), "cross_sections": [got_cs.tolist(), want_cs.tolist()]})
            else:
                ctx.trace_ok()
    verdicts = tracemod.validate(ctx, "CrossSectionsTrace", traces)
    worst = {}
    for tr, (acc, line, clauses) in zip(traces, verdicts):
        ev = tr[0]
        for k, v in ev.items():
            if k.startswith("mb_"):
                worst[k] = max(worst.get(k, -20000), v)
        if acc:
            ctx.trace_ok()
        else:
            bad = sorted(k for k, v in (clauses or {}).items() if v is False)
            if ev["event"] == "ClusterCrossSections":
                ctx.violation("cluster/%s/%s/%s" % (",".join(bad), ev["xcls"], "oblique" if ev["oblique"] else "axis"), {"event": ev})
            else:
                ctx.violation("relation/%s/%s/%s" % (",".join(bad), ev["layers"], ev["xcls"]), {"event": ev})
    ctx.notes["worst_mb"] = worst
    ctx.sample({"class": c, "relations": sorted(rels), "event": traces[-1][0] if traces else None})
    ctx.exhaustive = not quick


if __name__ == "__main__":
    sys.exit(harness.main(PID, run))
