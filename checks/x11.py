"""X11 (extension, not one of the listed properties) — the interactive viewer behind hp.show (vis.Show2D) as a state
machine: spec/Viewer.tla (stack of 1-3 planes, keys, clicks, saving); every path of <= 3 (4) events is replayed
on a real viewer (Agg canvas, synthetic events) and after every event the index, the array on the screen, the
title and the click report must be those of the specification state."""
import contextlib
import io
import os
import sys
import warnings

sys.path.insert(0, os.path.join(os.path.dirname(os.path.abspath(__file__)), "..", "lib"))
import boot  # noqa
import harness
import fp

import numpy as np
import xarray as xr

PID = "X11"

from holopy.core.metadata import data_grid
from holopy.core.io.vis import Show2D, display_image

ZS = [1.5, 2.5, 4.0]
PITCH = (0.1, 0.25)
SHAPE = (4, 5)


class Ev:
    def __init__(self, key=None, xdata=None, ydata=None):
        self.key, self.xdata, self.ydata = key, xdata, ydata


def stack(n, nprng):
    planes = [data_grid(nprng.normal(size=SHAPE) * 3 + 7, spacing=PITCH, z=ZS[k], medium_index=1.33, illum_wavelen=0.66,
                        illum_polarization=(1, 0)) for k in range(n)]
    return planes[0] if n == 1 else xr.concat(planes, dim="z")


def run(ctx):
    quick = ctx.tier == "quick"
    import matplotlib
    matplotlib.use("Agg")
    from matplotlib import pyplot as plt
    nprng = np.random.default_rng(ctx.seed)
    ctx.rule = ("TLC enumerates stacks of 1-3 planes and every sequence of <= 3 (4 thorough) events out of 4 keys, 3 clicks "
                "and saving; every path (a seeded 120 per stack in the quick tier) is replayed on a real viewer; distinct = (planes, path)")
    ctx.assumptions = ["events are synthetic objects carrying key / xdata / ydata; the Agg canvas stands for the screen"]
    import random
    rng = random.Random(ctx.seed)
    depth = 3 if quick else 4
    g = ctx.tlc_graph("Viewer", "Viewer.cfg", constants={"MaxSteps": depth})
    nsteps = 0
    with warnings.catch_warnings():
        warnings.simplefilter("ignore")
        for sid in g.init:
            n = g.states[sid]["n"]
            img = stack(n, nprng)
            keep = fp.fingerprint(img)
            vals = img.transpose("z", "x", "y").values
            xs, ys = img.x.values, img.y.values

            def replay(path):
                nonlocal nsteps
                v = Show2D(display_image(img))
                try:
                    cur = sid
                    for e in path:
                        nsteps += 1
                        st = g.states[e[3]]
                        report = None
                        if e[1] == "Key":
                            v(Ev(key=e[2][0]))
                        elif e[1] == "Click":
                            r, c = e[2][0]
                            buf = io.StringIO()
                            with contextlib.redirect_stdout(buf):
                                v.click(Ev(xdata=float(c), ydata=float(r)))
                            report = buf.getvalue().strip()
                            want = ("pixels: x = %d, y = %d, z = %d, units: x = %.1e, y = %.1e, z = %.1e,"
                                    % (r, c, st["i"], xs[r], ys[c], float(np.atleast_1d(img.z.values)[st["i"]])))
                            if report != want:
                                return ("click_report", {"impl": report, "spec": want})
                        else:
                            out = io.BytesIO()
                            v.save(out)
                            if len(out.getvalue()) < 100:
                                return ("save_wrote_nothing", {})
                        if v.i != st["i"]:
                            return ("index", {"impl": v.i, "spec": st["i"], "event": [e[1], e[2]]})
                        shown = np.asarray(v.plot.get_array())
                        if shown.shape != SHAPE or float(np.max(np.abs(shown - vals[st["i"]]))) > 1e-9:
                            return ("plane_on_screen", {"spec_index": st["i"]})
                        title = v.ax.get_title()
                        want_t = ("z = %s" % np.atleast_1d(img.z.values)[st["i"]]) if n > 1 else ""
                        if title != want_t:
                            return ("title", {"impl": title, "spec": want_t})
                    return None
                finally:
                    plt.close(v.fig)

            def paths(s, prefix):
                yield prefix
                for e in g.out.get(s, []):
                    yield from paths(e[3], prefix + [e])

            allp = [p_ for p_ in paths(sid, []) if p_ and not (len(p_) < depth and g.out.get(p_[-1][3]))]
            # maximal paths only: their prefixes are replayed on the way; quick: every 2-event prefix is kept in a seeded
            # sample of 120 of the 512 three-event paths per stack
            if quick:
                allp = rng.sample(allp, min(120, len(allp)))
            for path in allp:
                ctx.case((n, str([(e[1], e[2]) for e in path])), nontrivial=True)
                try:
                    bad = replay(path)
                except Exception as ex:
                    bad = ("exception", {"exc": repr(ex)[:200]})
                if bad is None and fp.fingerprint(img) != keep:
                    bad = ("image_modified", {})
                if bad:
                    ctx.violation("viewer/" + bad[0], dict(bad[1], planes=n, path=[(e[1], e[2]) for e in path]))
                else:
                    ctx.trace_ok()
    if nsteps < 300:
        raise harness.MachineryError("only %d events replayed" % nsteps)
    ctx.notes["events_replayed"] = nsteps
    ctx.sample({"planes": n, "path": [(e[1], e[2]) for e in path]})
    ctx.exhaustive = True


if __name__ == "__main__":
    sys.exit(harness.main(PID, run))
